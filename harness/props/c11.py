"""C11 — NIfTI extensions are preserved and never collide with the voxel data.

Real code exercised: nibabel/nifti1.py NiftiExtension.get_sizeondisk / write_to, Nifti1Extensions.write_to /
from_fileobj, Nifti1Header.from_fileobj / write_to / _chk_offset, AnalyzeImage.to_file_map (seek to the data
offset), nifti2.py constants.

Streams
  img    : save + load of an image ({NIfTI-1,2} x {single,pair} x {<,>} x extension list x user vox_offset);
           observable = raw bytes written after the fixed header block + vox_offset field + what is loaded
  edge   : same op, offsets that must be refused / odd offsets / codes outside int32
  parse  : Nifti1Extensions.from_fileobj on arbitrary (mostly malformed) byte strings, all `size` regimes
  ser    : Nifti1Extensions.write_to alone (bytes) + get_sizeondisk
  size   : get_sizeondisk for every content length 0..200 (exhaustive small)
  voff   : the REAL Nifti1Header.write_to on extensions whose content is a length-only stand-in: vox_offset field
           and end of the extension block for totals up to 2^33 (float32 precision of the NIfTI-1 field)
  f32    : the model's float32 rounding / successor against NumPy (and, in the oracle, exact arithmetic)
  xst    : histories over extension OBJECTS and HEADERS (Model/C11_State): extensions built from bytes or from a runtime
           object with three codecs (identity, inverse pair, non-inverse normalising pair), get_content / content /
           size reads, in-place edits, objects shared between headers, header copy / as_byteswapped / from_header between the four
           NIfTI header classes, images made from headers, explicit offsets, header.write_to and image saves (several
           per object, edits in between); every step observed; oracle = independent reference semantics (XRef)
"""
import ast
import inspect
import io
import json
import logging
import os
import struct
import sys
import tempfile
import textwrap

import numpy as np

import common
from common import Case, errname

PID = 'C11'
LEAN_TARGETS = ['NibabelModel.Props.C11']
THEOREMS = [
    'Nb.C11.size_ok',
    'Nb.C11.size_ok_int32',
    'Nb.C11.formats_ok',
    'Nb.C11.codes_ok',
    'Nb.C11.rules_ok',
    'Nb.C11.codec_roundtrip',
    'Nb.C11.serialize_length',
    'Nb.C11.reader_total',
    'Nb.C11.ext_roundtrip',
    'Nb.C11.ext_roundtrip_exact',
    'Nb.C11.ext_roundtrip_idempotent',
    'Nb.C11.offset_field_exact',
    'Nb.C11.library_offset_ok',
    'Nb.C11.fits_shipped',
    'Nb.C11.offset_ok',
    'Nb.C11.offset_ok_shipped',
    'Nb.C11.offset_nifti1_f4_orig_counterexample',
    'Nb.C11.no_overlap',
    'Nb.C11.sizes_only_agrees',
    'Nb.C11.small_offset_rejected',
    'Nb.C11.single_roundtrip_stored',
    'Nb.C11.single_roundtrip',
    'Nb.C11.single_roundtrip_shipped',
    'Nb.C11.explicit_offset_roundtrip',
    'Nb.C11.pair_roundtrip',
    'Nb.C11.data_independent',
    'Nb.C11.data_independent_pair',
    'Nb.C11.ext_gap_orig_counterexample',
    'Nb.C11.ext_gap_fixed_example',
    'Nb.C11.World.step_read_shown',
    'Nb.C11.ext_object_state',
    'Nb.C11.write_emits_shown',
    'Nb.C11.save_emits_shown',
    'Nb.C11.history_save_load',
    'Nb.C11.save_restores_header',
    'Nb.C11.header_write_keeps_lists',
    'Nb.C11.edit_shows',
    'Nb.C11.conversion_table_ok',
    'Nb.C11.conversion_carries_extensions',
    'Nb.C11.lists_independent',
    'Nb.C11.write_plan_ok',
    'Nb.C11.pair_extensions_run_to_eof',
    'Nb.C11.byteswap_carries_extensions',
    'Nb.C11.byteswap_orig_counterexample',
]
ASSUMPTIONS = [
    'hand-written Lean model (Model/C11.lean) of the CONTROL FLOW of NiftiExtension.write_to, Nifti1Extensions.write_to/'
    'from_fileobj, Nifti1Header.write_to/from_fileobj (extender, extsize, minimum-offset rule incl. the float32 '
    'fill-in repair), _chk_offset and the seek-then-write of AnalyzeImage.to_file_map; tied to the code by the '
    'differential correspondence (raw bytes written + values loaded) on every case of this run',
    'Generated/C11.lean is produced by the Python translator in harness/props/c11.py regen() from the working tree: '
    'the get_sizeondisk expression, the eleven one-line integer rules of reader and writer (loop condition, zero-size '
    'stop, read count, content-length check, size update, extsize, min_vox_offset, the three offset tests, pad), header '
    'sizes/offsets, the dtype of the vox_offset field (float32 / int64) and the extension code table (trusted '
    'translator: + - * // % by positive literal, len(), comparisons, and/or/not, conditional expression; it checks the '
    'SHAPE of the statements around each rule and fails loudly otherwise)',
    'float32 precision of the NIfTI-1 vox_offset field is modelled (round-to-nearest-even, nextafter) and compared '
    'with NumPy on every run (f32 stream) for values below 2^53; above that NumPy converts through float64 (double '
    'rounding) and the int64 field of NIfTI-2 overflows at 2^63 - outside the model',
    'the fixed-size header block is abstracted to (vox_offset value, endianness); its byte fidelity is C10\'s subject; '
    'the harness decodes the vox_offset field itself with struct at the dtype offset',
    'voxel data are an opaque byte string written at the data offset (dtype coding/scaling is C01/C02); NumPy '
    'int32 conversion (OverflowError outside int32) is modelled as a range check',
    'extension handler classes (pydicom for code 2, CIFTI-2 XML for code 32) are not modelled as codecs: the model sees '
    'the content bytes at the moment of the save; that the library serialises the CURRENT runtime object (_sync) is '
    'checked by the hist stream (objects edited in place) through correspondence + oracle, not by a theorem; '
    'code-2 contents are generated with an ASCII VR field so that pydicom\'s sniffing accepts them',
    'the voff stream replaces the content of an extension by a length-only stand-in and the file by a counting sink '
    '(real header / extension code otherwise); theorem sizes_only_agrees ties its model side to the full save',
    'file objects are modelled as seekable byte stores with zero fill on seek past the end (BytesIO / POSIX files)',
    'Model/C11_State.lean: hand-written heap-of-extension-objects / list-of-references model of Nifti1Header.copy, '
    'from_header (AnalyzeHeader.from_header own-class / fresh-native branch, vox_offset carried through the analyze map, '
    'check_fix refusing an offset below single_vox_offset), AnalyzeImage.__init__ offset reset, Nifti1Header.write_to '
    'leaving the chosen offset in the field and AnalyzeImage.to_file_map restoring it; tied by the xst stream. The bodies '
    'of _sync / get_object / content, the header-class conversion table and the call order of NiftiExtension.write_to '
    'are GENERATED (Generated/C11State.lean) by a second small translator in regen_state() (trusted). _mangle/_unmangle '
    'are uninterpreted functions in every theorem; the driver instantiates three concrete codecs matched by three '
    'harness subclasses of Nifti1Extension. The header keeps the value last ASSIGNED to vox_offset; re-assigning a value '
    'read back from the field is assumed to store the same value (float32 idempotence; xst offsets are < 2^20).',
]
RULE = ('xst-systematic: 4 header classes x {<,>} x as_byteswapped(None,<,>) x extension from bytes / from object -> image of the swapped header -> save+load (-> shared-object edit -> save+load) -> header write; xst: random histories of 6-30 operations over 1-2 initial headers (4 NIfTI header classes x {<,>}), 1-3 initial extensions (from bytes / from object, 3 codecs, 9 codes), then reads (get_content, content, size, total), in-place edits that extend / replace the object (lengths crossing 16-byte borders), deletions, objects shared into another header, copy, as_byteswapped(None/</>) (mostly followed by image construction + save + load), from_header and image construction into any of the 4 classes, explicit vox_offset (0, min, min+16k, min-16, odd, below header, 352, 544), header.write_to, image save + load; always ending with a save of up to two images (one of them twice with an edit in between) and a header-level write; non-trivial when it contains a save; tail16: last extension of exactly 16 bytes (content 0..9) x NIfTI-1/2 x single/pair x {<,>} x 0-2 extensions in '
        'front x offset {auto, min, min+16, min+32}; hist: multi-step histories - extensions with a mutable runtime '
        'object (generic bytearray object, CIFTI-2 header, pydicom Dataset) edited IN PLACE after construction / after '
        'a real save+load (content grown or shrunk across 16-byte boundaries, optionally after an earlier size query), '
        'extensions inserted after a reload, header carried to another image class / byte order through from_header, '
        'then saved; voff: Nifti1Header.write_to on length-only extensions with totals around 2^24..2^33 x explicit '
        'offsets (exact, +-16, odd, not float32-representable); f32: float32 rounding/successor around powers of two, '
        'ties, multiples of 16; img/edge: extension lists of 0..4 (quick) or 0..6 (thorough) extensions, codes known/unknown/negative/label '
        'strings/CIFTI/DICOM, content lengths 0..70 (all residues mod 16; sometimes up to 300) with random bytes, '
        'trailing NULs with probability 1/3, x {<,>} x {NIfTI-1,NIfTI-2} x {single,pair} x user vox_offset '
        '(none / minimum / minimum+16k / minimum+odd / below minimum / below header) x route {file_map, bytes, '
        'disk}; parse: random and mutated extension streams with size in {exact, -1, short, long, odd}; a case is '
        'non-trivial when it has >= 1 extension or an explicit offset; distinct by (format, kind, endian, offset, '
        'extension codes and contents).')

logging.getLogger('nibabel').setLevel(logging.CRITICAL)
logging.getLogger('nibabel.global').setLevel(logging.CRITICAL)

GEN_PATH = os.path.join(common.LEAN, 'NibabelModel', 'Generated', 'C11.lean')


# =====================================================================================================
# regeneration: Python integer expression -> Lean (Int)
# =====================================================================================================

class Untranslatable(Exception):
    pass


class _Tr:
    """Translate a side-effect-free integer function body to a Lean `Int` expression.

    Supported: integer literals, local names bound by simple assignment, `len(<expr>)` (each distinct argument
    becomes a parameter), + - * (one factor a literal), // and % by a POSITIVE literal (Lean's Int `/` `%` are
    Euclidean = Python floor semantics only for positive divisors), unary minus, comparisons (single operator),
    `and`/`or`/`not` inside conditions, conditional expressions.  Anything else raises Untranslatable."""

    def __init__(self, atoms=None):
        self.params = {}       # source text of len-argument -> parameter name
        self.locals = set()
        self.atoms = dict(atoms or {})   # source text of a sub-expression -> name of the Lean parameter standing for it

    def lit(self, node):
        if isinstance(node, ast.Constant) and type(node.value) is int:
            return node.value
        if isinstance(node, ast.UnaryOp) and isinstance(node.op, ast.USub):
            v = self.lit(node.operand)
            return None if v is None else -v
        return None

    def expr(self, n):
        v = self.lit(n)
        if v is not None:
            return f'({v})' if v < 0 else str(v)
        if ast.unparse(n) in self.atoms:
            return self.atoms[ast.unparse(n)]
        if isinstance(n, ast.Name):
            if n.id in self.locals:
                return n.id + '_'
            raise Untranslatable('free name ' + n.id)
        if isinstance(n, ast.Call):
            if isinstance(n.func, ast.Name) and n.func.id == 'len' and len(n.args) == 1 and not n.keywords:
                src = ast.unparse(n.args[0])
                if src not in self.params:
                    self.params[src] = 'n' if not self.params else 'n%d' % len(self.params)
                return self.params[src]
            raise Untranslatable('call ' + ast.unparse(n))
        if isinstance(n, ast.UnaryOp) and isinstance(n.op, ast.USub):
            return f'(-{self.expr(n.operand)})'
        if isinstance(n, ast.BinOp):
            a, b = self.expr(n.left), self.expr(n.right)
            if isinstance(n.op, ast.Add):
                return f'({a} + {b})'
            if isinstance(n.op, ast.Sub):
                return f'({a} - {b})'
            if isinstance(n.op, ast.Mult):
                if self.lit(n.left) is None and self.lit(n.right) is None:
                    raise Untranslatable('non-linear product ' + ast.unparse(n))
                return f'({a} * {b})'
            if isinstance(n.op, (ast.FloorDiv, ast.Mod)):
                d = self.lit(n.right)
                if d is None or d <= 0:
                    raise Untranslatable('// or % by something that is not a positive literal: ' + ast.unparse(n))
                return f'({a} {"/" if isinstance(n.op, ast.FloorDiv) else "%"} {b})'
            raise Untranslatable('operator ' + ast.unparse(n))
        if isinstance(n, ast.IfExp):
            return f'(if {self.cond(n.test)} then {self.expr(n.body)} else {self.expr(n.orelse)})'
        raise Untranslatable(ast.unparse(n))

    def cond(self, n):
        if isinstance(n, ast.Compare) and len(n.ops) == 1:
            op = {ast.Lt: '<', ast.LtE: '≤', ast.Gt: '>', ast.GtE: '≥', ast.Eq: '=', ast.NotEq: '≠'}.get(type(n.ops[0]))
            if op is None:
                raise Untranslatable('comparison ' + ast.unparse(n))
            return f'({self.expr(n.left)} {op} {self.expr(n.comparators[0])})'
        if isinstance(n, ast.BoolOp):
            j = ' ∧ ' if isinstance(n.op, ast.And) else ' ∨ '
            return '(' + j.join(self.cond(v) for v in n.values) + ')'
        if isinstance(n, ast.UnaryOp) and isinstance(n.op, ast.Not):
            return f'(¬ {self.cond(n.operand)})'
        raise Untranslatable('condition ' + ast.unparse(n))

    def body(self, fn):
        stmts = list(fn.body)
        if stmts and isinstance(stmts[0], ast.Expr) and isinstance(stmts[0].value, ast.Constant) \
                and isinstance(stmts[0].value.value, str):
            stmts = stmts[1:]                           # docstring
        lets = []
        for s in stmts[:-1]:
            if isinstance(s, ast.Assign) and len(s.targets) == 1 and isinstance(s.targets[0], ast.Name):
                rhs = self.expr(s.value)
                self.locals.add(s.targets[0].id)
                lets.append(f'let {s.targets[0].id}_ : Int := {rhs}\n  ')
            else:
                raise Untranslatable('statement ' + ast.unparse(s))
        if not stmts or not isinstance(stmts[-1], ast.Return) or stmts[-1].value is None:
            raise Untranslatable('function does not end in `return <expr>`')
        return ''.join(lets) + self.expr(stmts[-1].value)


def translate_sizeondisk():
    from nibabel import nifti1
    src = textwrap.dedent(inspect.getsource(nifti1.NiftiExtension.get_sizeondisk))
    fn = ast.parse(src).body[0]
    tr = _Tr()
    body = tr.body(fn)
    if list(tr.params) != ['self.content']:
        raise Untranslatable('get_sizeondisk must depend on len(self.content) only, got ' + repr(list(tr.params)))
    ret = ast.unparse(fn.body[-1])
    return body, ret


def _fn_ast(obj):
    return ast.parse(textwrap.dedent(inspect.getsource(obj))).body[0]


def _only(nodes, what):
    nodes = list(nodes)
    if len(nodes) != 1:
        raise Untranslatable(f'expected exactly one {what}, found {len(nodes)}')
    return nodes[0]


def _raises(stmts, exc):
    return (len(stmts) == 1 and isinstance(stmts[0], ast.Raise) and isinstance(stmts[0].exc, ast.Call)
            and ast.unparse(stmts[0].exc.func) == exc)


def translate_rules():
    """One-line integer rules of the extension reader / writer, taken from the AST of the working tree.  Each
    entry: (lean name, parameters, result type, body, python source).  The SHAPE of the surrounding statement
    (while / if-break / if-not-raise / augmented assignment / if-elif-raise) is checked, anything else is
    Untranslatable (loud failure)."""
    from nibabel import nifti1
    out = []

    def add(name, params, typ, body, node):
        out.append((name, params, typ, body, ast.unparse(node).split('\n')[0]))

    # ---- Nifti1Extensions.from_fileobj
    fn = _fn_ast(nifti1.Nifti1Extensions.from_fileobj.__func__)
    loop = _only([n for n in fn.body if isinstance(n, ast.While)], 'while loop in from_fileobj')
    if loop.orelse:
        raise Untranslatable('while-else in from_fileobj')
    add('readLoopCond', ['size'], 'Bool', 'decide ' + _Tr({'size': 'size'}).cond(loop.test), loop.test)
    stops = [n for n in loop.body if isinstance(n, ast.If) and len(n.body) == 1 and isinstance(n.body[0], ast.Break)
             and not n.orelse and 'esize' in ast.unparse(n.test)]
    stop = _only(stops, '`if <esize test>: break` in from_fileobj')
    add('zeroSizeStops', ['esize'], 'Bool', 'decide ' + _Tr({'esize': 'esize'}).cond(stop.test), stop.test)
    reads = [n for n in loop.body if isinstance(n, ast.Assign) and ast.unparse(n.targets[0]) == 'evalue'
             and isinstance(n.value, ast.Call) and ast.unparse(n.value.func) == 'fileobj.read']
    rd = _only(reads, '`evalue = fileobj.read(...)` in from_fileobj')
    arg = _only(rd.value.args, 'argument of fileobj.read')
    if isinstance(arg, ast.Call) and ast.unparse(arg.func) == 'int' and len(arg.args) == 1:
        arg = arg.args[0]
    add('readCount', ['esize'], 'Int', _Tr({'esize': 'esize'}).expr(arg), rd)
    chks = [n for n in loop.body if isinstance(n, ast.If) and 'len(evalue)' in ast.unparse(n.test)]
    chk = _only(chks, 'length check of evalue in from_fileobj')
    if not (isinstance(chk.test, ast.UnaryOp) and isinstance(chk.test.op, ast.Not)
            and _raises(chk.body, 'HeaderDataError') and not chk.orelse):
        raise Untranslatable('length check of evalue is not `if not <test>: raise HeaderDataError(...)`')
    add('contentLenOk', ['got', 'esize'], 'Bool',
        'decide ' + _Tr({'len(evalue)': 'got', 'esize': 'esize'}).cond(chk.test.operand), chk.test)
    augs = [n for n in loop.body if isinstance(n, ast.AugAssign) and ast.unparse(n.target) == 'size']
    aug = _only(augs, 'augmented assignment to size in from_fileobj')
    if not isinstance(aug.op, ast.Sub):
        raise Untranslatable('size is not updated with -=')
    add('sizeAfter', ['size', 'esize'], 'Int', f"(size - {_Tr({'esize': 'esize'}).expr(aug.value)})", aug)
    # ---- Nifti1Header.from_fileobj
    fn = _fn_ast(nifti1.Nifti1Header.from_fileobj.__func__)
    asg = _only([n for n in ast.walk(fn) if isinstance(n, ast.Assign) and ast.unparse(n.targets[0]) == 'extsize'
                 and _Tr().lit(n.value) is None], 'computed extsize in Nifti1Header.from_fileobj')
    add('extSize', ['vox_offset', 'tell'], 'Int',
        _Tr({"hdr._structarr['vox_offset']": 'vox_offset', 'fileobj.tell()': 'tell'}).expr(asg.value), asg)
    # the pair branch: `if not klass.is_single: extsize = <literal> else: extsize = <computed>`
    br = _only([n for n in ast.walk(fn) if isinstance(n, ast.If) and ast.unparse(n.test) == 'not klass.is_single'],
               '`if not klass.is_single:` in Nifti1Header.from_fileobj')
    if not (len(br.body) == 1 and isinstance(br.body[0], ast.Assign) and ast.unparse(br.body[0].targets[0]) == 'extsize'
            and _Tr().lit(br.body[0].value) is not None and len(br.orelse) == 1 and br.orelse[0] is asg):
        raise Untranslatable('pair / single branches of extsize in Nifti1Header.from_fileobj have an unexpected shape')
    add('pairExtSize', [], 'Int', _Tr().expr(br.body[0].value), br.body[0])
    # ---- Nifti1Header.write_to
    fn = _fn_ast(nifti1.Nifti1Header.write_to)
    top = fn.body[0]
    if not (isinstance(top, ast.If) and ast.unparse(top.test) == 'self.is_single' and not top.orelse):
        raise Untranslatable('Nifti1Header.write_to does not start with `if self.is_single:`')
    if not (len(top.body) == 3 and ast.unparse(top.body[0]) == "vox_offset = self._structarr['vox_offset']"
            and isinstance(top.body[1], ast.Assign) and ast.unparse(top.body[1].targets[0]) == 'min_vox_offset'
            and isinstance(top.body[2], ast.If)):
        raise Untranslatable('offset rule of Nifti1Header.write_to has an unexpected shape')
    add('minVoxOffset', ['single_vox_offset', 'ext_size'], 'Int',
        _Tr({'self.single_vox_offset': 'single_vox_offset',
             'self.extensions.get_sizeondisk()': 'ext_size'}).expr(top.body[1].value), top.body[1])
    rule = top.body[2]
    add('offsetUnset', ['vox_offset'], 'Bool', 'decide ' + _Tr({'vox_offset': 'vox_offset'}).cond(rule.test), rule.test)
    if not (len(rule.orelse) == 1 and isinstance(rule.orelse[0], ast.If) and not rule.orelse[0].orelse
            and _raises(rule.orelse[0].body, 'HeaderDataError')):
        raise Untranslatable('`elif <too small>: raise HeaderDataError` missing in Nifti1Header.write_to')
    small = rule.orelse[0].test
    add('offsetTooSmall', ['vox_offset', 'min_vox_offset'], 'Bool',
        'decide ' + _Tr({'vox_offset': 'vox_offset', 'min_vox_offset': 'min_vox_offset'}).cond(small), small)
    fill = rule.body
    if not (len(fill) == 3 and ast.unparse(fill[0]) == "self._structarr['vox_offset'] = min_vox_offset"
            and ast.unparse(fill[1]) == "stored = self._structarr['vox_offset']" and isinstance(fill[2], ast.If)
            and not fill[2].orelse and len(fill[2].body) == 1
            and ast.unparse(fill[2].body[0]) ==
            "self._structarr['vox_offset'] = np.nextafter(stored, stored.dtype.type(np.inf))"):
        raise Untranslatable('fill-in branch of Nifti1Header.write_to has an unexpected shape')
    add('storedBelow', ['stored', 'min_vox_offset'], 'Bool',
        'decide ' + _Tr({'stored': 'stored', 'min_vox_offset': 'min_vox_offset'}).cond(fill[2].test), fill[2].test)
    # ---- NiftiExtension.write_to
    fn = _fn_ast(nifti1.NiftiExtension.write_to)
    pad = _only([n for n in fn.body if isinstance(n, ast.Assign) and ast.unparse(n.targets[0]) == 'pad'],
                'assignment to pad in NiftiExtension.write_to')
    add('padBytes', ['extstart', 'rawsize', 'tell'], 'Int',
        _Tr({'extstart': 'extstart', 'rawsize': 'rawsize', 'fileobj.tell()': 'tell'}).expr(pad.value), pad)
    return out


# ---- object-state methods of NiftiExtension (`_sync`, `get_object`, `content`) -> Lean state transformers ----------

STATE_FIELDS = {'_raw': 'bytes', '_object': 'optional'}


class _StateTr:
    """Translate a method of NiftiExtension that only touches `self._raw` (bytes) and `self._object` (None or the
    runtime object) into a Lean function on `ExtState Obj`.  Statements: `if self.F is [not] None: <stmts>` (no
    else), `self.F = self._mangle(<e>) | self._unmangle(<e>) | self.G`, `self._sync()`, `return self.F`.
    A field of optional type is only ever READ where the control flow has established that it is not None (inside
    `is not None`, after an assignment): that is what makes `return self._object` well typed."""

    def __init__(self):
        self.k = 0

    def fresh(self, p):
        self.k += 1
        return f'{p}{self.k}'

    def field(self, n):
        if isinstance(n, ast.Attribute) and isinstance(n.value, ast.Name) and n.value.id == 'self' \
                and n.attr in STATE_FIELDS:
            return n.attr
        return None

    def expr(self, n, env):
        f = self.field(n)
        if f is not None:
            if STATE_FIELDS[f] == 'optional':
                if env.get(f) is None:
                    raise Untranslatable(f'self.{f} read where it may be None')
                return env[f], 'obj'
            return f's.{f}', 'bytes'
        if isinstance(n, ast.Call) and isinstance(n.func, ast.Attribute) and isinstance(n.func.value, ast.Name) \
                and n.func.value.id == 'self' and n.func.attr in ('_mangle', '_unmangle') and len(n.args) == 1 \
                and not n.keywords:
            a, t = self.expr(n.args[0], env)
            if n.func.attr == '_mangle':
                if t != 'obj':
                    raise Untranslatable('_mangle applied to bytes')
                return f'(mangle {a})', 'bytes'
            if t != 'bytes':
                raise Untranslatable('_unmangle applied to an object')
            return f'(unmangle {a})', 'obj'
        raise Untranslatable('state expression ' + ast.unparse(n))

    def block(self, stmts, env, ind, returns):
        pad = '  ' * ind
        if not stmts:
            if returns is not None:
                raise Untranslatable('method falls off its end but must return a value')
            return pad + 's\n'
        st, rest = stmts[0], stmts[1:]
        if isinstance(st, ast.Return):
            if returns is None or st.value is None or rest:
                raise Untranslatable('return ' + ast.unparse(st))
            v, t = self.expr(st.value, env)
            if t != returns:
                raise Untranslatable(f'returns {t}, expected {returns}')
            return pad + f'(s, {v})\n'
        if isinstance(st, ast.Expr) and ast.unparse(st.value) == 'self._sync()':
            env2 = {k: None for k in env}          # nothing is known about the optional fields after a call
            return pad + 'let s := sync mangle unmangle s\n' + self.block(rest, env2, ind, returns)
        if isinstance(st, ast.Assign) and len(st.targets) == 1 and self.field(st.targets[0]):
            f = self.field(st.targets[0])
            v, t = self.expr(st.value, env)
            want = 'obj' if STATE_FIELDS[f] == 'optional' else 'bytes'
            if t != want:
                raise Untranslatable(f'self.{f} assigned a value of type {t}')
            b = self.fresh('v')
            env2 = dict(env)
            out = pad + f'let {b} := {v}\n'
            if want == 'obj':
                out += pad + f'let s := {{ s with {f} := some {b} }}\n'
                env2[f] = b
            else:
                out += pad + f'let s := {{ s with {f} := {b} }}\n'
            return out + self.block(rest, env2, ind, returns)
        if isinstance(st, ast.If) and not st.orelse and isinstance(st.test, ast.Compare) and len(st.test.ops) == 1 \
                and isinstance(st.test.ops[0], (ast.Is, ast.IsNot)) and isinstance(st.test.comparators[0], ast.Constant) \
                and st.test.comparators[0].value is None and self.field(st.test.left) \
                and STATE_FIELDS[self.field(st.test.left)] == 'optional':
            f = self.field(st.test.left)
            b = self.fresh('o')
            env_some, env_none = dict(env), dict(env)
            env_some[f], env_none[f] = b, None
            if isinstance(st.test.ops[0], ast.IsNot):
                some_b = self.block(list(st.body) + rest, env_some, ind + 2, returns)
                none_b = self.block(rest, env_none, ind + 2, returns)
            else:
                some_b = self.block(rest, env_some, ind + 2, returns)
                none_b = self.block(list(st.body) + rest, env_none, ind + 2, returns)
            return (pad + f'match s.{f} with\n' + pad + f'| some {b} =>\n' + some_b + pad + '| none =>\n' + none_b)
        raise Untranslatable('state statement ' + ast.unparse(st).split('\n')[0])

    def method(self, fn, returns):
        stmts = list(fn.body)
        if stmts and isinstance(stmts[0], ast.Expr) and isinstance(stmts[0].value, ast.Constant) \
                and isinstance(stmts[0].value.value, str):
            stmts = stmts[1:]
        return self.block(stmts, {f: None for f, t in STATE_FIELDS.items() if t == 'optional'}, 1, returns)


HEADER_CLASS_NAMES = ('Nifti1Header', 'Nifti1PairHeader', 'Nifti2Header', 'Nifti2PairHeader')


def _header_classes():
    from nibabel import nifti1, nifti2
    return [nifti1.Nifti1Header, nifti1.Nifti1PairHeader, nifti2.Nifti2Header, nifti2.Nifti2PairHeader]


def conversion_table():
    """which header-class conversions carry the extension list, read off the class hierarchy and the AST of the
    methods involved (no code is run): `klass.from_header(h)` is `h.copy()` for the own class (AnalyzeHeader.from_header,
    `type(header) == klass`) and otherwise ends in `if isinstance(header, Nifti1Header): new_hdr.extensions[:] =
    header.extensions[:]`; `copy()` hands `self.extensions` to `__init__`, which builds a new `exts_klass` list."""
    from nibabel import nifti1, analyze
    N1 = nifti1.Nifti1Header
    fh = _fn_ast(N1.from_header.__func__)
    body = [s for s in fh.body if not (isinstance(s, ast.Expr) and isinstance(s.value, ast.Constant))]
    fh_ok = (len(body) == 3 and ast.unparse(body[0]) == 'new_hdr = super().from_header(header, check)'
             and ast.unparse(body[1]) == 'if isinstance(header, Nifti1Header):\n    new_hdr.extensions[:] = header.extensions[:]'
             and ast.unparse(body[2]) == 'return new_hdr')
    cp = _fn_ast(N1.copy)
    cbody = [s for s in cp.body if not (isinstance(s, ast.Expr) and isinstance(s.value, ast.Constant))]
    cp_ok = (len(cbody) == 1 and
             ast.unparse(cbody[0]) == 'return self.__class__(self.binaryblock, self.endianness, False, self.extensions)')
    ini = _fn_ast(N1.__init__)
    ini_ok = any(ast.unparse(s) == 'self.extensions = self.exts_klass(extensions)' for s in ini.body)
    afh = ast.unparse(_fn_ast(analyze.AnalyzeHeader.from_header.__func__))
    own_ok = 'if type(header) == klass:\n        obj = header.copy()' in afh
    rows, classes = [], []
    for k in _header_classes():
        fmt = {348: 1, 540: 2}.get(k.sizeof_hdr)
        if fmt is None or type(k.is_single) is not bool:
            raise Untranslatable(f'header class {k.__name__}: sizeof_hdr {k.sizeof_hdr!r} is_single {k.is_single!r}')
        classes.append((k.__name__, fmt, k.is_single))
    for src in _header_classes():
        for dst in _header_classes():
            uses_n1 = dst.from_header.__func__ is N1.from_header.__func__ and issubclass(src, N1)
            if src is dst:
                carried = own_ok and cp_ok and ini_ok and src.copy is N1.copy and src.__init__ is N1.__init__ \
                    and uses_n1 and fh_ok
            else:
                carried = uses_n1 and fh_ok and dst.__init__ is N1.__init__
            if carried:
                rows.append((src.__name__, dst.__name__))
    return classes, rows


def byteswap_table():
    """header classes whose `as_byteswapped` to the OTHER byte order re-attaches the extension list (shape of the
    `Nifti1Header.as_byteswapped` override read from the AST; the same-order case is `copy()` in the base method)"""
    from nibabel import nifti1, wrapstruct
    N1 = nifti1.Nifti1Header
    if 'as_byteswapped' not in vars(N1):
        return []
    fn = _fn_ast(N1.as_byteswapped)
    body = [s for s in fn.body if not (isinstance(s, ast.Expr) and isinstance(s.value, ast.Constant))]
    ok = ([ast.unparse(s) for s in body] == ['out = super().as_byteswapped(endianness)',
                                             'out.extensions = self.exts_klass(self.extensions)', 'return out'])
    base = ast.unparse(_fn_ast(wrapstruct.WrapStruct.as_byteswapped))
    ok = ok and 'if endianness == current:\n        return self.copy()' in base \
        and 'return self.__class__(wstr_data.tobytes(), endianness, check=False)' in base
    return [k.__name__ for k in _header_classes()
            if ok and k.as_byteswapped is N1.as_byteswapped and k.copy is N1.copy and k.__init__ is N1.__init__]


def write_to_plan():
    """the calls of NiftiExtension.write_to that decide WHAT is written, in source order"""
    from nibabel import nifti1
    fn = _fn_ast(nifti1.NiftiExtension.write_to)
    plan = []
    for n in ast.walk(fn):
        pass
    for st in fn.body:
        for n in ast.walk(st):
            if isinstance(n, ast.Call):
                src = ast.unparse(n)
                if src.startswith('fileobj.write(') or src in ('self.get_sizeondisk()', 'self._sync()'):
                    plan.append(src)
    if any('"' in p_ or '\\' in p_ for p_ in plan):
        raise Untranslatable('quote in write_to plan')
    return plan


GEN_STATE_PATH = os.path.join(common.LEAN, 'NibabelModel', 'Generated', 'C11State.lean')


def regen_state():
    from nibabel import nifti1
    E = nifti1.NiftiExtension
    if E.get_content is not E.get_object:
        raise Untranslatable('get_content is no longer an alias of get_object')
    tr = _StateTr()
    sync = tr.method(_fn_ast(E._sync), None)
    getobj = tr.method(_fn_ast(E.get_object), 'obj')
    content = tr.method(_fn_ast(E.content.fget), 'bytes')
    classes, rows = conversion_table()
    swaps = byteswap_table()
    plan = write_to_plan()
    sig = '{Obj : Type} (mangle : Obj → List Nat) (unmangle : List Nat → Obj) (s : ExtState Obj)'
    L = ['/-! GENERATED by harness/props/c11.py regen() from the working tree of nibabel (nifti1.py, nifti2.py, analyze.py).',
         '    Do not edit: rewritten on every run of `./check C11`. Core Lean only. -/',
         'set_option linter.unusedVariables false',
         'namespace Nb.Gen.C11.State', '',
         '/-- the two attributes of a `NiftiExtension` the methods below touch -/',
         'structure ExtState (Obj : Type) where',
         '  _raw : List Nat',
         '  _object : Option Obj', '',
         '/-- `NiftiExtension._sync` -/',
         f'def sync {sig} : ExtState Obj :=', sync,
         '/-- `NiftiExtension.get_object` (= `get_content`) -/',
         f'def getObject {sig} : ExtState Obj × Obj :=', getobj,
         '/-- `NiftiExtension.content` -/',
         f'def content {sig} : ExtState Obj × List Nat :=', content,
         '/-- NIfTI header classes: (name, format 1/2 from `sizeof_hdr`, `is_single`) -/',
         'def headerClasses : List (String × Nat × Bool) :=',
         '  [' + ', '.join(f'("{n}", {f}, {"true" if s_ else "false"})' for n, f, s_ in classes) + ']', '',
         '/-- (source class, target class) for which `target.from_header(source_header)` carries the extension list',
         '    (class hierarchy + shape of `Nifti1Header.from_header` / `copy` / `__init__`, `AnalyzeHeader.from_header`) -/',
         'def carriesExt : List (String × String) :=',
         '  [' + ', '.join(f'("{a}", "{b}")' for a, b in rows) + ']', '',
         '/-- header classes whose `as_byteswapped` to the OTHER byte order keeps the extension list',
         '    (`Nifti1Header.as_byteswapped` override: `out = super().as_byteswapped(endianness); out.extensions =',
         '    self.exts_klass(self.extensions); return out`; same order is `copy()` in `WrapStruct.as_byteswapped`) -/',
         'def byteswapCarries : List String :=',
         '  [' + ', '.join(f'"{n}"' for n in swaps) + ']', '',
         '/-- `NiftiExtension.write_to`: the size query and the writes, in source order -/',
         'def writeToPlan : List String :=',
         '  [' + ', '.join(f'"{p_}"' for p_ in plan) + ']', '',
         'end Nb.Gen.C11.State', '']
    common.write_if_changed(GEN_STATE_PATH, '\n'.join(L))
    return ['Generated.C11State.sync-getObject-content', 'Generated.C11State.header-conversion-table',
            'Generated.C11State.writeToPlan']


def regen():
    from nibabel import nifti1, nifti2
    body, ret = translate_sizeondisk()
    L = ['/-! GENERATED by harness/props/c11.py regen() from the working tree of nibabel (nifti1.py, nifti2.py).',
         '    Do not edit: rewritten on every run of `./check C11`. Core Lean only. -/',
         'namespace Nb.Gen.C11', '',
         '/-- `NiftiExtension.get_sizeondisk` with `n = len(self.content)`; Python source of the last statement:',
         f'    `{ret}` -/',
         'def getSizeondisk (n : Int) : Int :=', '  ' + body, '']
    for nm, k in (('nifti1', nifti1.Nifti1Header), ('nifti2', nifti2.Nifti2Header)):
        vals = {'sizeof_hdr': k.sizeof_hdr, 'hdr_itemsize': k.template_dtype.itemsize,
                'single_vox_offset': k.single_vox_offset, 'pair_vox_offset': k.pair_vox_offset}
        for f, v in vals.items():
            if type(v) is not int or v < 0:
                raise Untranslatable(f'{nm}.{f} is not a natural number: {v!r}')
            L.append(f'def {nm}_{f} : Nat := {v}')
        ft = k.template_dtype.fields['vox_offset'][0]
        if (ft.kind, ft.itemsize) == ('f', 4):
            flag = 'true'
        elif (ft.kind, ft.itemsize) == ('i', 8):
            flag = 'false'
        else:
            raise Untranslatable(f'{nm} vox_offset field is neither float32 nor int64: {ft!r}')
        L.append(f'/-- dtype of the `vox_offset` header field is float32 (else int64): `{ft.str[1:]}` -/')
        L.append(f'def {nm}_vox_offset_is_f32 : Bool := {flag}')
        L.append('')
    rows = []
    rec = nifti1.extension_codes
    for code in sorted(set(rec.value_set())):
        label = rec.label[code]
        if type(code) is not int or not isinstance(label, str) or '"' in label or '\\' in label:
            raise Untranslatable(f'extension code row {code!r} {label!r}')
        rows.append(f'({code}, "{label}")')
    L.append('/-- `nifti1.extension_codes`: (code, label) -/')
    L.append('def extensionCodes : List (Int × String) :=\n  [' + ', '.join(rows) + ']')
    L += ['', '/-! one-line integer rules of the reader / writer (translate_rules) -/', '']
    for name, params, typ, rbody, src in translate_rules():
        if '-/' in src or '/-' in src:
            raise Untranslatable('comment delimiter in source line ' + src)
        L.append(f'/-- Python: `{src}` -/')
        L.append(f'def {name} ' + ' '.join(f'({q} : Int)' for q in params) + f' : {typ} :=\n  {rbody}')
        L.append('')
    L += ['end Nb.Gen.C11', '']
    os.makedirs(os.path.dirname(GEN_PATH), exist_ok=True)
    common.write_if_changed(GEN_PATH, '\n'.join(L))
    return ['Generated.C11.getSizeondisk', 'Generated.C11.header-constants', 'Generated.C11.extensionCodes',
            'Generated.C11.reader-writer-rules'] + regen_state()


# =====================================================================================================
# cases
# =====================================================================================================

def hx(b):
    return bytes(b).hex() if len(b) else '-'


def unhx(s):
    return b'' if s == '-' else bytes.fromhex(s)


def _codes_table():
    from nibabel import nifti1
    rec = nifti1.extension_codes
    return {c: rec.label[c] for c in set(rec.value_set())}


def mk_img(fmt, kind, endian, off, data_hex, exts, dshape=None, ddt='u1', route='fm', stream='img',
           labels=None, hist=None):
    """exts: list of [code:int, contenthex] = the contents at the moment of the (final) save; `labels`: per
    extension True = construct with the label string; `hist`: how the header got there (see _build_hist)."""
    ex = ' '.join(f'{int(c)}:{h}' for c, h in exts)
    line = f'C11 img {fmt} {kind} {"L" if endian == "<" else "B"} {off} {data_hex} {len(exts)}' + (' ' + ex if ex else '')
    nb = len(unhx(data_hex))
    data = {'op': 'img', 'fmt': fmt, 'kind': kind, 'endian': endian, 'off': off, 'data': data_hex,
            'exts': [[int(c), h] for c, h in exts], 'dshape': list(dshape) if dshape else [nb], 'ddt': ddt,
            'route': route, 'stream': stream, 'labels': list(labels) if labels else [False] * len(exts)}
    key = None if (not exts and not off) else (fmt, kind, endian, off, tuple((int(c), h) for c, h in exts))
    if hist:
        data['hist'] = hist
        key = key + (json.dumps(hist, sort_keys=True),) if key else None
    return Case(line, data, key, stream)


def mk_parse(endian, size, raw_hex, stream='parse'):
    line = f'C11 parse {"L" if endian == "<" else "B"} {size} {raw_hex}'
    return Case(line, {'op': 'parse', 'endian': endian, 'size': size, 'raw': raw_hex, 'stream': stream},
                ('parse', endian, size, raw_hex), stream)


def mk_ser(endian, exts, stream='ser'):
    ex = ' '.join(f'{int(c)}:{h}' for c, h in exts)
    line = f'C11 ser {"L" if endian == "<" else "B"} {len(exts)}' + (' ' + ex if ex else '')
    return Case(line, {'op': 'ser', 'endian': endian, 'exts': [[int(c), h] for c, h in exts], 'stream': stream},
                ('ser', endian, tuple((int(c), h) for c, h in exts)) if exts else None, stream)


def mk_size(n):
    return Case(f'C11 size {n}', {'op': 'size', 'n': n, 'stream': 'size'}, ('size', n), 'size')


def mk_voff(fmt, kind, off, lens):
    line = f'C11 voff {fmt} {kind} {off} {len(lens)}' + ''.join(f' {n}' for n in lens)
    return Case(line, {'op': 'voff', 'fmt': fmt, 'kind': kind, 'off': off, 'lens': list(lens), 'stream': 'voff'},
                ('voff', fmt, kind, off, tuple(lens)), 'voff')


def mk_f32(n, nxt=False):
    op = 'f32n' if nxt else 'f32'
    return Case(f'C11 {op} {n}', {'op': op, 'n': n, 'stream': 'f32'}, (op, n), 'f32')


def mk_xst(ops, data_hex='0102030405'):
    """ops: list of token lists (strings / ints), see Driver/C11.lean `parseOp?`"""
    toks = [','.join(str(t) for t in op) for op in ops]
    line = f'C11 xst {"L" if NATIVE == "<" else "B"} {len(toks)}' + ''.join(' ' + t for t in toks)
    return Case(line, {'op': 'xst', 'ops': [list(op) for op in ops], 'data': data_hex, 'stream': 'xst'},
                ('xst', tuple(toks)) if any(op[0] in ('wh', 'wi') for op in ops) else None, 'xst')


def case_from_data(d):
    if d['op'] == 'xst':
        return mk_xst(d['ops'], d.get('data', '0102030405'))
    if d['op'] == 'voff':
        return mk_voff(d['fmt'], d['kind'], d['off'], d['lens'])
    if d['op'] in ('f32', 'f32n'):
        return mk_f32(d['n'], d['op'] == 'f32n')
    if d['op'] == 'img':
        return mk_img(d['fmt'], d['kind'], d['endian'], d['off'], d['data'], d['exts'], d.get('dshape'),
                      d.get('ddt', 'u1'), d.get('route', 'fm'), d.get('stream', 'img'), d.get('labels'),
                      d.get('hist'))
    if d['op'] == 'parse':
        return mk_parse(d['endian'], d['size'], d['raw'], d.get('stream', 'parse'))
    if d['op'] == 'ser':
        return mk_ser(d['endian'], d['exts'], d.get('stream', 'ser'))
    if d['op'] == 'size':
        return mk_size(d['n'])
    raise ValueError(d)


# =====================================================================================================
# implementation side
# =====================================================================================================

VOX_FIELD = {1: (108, 'f', 4), 2: (168, 'q', 8)}       # checked against the dtype in _klasses()


def _klasses(fmt, kind):
    from nibabel import nifti1, nifti2
    k = {(1, 's'): nifti1.Nifti1Image, (1, 'p'): nifti1.Nifti1Pair,
         (2, 's'): nifti2.Nifti2Image, (2, 'p'): nifti2.Nifti2Pair}[(fmt, kind)]
    dt = k.header_class.template_dtype
    o, c, w = VOX_FIELD[fmt]
    assert dt.fields['vox_offset'][1] == o and dt.fields['vox_offset'][0].itemsize == w
    return k, dt.itemsize


def _data_array(d):
    raw = unhx(d['data'])
    dt = np.dtype(d['ddt']).newbyteorder(d['endian'])
    return np.frombuffer(raw, dtype=dt).reshape(d['dshape'], order='F')


def _ext_list(exts):
    return '[' + ','.join(f'{int(c)}:{hx(b)}' for c, b in exts) + ']'


NATIVE = '<' if sys.byteorder == 'little' else '>'


def _mut_ext_class():
    """an extension type with a MUTABLE runtime object (a bytearray), like the CIFTI / DICOM handlers have"""
    from nibabel import nifti1

    class MutExt(nifti1.Nifti1Extension):
        def _unmangle(self, value):
            return bytearray(value)

        def _mangle(self, value):
            return bytes(value)
    return MutExt


def _apply_edit(mode, ext, step):
    """edit the runtime object of `ext` IN PLACE (never touches ext._raw / ext.content)"""
    obj = ext.get_content()
    if mode == 'obj':
        obj[:] = unhx(step['final'])
    elif mode == 'cifti':
        obj.matrix.metadata[step['key']] = step['value']
    elif mode == 'dicom':
        obj.PatientID = step['value']
    else:
        raise ValueError(mode)


def _mangled_now(ext):
    """serialised form of the CURRENT runtime object, computed without going through ext.content / _sync"""
    return bytes(ext._mangle(ext.get_content()))


def _build_hist(d):
    """multi-step history: an image of class/byte order `pre` gets the INITIAL extensions, is (optionally) saved and
    loaded, the runtime objects of some extensions are edited in place, the header moves (optionally) to another
    image class, and only then comes the save that the case observes.  d['exts'] are the contents at that moment."""
    from nibabel import nifti1
    from nibabel.cifti2.parse_cifti2 import Cifti2Extension
    h = d['hist']
    mode, pre, steps = h['mode'], h['pre'], h['steps']
    klass, hsz = _klasses(d['fmt'], d['kind'])
    kA, _ = _klasses(pre['fmt'], pre['kind'])
    arr = _data_array(d)
    hdrA = kA.header_class(endianness=pre['endian'])
    hdrA.set_data_dtype(arr.dtype)
    aff = np.diag([2.0, 3.0, 4.0, 1.0])
    imgA = kA(arr, aff, hdrA)
    MutExt = _mut_ext_class()
    late = [bool(st is not None and st.get('append')) for st in steps]
    for (code, fin), step in zip(d['exts'], steps):
        if step is not None and step.get('append'):
            continue                                  # appended after the first load, see below
        if step is None:
            ext = nifti1.Nifti1Extension(code, unhx(fin))
        else:
            init = unhx(step['init'])
            if mode == 'obj':
                ext = MutExt(code, init)
            elif mode == 'cifti':
                ext = Cifti2Extension(code, init)
            else:
                ext = nifti1.Nifti1DicomExtension(code, init)
        imgA.header.extensions.append(ext)
    if h['load']:
        fm = kA.make_file_map()
        for k in fm:
            fm[k].fileobj = io.BytesIO()
        imgA.to_file_map(fm)
        for k in fm:
            fm[k].fileobj.seek(0)
        imgB = kA.from_file_map(fm)
    else:
        imgB = imgA
    if len(imgB.header.extensions) != len(steps) - sum(late):
        raise RuntimeError('harness: first stage lost extensions')
    for i, ((code, fin), step) in enumerate(zip(d['exts'], steps)):
        if late[i]:
            imgB.header.extensions.insert(i, nifti1.Nifti1Extension(code, unhx(fin)))
    for ext, step in zip(imgB.header.extensions, steps):
        if step is not None and not step.get('append'):
            if h.get('touch'):
                ext.get_sizeondisk()                 # an earlier size query must not be remembered
            _apply_edit(mode, ext, step)
    for ext, (code, fin), step in zip(imgB.header.extensions, d['exts'], steps):
        if step is not None and not step.get('append') and _mangled_now(ext) != unhx(fin):
            raise RuntimeError('harness: edited object does not serialise to the recorded final content')
    if klass is kA and not h['load']:
        img = imgB
    else:
        img = klass(arr, aff, header=imgB.header)
    if img.header.endianness != d['endian']:
        raise RuntimeError('harness: final header endianness differs from the case')
    if d['off']:
        img.header['vox_offset'] = d['off']
    return klass, hsz, img, arr


def _build(d):
    from nibabel import nifti1
    if d.get('hist'):
        return _build_hist(d)
    klass, hsz = _klasses(d['fmt'], d['kind'])
    arr = _data_array(d)
    hdr = klass.header_class(endianness=d['endian'])
    hdr.set_data_dtype(arr.dtype)
    img = klass(arr, np.diag([2.0, 3.0, 4.0, 1.0]), hdr)
    table = _codes_table()
    for (code, h), lab in zip(d['exts'], d['labels']):
        c = table[code] if (lab and code in table) else code
        img.header.extensions.append(nifti1.Nifti1Extension(c, unhx(h)))
    if d['off']:
        img.header['vox_offset'] = d['off']
    return klass, hsz, img, arr


def _roundtrip(d):
    """returns (raw files dict, loaded image) using the requested route"""
    klass, hsz, img, arr = _build(d)
    route = d.get('route', 'fm')
    if route == 'bytes' and d['kind'] == 's':
        raw = img.to_bytes()
        return klass, hsz, {'image': raw}, (lambda: klass.from_bytes(raw)), None
    if route == 'disk':
        import nibabel as nib
        tmp = tempfile.TemporaryDirectory()
        fn = os.path.join(tmp.name, 'x.nii' if d['kind'] == 's' else 'x.img')
        img.to_filename(fn)
        raws = {}
        if d['kind'] == 's':
            raws['image'] = open(fn, 'rb').read()
        else:
            raws['image'] = open(fn, 'rb').read()
            raws['header'] = open(fn[:-4] + '.hdr', 'rb').read()
        return klass, hsz, raws, (lambda: nib.load(fn)), tmp
    fm = klass.make_file_map()
    for k in fm:
        fm[k].fileobj = io.BytesIO()
    img.to_file_map(fm)
    raws = {k: fm[k].fileobj.getvalue() for k in fm}

    def load():
        fm2 = klass.make_file_map()
        for k in fm2:
            fm2[k].fileobj = io.BytesIO(raws[k])
        return klass.from_file_map(fm2)
    return klass, hsz, raws, load, None


def _err(e):
    from nibabel.spatialimages import HeaderDataError
    if isinstance(e, HeaderDataError):
        return 'ERR:HeaderDataError'
    if isinstance(e, OverflowError):
        return 'ERR:OverflowError'
    return errname(e)


def impl_img(case):
    d = case.data
    case.extra = {}
    tmp = None
    try:
        try:
            klass, hsz, raws, load, tmp = _roundtrip(d)
        except Exception as e:
            case.extra['write_err'] = e
            return _err(e)
        hraw = raws['header'] if d['kind'] == 'p' else raws['image']
        o, c, w = VOX_FIELD[d['fmt']]
        vox = struct.unpack(d['endian'] + c, hraw[o:o + w])[0]
        if vox != int(vox):
            return 'ERR:nonintegral-vox-offset'
        vox = int(vox)
        case.extra.update(raws=raws, hsz=hsz, vox=vox)
        out = f'W off={vox} hdr={hx(hraw[hsz:])} img={hx(raws["image"]) if d["kind"] == "p" else "-"}'
        try:
            limg = load()
            exts = [(int(e.get_code()), bytes(e.content)) for e in limg.header.extensions]
            off = int(limg.dataobj.offset)
            got = np.asanyarray(limg.dataobj.get_unscaled())
            case.extra.update(lexts=exts, loff=off, ldata=got, lendian=limg.header.endianness)
            gb = np.asarray(got).astype(np.dtype(d['ddt']).newbyteorder(d['endian'])).tobytes(order='F')
            if tuple(got.shape) != tuple(d['dshape']):
                return out + ' R ERR:shape'
            out += f' R exts={_ext_list(exts)} off={off} data={hx(gb)}'
        except Exception as e:
            case.extra['read_err'] = e
            out += ' R ' + _err(e)
        return out
    finally:
        if tmp is not None:
            tmp.cleanup()


def impl_parse(case):
    from nibabel import nifti1
    d = case.data
    raw = unhx(d['raw'])
    byteswap = (d['endian'] == '<') != (sys.byteorder == 'little')
    try:
        exts = nifti1.Nifti1Extensions.from_fileobj(io.BytesIO(raw), d['size'], byteswap)
    except Exception as e:
        return _err(e)
    return 'ok ' + _ext_list([(int(e.get_code()), bytes(e.content)) for e in exts])


def impl_ser(case):
    from nibabel import nifti1
    d = case.data
    byteswap = (d['endian'] == '<') != (sys.byteorder == 'little')
    try:
        exts = nifti1.Nifti1Extensions(nifti1.Nifti1Extension(c, unhx(h)) for c, h in d['exts'])
        total = exts.get_sizeondisk()
        f = io.BytesIO()
        exts.write_to(f, byteswap)
    except Exception as e:
        return _err(e)
    return f'ok {int(total)} {hx(f.getvalue())}'


class _LenOnly:
    """stands for `n` content bytes without allocating them (only `len()` is ever taken)"""

    def __init__(self, n):
        self.n = n

    def __len__(self):
        return self.n


class _CountingIO:
    """write-only file object that keeps the first 1024 bytes and counts the rest"""

    def __init__(self):
        self.pos = 0
        self.head = b''

    def tell(self):
        return self.pos

    def write(self, b):
        if len(self.head) < 1024 and isinstance(b, (bytes, bytearray, memoryview, np.ndarray)):
            self.head += bytes(b)[:1024 - len(self.head)]
        self.pos += len(b)
        return len(b)


def impl_voff(case):
    """the REAL Nifti1Header.write_to / Nifti1Extensions / NiftiExtension.get_sizeondisk + write_to on extensions
    whose content is a length-only stand-in: offsets far above 2^28 without the bytes"""
    from nibabel import nifti1
    d = case.data
    klass, hsz = _klasses(d['fmt'], d['kind'])
    hdr = klass.header_class()
    for n in d['lens']:
        ext = nifti1.Nifti1Extension(6, b'')
        ext._raw = _LenOnly(n)
        hdr.extensions.append(ext)
    if d['off']:
        hdr['vox_offset'] = d['off']
    f = _CountingIO()
    try:
        hdr.write_to(f)
    except Exception as e:
        return _err(e)
    o, c, w = VOX_FIELD[d['fmt']]
    vox = struct.unpack(hdr.endianness + c, f.head[o:o + w])[0]
    if vox != int(vox):
        return 'ERR:nonintegral-vox-offset'
    if int(vox) != int(hdr.get_data_offset()):
        return 'ERR:get_data_offset-differs-from-field'
    return f'ok {int(vox)} {f.pos}'


# ---- xst: histories over extension objects and headers ------------------------------------------------------------

_CODEC_CLASSES = None


def _codec_classes():
    """extension classes with a MUTABLE runtime object and three different codecs (driver: `codec?`)"""
    global _CODEC_CLASSES
    from nibabel import nifti1
    if _CODEC_CLASSES is None or _CODEC_CLASSES[0].__mro__[1] is not nifti1.Nifti1Extension:
        class IdExt(nifti1.Nifti1Extension):
            def _unmangle(self, value):
                return bytearray(value)

            def _mangle(self, value):
                return bytes(value)

        class RevExt(nifti1.Nifti1Extension):
            def _unmangle(self, value):
                return bytearray(bytes(value)[::-1])

            def _mangle(self, value):
                return bytes(value)[::-1]

        class NormExt(nifti1.Nifti1Extension):
            def _unmangle(self, value):
                return bytearray(b for b in bytes(value) if b != 32)

            def _mangle(self, value):
                return bytes(value) + b'\n'
        _CODEC_CLASSES = (IdExt, RevExt, NormExt)
    return _CODEC_CLASSES


XST_CLASSES = {'Nifti1Header': (1, 's'), 'Nifti1PairHeader': (1, 'p'), 'Nifti2Header': (2, 's'),
               'Nifti2PairHeader': (2, 'p')}


def impl_xst(case):
    from nibabel import nifti1
    d = case.data
    data = unhx(d['data'])
    arr = np.frombuffer(data, dtype=np.uint8)
    aff = np.diag([2.0, 3.0, 4.0, 1.0])
    hdrs, imgs, outs = [], {}, []
    codecs = _codec_classes()
    for op in d['ops']:
        k = op[0]
        try:
            if k == 'nh':
                klass, _ = _klasses(*XST_CLASSES[op[1]])
                hdrs.append(klass.header_class(endianness={'L': '<', 'B': '>'}[op[2]]))
                hdrs[-1].set_data_dtype(np.uint8)
                o = 'ok'
            elif k == 'nr':
                hdrs[op[1]].extensions.insert(op[2], codecs[op[3]](int(op[4]), unhx(op[5])))
                o = 'ok'
            elif k == 'no':
                hdrs[op[1]].extensions.insert(op[2], codecs[op[3]](int(op[4]), object=bytearray(unhx(op[5]))))
                o = 'ok'
            elif k == 'go':
                o = 'o=' + hx(bytes(hdrs[op[1]].extensions[op[2]].get_content()))
            elif k == 'ed':
                hdrs[op[1]].extensions[op[2]].get_content()[:] = unhx(op[3])
                o = 'ok'
            elif k == 'ea':
                hdrs[op[1]].extensions[op[2]].get_content().extend(unhx(op[3]))
                o = 'ok'
            elif k == 'ct':
                o = 'b=' + hx(bytes(hdrs[op[1]].extensions[op[2]].content))
            elif k == 'sz':
                o = 'n=%d' % int(hdrs[op[1]].extensions[op[2]].get_sizeondisk())
            elif k == 'tt':
                o = 'n=%d' % int(hdrs[op[1]].extensions.get_sizeondisk())
            elif k == 'dl':
                del hdrs[op[1]].extensions[op[2]]
                o = 'ok'
            elif k == 'sh':
                hdrs[op[3]].extensions.insert(op[4], hdrs[op[1]].extensions[op[2]])
                o = 'ok'
            elif k == 'cp':
                hdrs.append(hdrs[op[1]].copy())
                o = 'ok'
            elif k == 'bs':
                hdrs.append(hdrs[op[1]].as_byteswapped({'N': None, 'L': '<', 'B': '>'}[op[2]]))
                o = 'ok'
            elif k == 'fh':
                klass, _ = _klasses(*XST_CLASSES[op[2]])
                hdrs.append(klass.header_class.from_header(hdrs[op[1]]))
                o = 'ok'
            elif k == 'im':
                klass, _ = _klasses(*XST_CLASSES[op[2]])
                img = klass(arr, aff, header=hdrs[op[1]])
                imgs[len(hdrs)] = (img, klass)
                hdrs.append(img.header)
                o = 'ok'
            elif k == 'so':
                hdrs[op[1]]['vox_offset'] = op[2]
                o = 'ok'
            elif k == 'wh':
                h = hdrs[op[1]]
                fmt = 1 if h.sizeof_hdr == 348 else 2
                f = io.BytesIO()
                h.write_to(f)
                raw = f.getvalue()
                fo, c, w = VOX_FIELD[fmt]
                vox = struct.unpack(h.endianness + c, raw[fo:fo + w])[0]
                o = f'H off={int(vox)} hdr={hx(raw[h.template_dtype.itemsize:])}' if vox == int(vox) else 'ERR:nonintegral-vox-offset'
            elif k == 'wi':
                img, klass = imgs[op[1]]
                h = img.header
                fmt = 1 if h.sizeof_hdr == 348 else 2
                fm = klass.make_file_map()
                for kk in fm:
                    fm[kk].fileobj = io.BytesIO()
                img.to_file_map(fm)
                raws = {kk: fm[kk].fileobj.getvalue() for kk in fm}
                pair = 'header' in raws and raws['header'] is not raws['image'] and not h.is_single
                hraw = raws['header'] if pair else raws['image']
                fo, c, w = VOX_FIELD[fmt]
                vox = struct.unpack(h.endianness + c, hraw[fo:fo + w])[0]
                hsz = h.template_dtype.itemsize
                o = f'W off={int(vox)} hdr={hx(hraw[hsz:])} img={hx(raws["image"]) if pair else "-"}'
                try:
                    fm2 = klass.make_file_map()
                    for kk in fm2:
                        fm2[kk].fileobj = io.BytesIO(raws[kk])
                    limg = klass.from_file_map(fm2)
                    exts = [(int(e.get_code()), bytes(e.content)) for e in limg.header.extensions]
                    got = np.asanyarray(limg.dataobj.get_unscaled())
                    o += f' R exts={_ext_list(exts)} off={int(limg.dataobj.offset)} data={hx(got.astype(np.uint8).tobytes())}'
                except Exception as e:
                    o += ' R ' + _err(e)
            else:
                raise ValueError(op)
        except (IndexError, KeyError, ValueError, TypeError, AttributeError):
            raise
        except Exception as e:
            o = _err(e)
        outs.append(o)
    return ' | '.join(outs)


def impl(case):
    d = case.data
    if d['op'] == 'xst':
        return impl_xst(case)
    if d['op'] == 'voff':
        return impl_voff(case)
    if d['op'] == 'f32':
        return str(int(np.float32(d['n'])))
    if d['op'] == 'f32n':
        return str(int(np.nextafter(np.float32(d['n']), np.float32(np.inf))))
    if d['op'] == 'img':
        return impl_img(case)
    if d['op'] == 'parse':
        return impl_parse(case)
    if d['op'] == 'ser':
        return impl_ser(case)
    if d['op'] == 'size':
        from nibabel import nifti1
        return str(int(nifti1.Nifti1Extension(6, bytes(d['n'])).get_sizeondisk()))
    raise ValueError(d)


# =====================================================================================================
# oracle — the property on the real code, with an independent byte-level decoder
# =====================================================================================================

HDR_SIZE = {1: 348, 2: 540}          # NIfTI-1 / NIfTI-2 standards (independent of nibabel's constants)


def need_size(n):
    """bytes an extension with n content bytes occupies per the NIfTI standard: 8 + n rounded up to 16"""
    return -(-(8 + n) // 16) * 16


def walk_extensions(raw, start, stop, endian):
    """independent decoder of the extension region raw[start:stop]; returns (list of (esize, code, body), end, problem)"""
    pos, out = start, []
    while pos + 8 <= stop:
        esize, code = struct.unpack(endian + 'ii', raw[pos:pos + 8])
        if esize == 0:
            break
        if esize < 16 or esize % 16 or pos + esize > stop:
            return out, pos, f'bad esize {esize} at byte {pos}'
        out.append((esize, code, raw[pos + 8:pos + esize]))
        pos += esize
    return out, pos, None


def oracle_img(case, out):
    d = case.data
    ex = case.extra or {}
    fmt, kind, endian, off = d['fmt'], d['kind'], d['endian'], d['off']
    want = [(int(c), unhx(h)) for c, h in d['exts']]
    hsz = HDR_SIZE[fmt]
    needed = hsz + 4 + sum(need_size(len(b)) for _, b in want)
    in_range = all(-2 ** 31 <= c < 2 ** 31 for c, _ in want)
    desc = f'fmt=NIfTI-{fmt} kind={kind} endian={endian} user_offset={off} exts={[(c, len(b)) for c, b in want]}'
    if not in_range:
        # an extension code that does not fit the int32 ecode field cannot be stored: must be refused
        if out.startswith('W '):
            return f'extension code outside int32 was written: {desc}'
        return None
    if kind == 's' and off and off < needed:
        if out != 'ERR:HeaderDataError':
            return (f'explicit vox_offset {off} leaves no room for header+extender+extensions ({needed} bytes) but '
                    f'saving did not raise HeaderDataError: got {out[:80]}; {desc}')
        return None
    if not out.startswith('W '):
        return f'saving failed ({out[:60]}) for a valid image: {desc}'
    if ' R ERR' in out:
        return f'saved file cannot be loaded ({out[out.index(" R ") + 3:][:60]}): {desc}'
    raws, vox = ex['raws'], ex['vox']
    hraw = raws['header'] if kind == 'p' else raws['image']
    # ---- raw layout (independent decoder)
    if kind == 's':
        if off == 0 and vox % 16:
            return f'library-chosen vox_offset {vox} is not a multiple of 16: {desc}'
        if off and vox != off:
            return f'explicit vox_offset {off} not honoured (header says {vox}): {desc}'
        if vox < needed:
            return f'vox_offset {vox} < header+extender+extensions = {needed}: data overlap the extensions: {desc}'
        stop = vox
    else:
        if vox != off:
            return f'pair vox_offset {vox} != requested {off}: {desc}'
        stop = len(hraw)
    extender = hraw[hsz:hsz + 4]
    if want or kind == 's':
        if len(extender) != 4 or (extender[0] != 0) != bool(want):
            return f'extender bytes {extender!r} wrong for {len(want)} extensions: {desc}'
    recs, end, prob = walk_extensions(hraw, hsz + 4, stop, endian) if want else ([], hsz + 4, None)
    if prob:
        return f'extension region malformed ({prob}): {desc}'
    if [(c, b[:len(w)]) for (_, c, b), (_, w) in zip(recs, want)] != want or len(recs) != len(want):
        return f'extension records on disk {[(c, b) for _, c, b in recs]} differ from those saved {want}: {desc}'
    for (esize, _, b), (_, w) in zip(recs, want):
        # any multiple of 16 that holds header + content is a valid record; the padding must be NULs
        if esize < 8 + len(w) or esize % 16 or any(b[len(w):]):
            return f'extension of {len(w)} bytes stored with esize {esize} / non-zero padding: {desc}'
    if any(hraw[end:stop]):
        return f'non-zero bytes between the last extension and the data: {desc}'
    # ---- data region on disk is exactly the array bytes, at the offset
    dbytes = unhx(d['data'])
    img_raw = raws['image']
    if img_raw[vox:vox + len(dbytes)] != dbytes or len(img_raw) != vox + len(dbytes):
        return f'data region at {vox} differs from the array bytes (file length {len(img_raw)}): {desc}'
    # ---- what is loaded
    strip = [(c, b.rstrip(b'\x00')) for c, b in want]
    if ex['lexts'] != strip:
        return f'extensions loaded {ex["lexts"]} != saved (up to trailing NULs) {strip}: {desc}'
    if ex['loff'] != vox:
        return f'dataobj.offset {ex["loff"]} != vox_offset on disk {vox}: {desc}'
    if not np.array_equal(np.asarray(ex['ldata']), _data_array(d)) or ex['ldata'].shape != tuple(d['dshape']):
        return f'voxel data read back differ in the presence of extensions: {desc}'
    if ex['lendian'] != endian:
        return f'endianness {ex["lendian"]} != {endian}: {desc}'
    return None


def oracle_parse(case, out):
    """reader safety on arbitrary bytes: whatever is returned is what an independent decoder finds, and every
    well-formed stream (multiple-of-16 records that fit) is accepted"""
    d = case.data
    raw, size, endian = unhx(d['raw']), d['size'], d['endian']
    stop = len(raw) if size < 0 else min(len(raw), size)
    recs, end, prob = walk_extensions(raw, 0, stop, endian)
    if prob is None and (size < 0 or size <= len(raw)) and (end == stop or raw[end:end + 8] == bytes(8)
                                                             or stop - end < 16):
        if size < 0 and end != stop and raw[end:end + 8] != bytes(8):
            return None                                     # trailing junk shorter than a record header: may be refused
        exp = 'ok ' + _ext_list([(c, b.rstrip(b'\x00')) for _, c, b in recs])
        if out != exp:
            return f'well-formed extension stream parsed as {out[:100]} instead of {exp[:100]} (size={size}, endian={endian})'
    return None


def oracle_ser(case, out):
    d = case.data
    want = [(int(c), unhx(h)) for c, h in d['exts']]
    if not all(-2 ** 31 <= c < 2 ** 31 for c, _ in want):
        return None if out.startswith('ERR') else 'code outside int32 serialised'
    if not out.startswith('ok '):
        return f'serialising valid extensions failed: {out[:80]}'
    _, total, h = out.split(' ')
    raw = unhx(h)
    recs, end, prob = walk_extensions(raw, 0, len(raw), d['endian'])
    if prob or end != len(raw) or int(total) != len(raw) or len(recs) != len(want):
        return f'serialised extensions are not a sequence of {len(want)} NIfTI records filling {total} bytes: {prob}'
    for (esize, c, b), (wc, w) in zip(recs, want):
        if c != wc or b[:len(w)] != w or any(b[len(w):]) or esize < 8 + len(w):
            return f'record ({c}, {b!r}, esize {esize}) does not hold ({wc}, {w!r}) with NUL padding'
    return None


def _representable(fmt, n):
    """can the vox_offset field of the format hold the integer n exactly? (independent: struct, not NumPy)"""
    if fmt == 2:
        return -2 ** 63 <= n < 2 ** 63
    try:
        return struct.unpack('<f', struct.pack('<f', n))[0] == n
    except OverflowError:
        return False


def oracle_voff(case, out):
    """the offset clauses of the property on sizes alone: a single file's offset leaves room for header, extender
    and all extensions, is a multiple of 16 when the library chooses it, an explicit offset that is too small
    is refused and one that is large enough (and storable) is honoured"""
    d = case.data
    fmt, kind, off, lens = d['fmt'], d['kind'], d['off'], d['lens']
    hsz = HDR_SIZE[fmt]
    if any(need_size(n) >= 2 ** 31 for n in lens):
        return None if out.startswith('ERR') else f'esize outside int32 written: {lens}'
    needed = hsz + 4 + sum(need_size(n) for n in lens)
    desc = f'fmt=NIfTI-{fmt} kind={kind} user_offset={off} content lengths={lens}'
    if kind == 'p':
        if not out.startswith('ok '):
            return f'writing a pair header failed ({out}): {desc}'
        _, vox, pos = out.split()
        if int(pos) != (needed if lens else hsz):
            return f'header file ends at {pos}, expected {needed if lens else hsz}: {desc}'
        if _representable(fmt, off) and int(vox) != off:
            return f'pair vox_offset {vox} != requested {off}: {desc}'
        return None
    if off and _representable(fmt, off) and off < needed:
        if out != 'ERR:HeaderDataError':
            return (f'explicit vox_offset {off} leaves no room for header+extender+extensions ({needed} bytes) but '
                    f'writing did not raise HeaderDataError: got {out}; {desc}')
        return None
    if out == 'ERR:HeaderDataError' and off and not _representable(fmt, off):
        return None        # a request the field cannot hold may be refused; what matters is: never an overlap
    if not out.startswith('ok '):
        return f'writing the header failed ({out}) for a valid request: {desc}'
    _, vox, pos = out.split()
    vox, pos = int(vox), int(pos)
    if pos != needed:
        return f'extensions end at byte {pos}, expected {needed}: {desc}'
    if vox < needed:
        return (f'vox_offset {vox} < header+extender+extensions = {needed}: the data would start inside the '
                f'extensions: {desc}')
    if off == 0 and vox % 16:
        return f'library-chosen vox_offset {vox} is not a multiple of 16: {desc}'
    if off and _representable(fmt, off) and vox != off:
        return f'explicit vox_offset {off} not honoured (header says {vox}): {desc}'
    if off == 0 and _representable(fmt, needed) and vox != needed:
        return f'library-chosen vox_offset {vox} != minimum {needed} although the field can hold it: {desc}'
    return None


def oracle_f32(case, out):
    """float32 rounding / successor against exact rational arithmetic (fractions), independent of NumPy"""
    from fractions import Fraction
    d = case.data
    n = d['n']
    if n < 2 ** 24:
        exp = n if d['op'] == 'f32' else None
    else:
        k = n.bit_length() - 24
        q, r = divmod(n, 2 ** k)
        if d['op'] == 'f32':
            up = Fraction(r, 2 ** k) > Fraction(1, 2) or (2 * r == 2 ** k and q % 2 == 1)
            exp = (q + 1 if up else q) * 2 ** k
        else:
            exp = n + 2 ** k if r == 0 else None
    if exp is not None and out != str(exp):
        return f'{d["op"]}({n}) = {out}, IEEE float32 gives {exp}'
    return None


class XRef:
    """Reference semantics of a history, at the level the property speaks about: every extension has ONE current
    value (the bytes it was given, or the runtime object it was given / that was last produced from it and edited);
    what it shows is that value serialised; sizes, offsets and the bytes saved are those of the NIfTI layout
    (`need_size`, `ser_bytes`) for the values shown at the moment of the save.  No cached serialisation exists here.
    Also used by the generator to keep indices valid."""

    MANGLE = (bytes, lambda o: bytes(o)[::-1], lambda o: bytes(o) + b'\n')
    UNMANGLE = (bytes, lambda b: bytes(b)[::-1], lambda b: bytes(x for x in b if x != 32))
    PROPERTY_OPS = ('ct', 'sz', 'tt', 'wh', 'wi')

    def __init__(self, data=b'\x01\x02\x03\x04\x05'):
        self.cells, self.hdrs, self.data = [], [], data

    def shown(self, r):
        c = self.cells[r]
        return c['val'] if c['kind'] == 'raw' else self.MANGLE[c['codec']](c['val'])

    def to_obj(self, r):
        c = self.cells[r]
        if c['kind'] == 'raw':
            c['kind'], c['val'] = 'obj', self.UNMANGLE[c['codec']](c['val'])
        return c['val']

    def exts(self, h):
        return [(self.cells[r]['code'], self.shown(r)) for r in self.hdrs[h]['refs']]

    def needed(self, h):
        return HDR_SIZE[self.hdrs[h]['fmt']] + 4 + sum(need_size(len(b)) for _, b in self.exts(h))

    def convert(self, h, cls):
        src = self.hdrs[h]
        fmt, kind = XST_CLASSES[cls]
        if kind == 's' and 0 < src['off'] < {1: 352, 2: 544}[fmt]:
            return None
        same = src['cls'] == cls
        return {'cls': cls, 'fmt': fmt, 'kind': kind, 'endian': src['endian'] if same else NATIVE,
                'off': src['off'], 'refs': list(src['refs']), 'img': False}

    def layout(self, h):
        """(vox_offset, bytes after the header block of the header file) or None when the save must be refused"""
        hd = self.hdrs[h]
        exts = self.exts(h)
        recs = ser_bytes(hd['endian'], exts)
        if hd['kind'] == 's':
            need = self.needed(h)
            if hd['off'] and hd['off'] < need:
                return None
            vox = hd['off'] or need
            return vox, (b'\x01\0\0\0' if exts else bytes(4)) + recs + bytes(vox - need)
        return hd['off'], (b'\x01\0\0\0' + recs if exts else b'')

    def apply(self, op):
        k = op[0]
        if k == 'nh':
            fmt, kind = XST_CLASSES[op[1]]
            self.hdrs.append({'cls': op[1], 'fmt': fmt, 'kind': kind, 'endian': {'L': '<', 'B': '>'}[op[2]], 'off': 0,
                              'refs': [], 'img': False})
            return 'ok'
        if k in ('nr', 'no'):
            self.cells.append({'codec': op[3], 'code': int(op[4]), 'kind': 'raw' if k == 'nr' else 'obj',
                               'val': unhx(op[5])})
            self.hdrs[op[1]]['refs'].insert(op[2], len(self.cells) - 1)
            return 'ok'
        if k in ('go', 'ed', 'ea', 'ct', 'sz'):
            r = self.hdrs[op[1]]['refs'][op[2]]
            if k == 'go':
                return 'o=' + hx(self.to_obj(r))
            if k == 'ed':
                self.to_obj(r)
                self.cells[r]['val'] = unhx(op[3])
                return 'ok'
            if k == 'ea':
                self.cells[r]['val'] = bytes(self.to_obj(r)) + unhx(op[3])
                return 'ok'
            if k == 'ct':
                return 'b=' + hx(self.shown(r))
            return 'n=%d' % need_size(len(self.shown(r)))
        if k == 'tt':
            return 'n=%d' % sum(need_size(len(b)) for _, b in self.exts(op[1]))
        if k == 'dl':
            del self.hdrs[op[1]]['refs'][op[2]]
            return 'ok'
        if k == 'sh':
            self.hdrs[op[3]]['refs'].insert(op[4], self.hdrs[op[1]]['refs'][op[2]])
            return 'ok'
        if k == 'cp':
            self.hdrs.append(dict(self.hdrs[op[1]], refs=list(self.hdrs[op[1]]['refs']), img=False))
            return 'ok'
        if k == 'bs':
            src = self.hdrs[op[1]]
            other = '>' if NATIVE == '<' else '<'
            tgt = {'L': '<', 'B': '>'}.get(op[2]) or (other if src['endian'] == NATIVE else NATIVE)
            self.hdrs.append(dict(src, endian=tgt, refs=list(src['refs']), img=False))
            return 'ok'
        if k in ('fh', 'im'):
            n = self.convert(op[1], op[2])
            if n is None:
                return 'ERR:HeaderDataError'
            if k == 'im':
                n['off'], n['img'] = 0, True
            self.hdrs.append(n)
            return 'ok'
        if k == 'so':
            self.hdrs[op[1]]['off'] = op[2]
            return 'ok'
        if k == 'wh':
            lay = self.layout(op[1])
            if lay is None:
                return 'ERR:HeaderDataError'
            hd = self.hdrs[op[1]]
            if hd['kind'] == 's':
                hd['off'] = lay[0]                  # header.write_to leaves the offset it chose in the field
                return f'H off={lay[0]} hdr={hx(lay[1][:4 + sum(need_size(len(b)) for _, b in self.exts(op[1]))])}'
            return f'H off={lay[0]} hdr={hx(lay[1])}'
        if k == 'wi':
            lay = self.layout(op[1])
            if lay is None:
                return 'ERR:HeaderDataError'
            hd = self.hdrs[op[1]]
            data = unhx(op[2])
            strip = [(c, b.rstrip(b'\x00')) for c, b in self.exts(op[1])]
            rd = f' R exts={_ext_list(strip)} off={lay[0]} data={hx(data)}'
            if hd['kind'] == 's':
                return f'W off={lay[0]} hdr={hx(lay[1] + data)} img=-' + rd
            return f'W off={lay[0]} hdr={hx(lay[1])} img={hx(bytes(lay[0]) + data)}' + rd
        raise ValueError(op)


def oracle_xst(case, out):
    """every content / size / save observation of the history is the one of the reference semantics: an extension
    shows (and a save writes, with room for it before the data) the value it has AT THAT MOMENT, whatever was
    read, edited, copied or converted before"""
    d = case.data
    got = out.split(' | ')
    if len(got) != len(d['ops']):
        return None if out.startswith('ERR') and len(got) == 1 else f'history produced {len(got)} observations for {len(d["ops"])} operations'
    ref = XRef(unhx(d['data']))
    for i, (op, g) in enumerate(zip(d['ops'], got)):
        exp = ref.apply(op)
        if g == exp:
            continue
        if op[0] in XRef.PROPERTY_OPS:
            what = {'ct': 'content shown', 'sz': 'size on disk', 'tt': 'total size on disk',
                    'wh': 'header + extensions written', 'wi': 'image saved / loaded back'}[op[0]]
            return (f'step {i} ({",".join(map(str, op))}): {what} is {g[:160]} but the current values of the extensions '
                    f'give {exp[:160]}; history: {" ".join(",".join(map(str, o)) for o in d["ops"][:i + 1])}')
        return None          # the history itself went differently (not a statement of the property): correspondence
    return None


def oracle(case, out):
    d = case.data
    if d['op'] == 'xst':
        return oracle_xst(case, out)
    if d['op'] == 'voff':
        return oracle_voff(case, out)
    if d['op'] in ('f32', 'f32n'):
        return oracle_f32(case, out)
    if d['op'] == 'img':
        return oracle_img(case, out)
    if d['op'] == 'parse':
        return oracle_parse(case, out)
    if d['op'] == 'ser':
        return oracle_ser(case, out)
    if d['op'] == 'size':
        n = d['n']
        if out != str(need_size(n)):
            return f'get_sizeondisk({n} content bytes) = {out}, NIfTI layout needs {need_size(n)}'
        return None
    return None


def signature(case, what):
    d = case.data
    if d['op'] == 'xst':
        kinds = sorted({op[0] for op in d['ops']} & {'ed', 'ea', 'go', 'cp', 'bs', 'fh', 'im', 'sh', 'wh', 'wi', 'so', 'no'})
        return 'niftiext:history+' + '+'.join(kinds)
    if d['op'] == 'voff':
        need = HDR_SIZE[d['fmt']] + 4 + sum(need_size(n) for n in d['lens'])
        return ('niftiext:voff+' + ('single' if d['kind'] == 's' else 'pair') + '+nifti%d' % d['fmt'] +
                ('+auto-offset' if d['off'] == 0 else '+explicit-offset') + ('+big' if need >= 2 ** 28 else '+small'))
    if d['op'] != 'img':
        return 'ext:' + d['op']
    parts = ['single' if d['kind'] == 's' else 'pair']
    parts.append('noext' if not d['exts'] else 'ext')
    if d['off'] == 0:
        parts.append('auto-offset')
    else:
        need = HDR_SIZE[d['fmt']] + 4 + sum(need_size(len(unhx(h))) for _, h in d['exts'])
        parts.append('offset-too-small' if d['off'] < need else
                     ('offset-min' if d['off'] == need else
                      ('offset-gap16' if (d['off'] - need) >= 16 else 'offset-gap-small')))
    return 'niftiext:' + '+'.join(parts)


def _xst_valid(ops):
    """a history is usable when every index it mentions exists at that point of the reference run"""
    ref = XRef()
    try:
        for op in ops:
            k = op[0]
            if k in ('nr', 'no') and not 0 <= op[2] <= len(ref.hdrs[op[1]]['refs']):
                return False
            if k in ('go', 'ed', 'ea', 'ct', 'sz', 'dl') and not 0 <= op[2] < len(ref.hdrs[op[1]]['refs']):
                return False
            if k == 'sh' and not (0 <= op[2] < len(ref.hdrs[op[1]]['refs']) and 0 <= op[4] <= len(ref.hdrs[op[3]]['refs'])):
                return False
            if k == 'wi' and not ref.hdrs[op[1]]['img']:
                return False
            if k != 'nh' and not 0 <= op[1] < len(ref.hdrs):
                return False
            ref.apply(op)
    except (IndexError, KeyError):
        return False
    return True


def shrink_candidates(case):
    d = case.data
    if d['op'] == 'xst':
        ops = d['ops']
        for i in range(len(ops) - 1, -1, -1):
            cand = ops[:i] + ops[i + 1:]
            if cand and _xst_valid(cand):
                yield mk_xst(cand, d['data'])
        for i, op in enumerate(ops):
            if op[0] in ('nr', 'no', 'ed', 'ea') and len(unhx(op[-1])) > 1:
                b = unhx(op[-1])
                for nb in (b[:len(b) // 2], b[:-1]):
                    cand = ops[:i] + [op[:-1] + [hx(nb)]] + ops[i + 1:]
                    if _xst_valid(cand):
                        yield mk_xst(cand, d['data'])
        return
    if d['op'] != 'img':
        return
    if d.get('hist'):
        h = d['hist']
        for i in range(len(d['exts'])):
            if len(d['exts']) > 1 and any(st is not None for j, st in enumerate(h['steps']) if j != i):
                dd = dict(d)
                dd['exts'] = d['exts'][:i] + d['exts'][i + 1:]
                dd['labels'] = [False] * len(dd['exts'])
                dd['hist'] = dict(h, steps=h['steps'][:i] + h['steps'][i + 1:])
                if dd['off'] and dd['kind'] == 's':
                    dd['off'] = 0
                yield case_from_data(dd)
        if len(unhx(d['data'])) > 1 or d.get('ddt', 'u1') != 'u1':
            dd = dict(d)
            dd.update(data='07', dshape=[1], ddt='u1')
            yield case_from_data(dd)
        return
    exts = d['exts']
    labels = d.get('labels') or [False] * len(exts)

    def again(**kw):
        dd = dict(d)
        dd.update(kw)
        return case_from_data(dd)
    need0 = HDR_SIZE[d['fmt']] + 4 + sum(need_size(len(unhx(h))) for _, h in exts)
    for i in range(len(exts)):
        e2 = exts[:i] + exts[i + 1:]
        l2 = labels[:i] + labels[i + 1:]
        need1 = HDR_SIZE[d['fmt']] + 4 + sum(need_size(len(unhx(h))) for _, h in e2)
        off2 = d['off'] if (d['off'] == 0 or d['kind'] == 'p') else max(1, d['off'] - need0 + need1)
        yield again(exts=e2, labels=l2, off=off2)
    for i, (c, h) in enumerate(exts):
        b = unhx(h)
        if len(b) > 1:
            for nb in (b[:len(b) // 2], b[:-1]):
                e2 = exts[:i] + [[c, hx(nb)]] + exts[i + 1:]
                need1 = HDR_SIZE[d['fmt']] + 4 + sum(need_size(len(unhx(hh))) for _, hh in e2)
                off2 = d['off'] if (d['off'] == 0 or d['kind'] == 'p') else max(1, d['off'] - need0 + need1)
                yield again(exts=e2, off=off2)
    if d.get('route', 'fm') != 'fm':
        yield again(route='fm')
    if any(labels):
        yield again(labels=[False] * len(exts))
    if len(unhx(d['data'])) > 1 or d.get('ddt', 'u1') != 'u1':
        yield again(data='07', dshape=[1], ddt='u1')


# =====================================================================================================
# generators
# =====================================================================================================

def rand_content(rng, code, big=False):
    n = rng.randrange(0, 71) if not big else rng.choice([71, 100, 127, 128, 255, 256, 300])
    if rng.random() < 0.15:
        n = rng.choice([0, 1, 7, 8, 9, 23, 24, 25, 39, 40, 41, 56])
    b = bytearray(rng.randrange(0, 256) for _ in range(n))
    r = rng.random()
    if n and r < 0.33:
        k = rng.randrange(1, min(n, 20) + 1)
        b[n - k:] = bytes(k)                     # trailing NULs (possibly the whole content)
    elif n and r < 0.6:
        b[-1] = rng.randrange(1, 256)            # certainly no trailing NUL
    if n and rng.random() < 0.1:
        b[0] = 0
    if code == 2:
        # pydicom sniffs content[4:6] as a VR: keep it ASCII so that the DICOM handler accepts the record
        if n >= 6:
            b[4:6] = rng.choice([b'UI', b'PN', b'zz', b'LO'])
        elif n > 4:
            b[4:n] = b'U' * (n - 4)
    return bytes(b)


def rand_code(rng, table):
    r = rng.random()
    known = sorted(table)
    if r < 0.45:
        return rng.choice(known)
    if r < 0.55:
        return rng.choice([2, 32, 6, 4, 44])
    if r < 0.8:
        return rng.choice([1, 3, 5, 7, 33, 46, 99, 255, 256, 9998, 65535, 65536, 2 ** 24 + 1])
    if r < 0.9:
        return rng.choice([-1, -2, -99, -2 ** 31, 2 ** 31 - 1, -65536, 0x01020304, -0x01020304])
    return rng.randrange(-2 ** 31, 2 ** 31)


def rand_exts(rng, table, nmax):
    k = rng.choice([0, 1, 1, 2, 2, 3, 4] + ([5, 6] if nmax > 4 else []))
    out = []
    big = rng.random() < 0.05
    for _ in range(k):
        c = rand_code(rng, table)
        out.append([c, hx(rand_content(rng, c, big))])
    return out


def rand_data(rng):
    ddt = rng.choice(['u1', 'i2', 'u1', 'i4'])
    shape = rng.choice([(1,), (3,), (2, 3), (2, 2, 2), (5, 1, 2), (4, 3)])
    n = int(np.prod(shape)) * np.dtype(ddt).itemsize
    return hx(bytes(rng.randrange(0, 256) for _ in range(n))), shape, ddt


def minimum_offset(fmt, exts):
    return HDR_SIZE[fmt] + 4 + sum(need_size(len(unhx(h))) for _, h in exts)


def rand_img_case(rng, table, tier, stream='img'):
    fmt, kind, endian = rng.choice([1, 2]), rng.choice('sssp'), rng.choice('<>')
    exts = rand_exts(rng, table, 6 if tier == 'thorough' else 4)
    dh, shape, ddt = rand_data(rng)
    mn = minimum_offset(fmt, exts)
    r = rng.random()
    if kind == 's':
        if stream == 'edge':
            off = rng.choice([1, 16, mn - 16, mn - 1, mn - 8, HDR_SIZE[fmt], HDR_SIZE[fmt] + 4, HDR_SIZE[fmt] + 3,
                              mn + 1, mn + 5, mn + 15, mn + 17, mn + 21, mn + 8, mn + 24, mn + 40])
            off = max(off, 1)
        elif r < 0.3:
            off = 0
        elif r < 0.45:
            off = mn
        else:
            off = mn + 16 * rng.choice([1, 1, 2, 3, 4, 5, 8, 64])
    else:
        off = 0 if r < 0.5 else rng.choice([16, 32, 48, 1, 7, 352, 100, 20])
    route = rng.choice(['fm', 'fm', 'fm', 'bytes', 'disk'] if tier != 'quick' else ['fm'] * 8 + ['bytes', 'disk'])
    labels = [rng.random() < 0.3 for _ in exts]
    return mk_img(fmt, kind, endian, off, dh, exts, shape, ddt, route, stream, labels)


def ser_bytes(endian, exts):
    return b''.join(struct.pack(endian + 'ii', need_size(len(b)), c) + b + bytes(need_size(len(b)) - 8 - len(b))
                    for c, b in exts)


def rand_parse_case(rng, table):
    endian = rng.choice('<>')
    # code 2 is excluded here: its handler (pydicom sniffing) is not modelled and chokes on arbitrary bytes
    exts = [(c if (-2 ** 31 <= c < 2 ** 31 and c != 2) else 6, unhx(h)) for c, h in rand_exts(rng, table, 4)]
    raw = bytearray(ser_bytes(endian, exts))
    total = len(raw)
    r = rng.random()
    tail = rng.choice([b'', b'', bytes(8), bytes(16), bytes(32), bytes(5), bytes(rng.randrange(1, 256) for _ in range(12)),
                       bytes(16) + bytes(rng.randrange(0, 256) for _ in range(9))])
    if r < 0.35:
        pass                                             # well formed
    elif r < 0.75 and total:
        # mutate an esize field of one record or a random byte
        pos, starts = 0, []
        for _, b in exts:
            starts.append(pos)
            pos += need_size(len(b))
        s = rng.choice(starts)
        bad = rng.choice([0, 1, 4, 7, 8, 9, 12, 15, 17, 24, 40, -16, -1, -8, 10 ** 6, 2 ** 31 - 1, 48, 64,
                          need_size(0) + 16 * rng.randrange(0, 6)])
        raw[s:s + 4] = struct.pack(endian + 'i', bad)
    elif total:
        cut = rng.randrange(0, total)
        raw = raw[:cut]
    raw = bytes(raw) + tail
    size = rng.choice([total, total, -1, -1, len(raw), total + 16, total + 8, total - 16, total - 1, 15, 16, 0,
                       total + len(tail), total + 1024, -7])
    if rng.random() < 0.2:
        endian = '<' if endian == '>' else '>'           # read with the wrong byte order
    return mk_parse(endian, size, hx(raw))


def _cifti_xml(meta):
    from nibabel.cifti2 import cifti2 as c2
    m = c2.Cifti2Matrix()
    m.metadata = c2.Cifti2MetaData(meta)
    return c2.Cifti2Header(m).to_xml()


def rand_hist_case(rng, tier):
    """object extensions edited in place between a load / construction and the save (CIFTI, DICOM, generic mutable
    object), optionally carried to another image class through from_header"""
    from nibabel import nifti1
    from nibabel.cifti2.parse_cifti2 import Cifti2Extension
    mode = rng.choice(['obj', 'obj', 'obj', 'cifti', 'dicom', 'reload', 'reload'])
    fmt, kind = rng.choice([1, 2]), rng.choice('sssp')
    same = rng.random() < 0.5
    load = True if mode != 'obj' else False
    if mode == 'reload':
        # plain two-step history: save, load, insert / append further extensions, (change class), save
        pre = {'fmt': fmt, 'kind': kind, 'endian': rng.choice('<>')} if same else \
            {'fmt': rng.choice([1, 2]), 'kind': rng.choice('sp'), 'endian': rng.choice('<>')}
        endian = pre['endian'] if (pre['fmt'], pre['kind']) == (fmt, kind) else NATIVE
        exts, steps = [], []
        for c, hh in rand_exts(rng, _codes_table(), 4):
            if not -2 ** 31 <= c < 2 ** 31:
                c = 6
            if rng.random() < 0.5:
                exts.append([c, hh])
                steps.append({'append': True})
            else:
                exts.append([c, hx(unhx(hh).rstrip(b'\x00'))])
                steps.append(None)
        dh, shape, ddt = rand_data(rng)
        mn = minimum_offset(fmt, exts)
        off = rng.choice([0, 0, 0, mn, mn + 16, mn + 48]) if kind == 's' else rng.choice([0, 0, 16, 7])
        hist = {'mode': mode, 'pre': pre, 'steps': steps, 'load': True, 'touch': False}
        return mk_img(fmt, kind, endian, off, dh, exts, shape, ddt, 'fm', 'hist', None, hist)
    if same:
        pre = {'fmt': fmt, 'kind': kind, 'endian': rng.choice('<>')}
        # a loaded header handed to a new image of the same class keeps its byte order (header.copy())
        endian = pre['endian']
    else:
        pre = {'fmt': rng.choice([1, 2]), 'kind': rng.choice('sp'), 'endian': rng.choice('<>')}
        if (pre['fmt'], pre['kind']) == (fmt, kind):
            endian = pre['endian']
        else:
            endian = NATIVE                              # from_header into another class: fresh native header
    k = rng.choice([1, 1, 2, 3])
    which = rng.randrange(k)
    exts, steps = [], []
    for i in range(k):
        edited = (i == which) or (mode == 'obj' and rng.random() < 0.3)
        if not edited:
            c = rng.choice([4, 6, 44, 99, 9998, -3])
            b = rand_content(rng, c)
            if load:
                b = b.rstrip(b'\x00')                    # what the first load hands on
            exts.append([c, hx(b)])
            steps.append(None)
        elif mode == 'obj':
            c = rng.choice([6, 4, 40, 44, 99, 9998, 65536, -7])
            n0 = rng.randrange(0, 41)
            grow = rng.choice([1, 3, 8, 15, 16, 17, 20, 40, 70, -1, -9, 0])
            n1 = max(0, n0 + grow)
            b0 = bytes(rng.randrange(1, 256) for _ in range(n0))
            b1 = bytes(rng.randrange(1, 256) for _ in range(n1))
            exts.append([c, hx(b1)])
            steps.append({'init': hx(b0), 'final': hx(b1)})
        elif mode == 'cifti':
            meta = {'a': 'b' * rng.randrange(0, 20)}
            x0 = _cifti_xml(meta)
            key, value = 'k' * rng.randrange(1, 4), 'v' * rng.choice([0, 1, 5, 11, 16, 20, 33, 40, 70])
            ext = Cifti2Extension(32, x0)
            obj = ext.get_content()
            obj.matrix.metadata[key] = value
            exts.append([32, hx(obj.to_xml())])
            steps.append({'init': hx(x0), 'key': key, 'value': value})
        else:
            import pydicom
            ds = pydicom.Dataset()
            ds.PatientName = 'N' * rng.randrange(1, 12)
            x0 = bytes(nifti1.Nifti1DicomExtension(2, ds).content)
            value = 'x' * rng.choice([1, 2, 7, 12, 16, 21, 30, 40, 64])
            ext = nifti1.Nifti1DicomExtension(2, x0)
            obj = ext.get_content()
            obj.PatientID = value
            exts.append([2, hx(bytes(ext._mangle(obj)))])
            steps.append({'init': hx(x0), 'value': value})
    dh, shape, ddt = rand_data(rng)
    mn = minimum_offset(fmt, exts)
    if kind == 's':
        off = rng.choice([0, 0, 0, mn, mn + 16, mn + 48])
    else:
        off = rng.choice([0, 0, 16, 7])
    hist = {'mode': mode, 'pre': pre, 'steps': steps, 'load': load, 'touch': rng.random() < 0.5}
    return mk_img(fmt, kind, endian, off, dh, exts, shape, ddt, 'fm', 'hist', None, hist)


def f32_value(rng):
    """natural numbers that stress float32 rounding: around powers of two, exact ties, near ties, multiples of 16"""
    # below 2^53 only: NumPy converts a Python int through float64 first (exact there; double rounding above),
    # and the int64 field of NIfTI-2 overflows at 2^63 — both outside the model
    e = rng.randrange(20, 52) if rng.random() < 0.3 else rng.randrange(22, 36)
    k = max(e - 24, 0)
    r = rng.random()
    if r < 0.25:
        return max(0, 2 ** e + rng.randrange(-40, 41))
    q = rng.randrange(2 ** 23, 2 ** 24)
    if r < 0.5:
        return q * 2 ** k + (2 ** k // 2) + rng.choice([0, 0, 1, -1])         # ties and their neighbours
    if r < 0.7:
        return q * 2 ** k                                                      # exactly representable
    if r < 0.85:
        return (q * 2 ** k + rng.randrange(0, 2 ** k)) // 16 * 16              # multiples of 16
    return q * 2 ** k + rng.randrange(0, 2 ** k)


def rand_voff_case(rng):
    fmt, kind = rng.choice([1, 1, 2]), rng.choice('sssp')
    base = HDR_SIZE[fmt] + 4
    r = rng.random()
    if r < 0.15:
        lens = [rng.randrange(0, 200) for _ in range(rng.randrange(0, 4))]
    else:
        # aim the total at the neighbourhood of a power of two 2^24..2^33 (or anywhere up to 2^32)
        target = rng.choice([2 ** e for e in range(24, 34)] + [3 * 2 ** 27, 5 * 2 ** 26, 2 ** 28 + 2 ** 20]) \
            + 16 * rng.randrange(-6, 40) if r < 0.75 else rng.randrange(2 ** 24, 2 ** 32)
        k = rng.choice([1, 1, 2, 3, 5])
        lens, left = [], max(target - base, 16)
        for i in range(k - 1):
            n = min(rng.randrange(0, left // 2 + 1), 2 ** 31 - 40)
            lens.append(n)
            left = max(left - need_size(n), 16)
        while left > 2 ** 31 - 40:
            lens.append(2 ** 31 - 40 - rng.randrange(0, 64))
            left -= need_size(lens[-1])
        lens.append(max(left - 8 - rng.randrange(0, 16), 0))
        rng.shuffle(lens)
        if rng.random() < 0.03:
            lens[rng.randrange(len(lens))] = rng.choice([2 ** 31 - 24, 2 ** 31 - 23, 2 ** 31, 2 ** 32 + 5])
    needed = base + sum(need_size(n) for n in lens)
    r = rng.random()
    if r < 0.45:
        off = 0
    elif r < 0.55:
        off = needed
    elif r < 0.8:
        off = max(1, needed + rng.choice([-32, -16, -1, 1, 15, 16, 17, 31, 32, 48, 64, 100, 4096]))
    else:
        off = max(1, f32_value(rng) if rng.random() < 0.5 else needed + rng.randrange(-200, 200))
    if kind == 'p' and rng.random() < 0.5:
        off = rng.choice([0, 16, 352, 2 ** 24 + 1, 2 ** 24 + 2, 2 ** 25 + 2, 2 ** 28 + 16, f32_value(rng)])
    return mk_voff(fmt, kind, off, lens)


def rand_xst_case(rng):
    """a history: headers of the four NIfTI classes / both byte orders, extensions built from bytes or from a runtime
    object (three codecs), content reads, size queries, in-place edits that cross 16-byte borders, header copies,
    conversions to other classes, images made from headers, shared extension objects, explicit offsets, header-level
    and image-level saves (several per object)"""
    ref = XRef()
    ops = []
    classes = sorted(XST_CLASSES)

    def emit(op):
        ops.append(op)
        ref.apply(op)

    def blob(lo=0, hi=40):
        n = rng.choice([0, 1, 7, 8, 9, 23, 24, 25]) if rng.random() < 0.2 else rng.randrange(lo, hi + 1)
        b = bytearray(rng.choice([32, 32, 10, 0, 65, 66, 200, rng.randrange(1, 256)]) for _ in range(n))
        return hx(bytes(b))

    emit(['nh', rng.choice(classes), rng.choice('LB')])
    if rng.random() < 0.25:
        emit(['nh', rng.choice(classes), rng.choice('LB')])
    for _ in range(rng.randrange(1, 4)):
        h = rng.randrange(len(ref.hdrs))
        emit([rng.choice(['nr', 'nr', 'no']), h, rng.randrange(len(ref.hdrs[h]['refs']) + 1), rng.choice([0, 0, 1, 2]),
              rng.choice([4, 6, 32, 40, 44, 99, 9998, -7, 65536]), blob()])
    for _ in range(rng.randrange(4, 22)):
        h = rng.randrange(len(ref.hdrs))
        hd = ref.hdrs[h]
        n = len(hd['refs'])
        r = rng.random()
        if r < 0.08:
            emit([rng.choice(['nr', 'no']), h, rng.randrange(n + 1), rng.choice([0, 1, 2]),
                  rng.choice([4, 6, 32, 40, 44, 99, 9998, -7]), blob()])
        elif r < 0.30 and n:
            i = rng.randrange(n)
            if rng.random() < 0.5:
                emit(['ea', h, i, hx(bytes(rng.randrange(1, 256) for _ in range(rng.choice([1, 3, 8, 15, 16, 17, 33]))))])
            else:
                emit(['ed', h, i, blob(0, 60)])
        elif r < 0.42 and n:
            emit([rng.choice(['go', 'ct', 'sz']), h, rng.randrange(n)])
        elif r < 0.46:
            emit(['tt', h])
        elif r < 0.50 and n:
            emit(['dl', h, rng.randrange(n)])
        elif r < 0.54 and n:
            h2 = rng.randrange(len(ref.hdrs))
            emit(['sh', h, rng.randrange(n), h2, rng.randrange(len(ref.hdrs[h2]['refs']) + 1)])
        elif r < 0.57:
            emit(['cp', h])
        elif r < 0.62:
            emit(['bs', h, rng.choice('NNLB')])
            if rng.random() < 0.7:
                # the route "save the other byte order through a byte-swapped header"
                emit(['im', len(ref.hdrs) - 1, rng.choice([ref.hdrs[-1]['cls']] * 3 + classes)])
                if ref.hdrs[-1]['img']:
                    emit(['wi', len(ref.hdrs) - 1, '0102030405'])
        elif r < 0.68:
            emit(['fh', h, rng.choice(classes)])
        elif r < 0.80:
            emit(['im', h, rng.choice(classes + [hd['cls']])])
        elif r < 0.86:
            need = ref.needed(h)
            emit(['so', h, rng.choice([0, 0, need, need + 16, need + 32, need + 48, max(need - 16, 1), need + 5, 7, 352, 544,
                                        16, 400, 1024])])
        elif r < 0.92:
            emit(['wh', h])
        else:
            imgs = [j for j, x in enumerate(ref.hdrs) if x['img']]
            if imgs:
                emit(['wi', rng.choice(imgs), '0102030405'])
    # finish with a save of every image (twice for one of them, with an edit in between) and of one bare header
    imgs = [j for j, x in enumerate(ref.hdrs) if x['img']]
    if not imgs:
        h = rng.randrange(len(ref.hdrs))
        emit(['im', h, rng.choice(classes)])
        if ref.hdrs[-1]['img']:
            imgs = [len(ref.hdrs) - 1]
    for j in imgs[-2:]:
        emit(['wi', j, '0102030405'])
        if ref.hdrs[j]['refs'] and rng.random() < 0.6:
            emit(['ea', j, rng.randrange(len(ref.hdrs[j]['refs'])), hx(bytes(rng.randrange(1, 256) for _ in range(rng.choice([1, 9, 16, 30]))))])
            emit(['wi', j, '0102030405'])
    emit(['wh', rng.randrange(len(ref.hdrs))])
    return mk_xst(ops)


def byteswap_route_cases():
    """systematic: every NIfTI header class x both byte orders x as_byteswapped(None | '<' | '>') x extension from bytes /
    from a runtime object (edited after the swap: the object is shared), then an image of the same class is made from
    the swapped header, saved and loaded, and the swapped header itself is written"""
    out = []
    for cls in sorted(XST_CLASSES):
        for e in 'LB':
            for t in 'NLB':
                for how in ('nr', 'no'):
                    ops = [['nh', cls, e], [how, 0, 0, 0, 6, '6869'], ['nr', 0, 1, 1, 40, '01020304050607080900'],
                           ['bs', 0, t], ['im', 1, cls], ['wi', 2, '0102030405']]
                    if how == 'no':
                        ops += [['ea', 1, 0, '2121212121212121212121212121212121'], ['wi', 2, '0102030405']]
                    ops += [['wh', 1]]
                    out.append(mk_xst(ops))
    return out


def cases(rng, tier):
    table = _codes_table()
    out = []
    out.extend(byteswap_route_cases())
    for _ in range({'quick': 1200, 'thorough': 20000, 'search': 4000}[tier]):
        out.append(rand_xst_case(rng))
    # ---- the vox_offset field: float32 rounding / successor, and the offset rule on sizes alone (no bytes)
    for n in (0, 1, 2 ** 24 - 1, 2 ** 24, 2 ** 24 + 1, 2 ** 24 + 2, 2 ** 24 + 3, 2 ** 28 - 16, 2 ** 28, 2 ** 28 + 16,
              2 ** 28 + 48, 268435856, 268435840, 268435872, 2 ** 31, 2 ** 32 + 2 ** 8, 2 ** 32 + 2 ** 8 + 1):
        out.append(mk_f32(n))
    for _ in range({'quick': 600, 'thorough': 20000, 'search': 2000}[tier]):
        n = f32_value(rng)
        out.append(mk_f32(n))
        if n >= 2 ** 24 and n % 2 ** (n.bit_length() - 24) == 0:
            out.append(mk_f32(n, True))
    out.append(mk_voff(1, 's', 0, [268435488]))            # the repaired defect: 352 + 268435504 is not a float32
    out.append(mk_voff(1, 's', 0, [268435488 + 32]))
    out.append(mk_voff(2, 's', 0, [268435488]))
    out.append(mk_voff(1, 's', 268435856, [268435488]))
    out.append(mk_voff(1, 's', 268435872, [268435488]))
    for _ in range({'quick': 800, 'thorough': 20000, 'search': 3000}[tier]):
        out.append(rand_voff_case(rng))
    # ---- exhaustive small: size formula
    for n in range(0, 201 if tier != 'thorough' else 1201):
        out.append(mk_size(n))
    # ---- systematic: every content length 0..70 x endian x format, single extension, library offset and gap 16/32
    lens = range(0, 71)
    for n in lens:
        for fmt in (1, 2):
            for endian in '<>':
                b = bytes((7 * i + n) % 255 + 1 for i in range(n))
                for off_k in ((0, None) if tier == 'quick' and n % 3 else (0, None, 1, 2)):
                    exts = [[6 if n % 2 else 9998, hx(b)]]
                    mn = minimum_offset(fmt, exts)
                    off = 0 if off_k is None else mn + 16 * off_k
                    out.append(mk_img(fmt, 's', endian, off, '0102030405', exts, (5,), 'u1', 'fm', 'sweep'))
                if n % 4 == 0 or tier == 'thorough':
                    out.append(mk_img(fmt, 'p', endian, 0, '0102030405', [[4, hx(b)], [40, hx(b[:n // 2] + b'\0')]],
                                      (5,), 'u1', 'fm', 'sweep'))
    # ---- systematic: the LAST extension occupies exactly 16 bytes (content 0..8) so that exactly 16 bytes are left
    #      before vox_offset when the reader reaches it; x format x single/pair x BOTH byte orders (the non-native
    #      one with >= 1 extension) x 0..2 extensions in front x tight offset / one and two spare 16-byte blocks
    for n in range(0, 10):
        for fmt in (1, 2):
            for kind in 'sp':
                for endian in '<>':
                    for front in range(0, 3):
                        if tier == 'quick' and front == 2 and n % 2:
                            continue
                        b = bytes((11 * i + n) % 255 + 1 for i in range(n))
                        exts = [[[6, 99, 4][j], hx(bytes((5 * i + j) % 251 + 1 for i in range(3 + 13 * j)))]
                                for j in range(front)] + [[44 if n % 2 else 9998, hx(b)]]
                        mn = minimum_offset(fmt, exts)
                        for off in ((0, mn, mn + 16, mn + 32) if kind == 's' else (0, 16)):
                            out.append(mk_img(fmt, kind, endian, off, '0102030405', exts, (5,), 'u1', 'fm', 'tail16'))
    # ---- histories: object extensions edited in place before the save, header carried across image classes
    for _ in range({'quick': 250, 'thorough': 4000, 'search': 1200}[tier]):
        out.append(rand_hist_case(rng, tier))
    # ---- random images
    nimg = {'quick': 1500, 'thorough': 30000, 'search': 4000}[tier]
    for _ in range(nimg):
        out.append(rand_img_case(rng, table, tier, 'img'))
    for _ in range(nimg // 4):
        out.append(rand_img_case(rng, table, tier, 'edge'))
    # ---- codes that do not fit int32
    for _ in range({'quick': 20, 'thorough': 200, 'search': 20}[tier]):
        c = rand_img_case(rng, table, tier, 'edge')
        d = dict(c.data)
        if d['exts']:
            i = rng.randrange(len(d['exts']))
            d['exts'] = [list(e) for e in d['exts']]
            d['exts'][i][0] = rng.choice([2 ** 31, -2 ** 31 - 1, 2 ** 32 + 6, 2 ** 40])
            d['labels'] = [False] * len(d['exts'])
            out.append(case_from_data(d))
    # ---- serialisation alone
    for _ in range({'quick': 400, 'thorough': 6000, 'search': 800}[tier]):
        out.append(mk_ser(rng.choice('<>'), rand_exts(rng, table, 6)))
    # ---- reader on arbitrary streams
    for _ in range({'quick': 2500, 'thorough': 60000, 'search': 5000}[tier]):
        out.append(rand_parse_case(rng, table))
    return out
