"""C13 — the image data cache and its aliases follow the documented model
(nibabel/dataobj_images.py get_fdata / get_data / in_memory / uncache; arrayproxy.py construction;
analyze.py from_file_map; filebasedimages.py header copy; doc/source/images_and_memory.rst)."""
import atexit
import io
import itertools
import os
import shutil
import tempfile
import warnings

import numpy as np

import common
import py2lean
import py2lean_c13
from common import Case, errname

PID = 'C13'
LEAN_TARGETS = ['NibabelModel.Props.C13']
THEOREMS = [
    'Nb.C13.step_wf',
    'Nb.C13.run_wf',
    'Nb.C13.refines_doc_model_step',
    'Nb.C13.refines_doc_model',
    'Nb.C13.cache_identity',
    'Nb.C13.fresh_identity_is_new',
    'Nb.C13.source_never_changes',
    'Nb.C13.uncached_reflects_file',
    'Nb.C13.uncached_reflects_own_array',
    'Nb.C13.garbage_stays_garbage',
    'Nb.C13.edits_visible_only_via_cache_or_own_array',
    'Nb.C13.edit_of_cache_is_visible',
    'Nb.C13.edit_of_own_array_is_visible',
    'Nb.C13.in_memory_iff',
    'Nb.C13.in_memory_history',
    'Nb.C13.proxy_ignores_header_edits',
    'Nb.C13.proxy_ignores_header_values',
    'Nb.C13.code_constructors_flat',
    'Nb.C13.ref_model_refines_flat',
    'Nb.C13.code_images_follow_doc_model',
    'Nb.C13.proxy_owns_its_parameters',
    'Nb.C13.array_image_ignores_header_objects',
    'Nb.C13.frozen_ignores_header_cells',
    'Nb.C13.aliasing_proxy_counterexample',
    'Nb.C13.image_header_is_a_copy',
    'Nb.C13.shared_image_header_counterexample',
    'Nb.C13.readonly_read_iff',
    'Nb.C13.readonly_edit_is_noop',
    'Nb.C13.source_constants',
    'Nb.C13.source_get_fdata',
    'Nb.C13.source_get_data',
    'Nb.C13.source_uncache',
    'Nb.C13.source_in_memory',
    'Nb.C13.source_dataobj',
    'Nb.C13.source_defaults',
    'Nb.C13.source_methods_follow_model',
    'Nb.C13.source_cache_identity',
    'Nb.C13.source_proxy_spec',
    'Nb.C13.source_proxy_spec_header',
]
ASSUMPTIONS = [
    'hand-written Lean model of DataobjImage.get_fdata/get_data/in_memory/uncache and of what '
    'np.asanyarray(dataobj, dtype) returns for an ndarray / an ArrayProxy (Model/C13.lean), tied to the code '
    'by the differential run of every generated op sequence (identity, dtype, exact values, in_memory per step)',
    'NumPy contract: np.asanyarray(a, dtype=d) is `a` itself iff a is an ndarray of dtype d (or d omitted); '
    'element casts between int16/float32/float64 are exact on the small integers used; `arr += 1` is in place',
    'the file behind a proxy is not written by any modelled op (checked at the end of every case: `F1`); '
    'np.memmap succeeds exactly for an uncompressed file given by path (IOp.mapMode), modes c / r as documented',
    'object-level header model (RState): which header OBJECTS exist and who holds them is written from '
    'from_file_map / ArrayProxy.__init__ / FileBasedImage.__init__ by hand (Copies.code) and tied by the '
    'differential run (header pair after every header edit, data after it)',
    'array identities: every returned array is kept alive by the harness, so CPython id() is not recycled',
    'images are Nifti1Image of shape (n,1,1); dataobj[slice] is modelled for proxy images only',
    'stage T: the bodies of DataobjImage.get_fdata / get_data / uncache / in_memory / dataobj are re-translated from '
    'the working tree on every run by harness/py2lean_c13.py (purely syntactic: self = dict of attributes, return = '
    '(result, self)) into Generated/C13Funcs.lean and PROVED equal to the documented model step for all states, '
    'caching strings and dtypes; trusted there: the translator, Basic/PyVal.lean (semantics of the Python fragment) '
    'and the NumPy primitives `prims` of Model/C13_Py.lean (np.dtype, .dtype/.type, issubclass(scalar type, '
    'np.inexact), isinstance(x, np.ndarray), np.asanyarray(obj, dtype) = the object itself iff an ndarray of that '
    'dtype, otherwise a new array) — all three validated on every run by the streams `gen` / `genst` / `gen-random` '
    '(translated methods in the native driver vs the real methods on real images in the same, also injected, '
    'abstract state)',
    'stage T for ArrayProxy.__init__: the statements that mention `spec` / `par` are cut out of the current source '
    'syntactically (py2lean_c13.slice_statements), translated, and proved equal to ProxySpec.par / Par.ofHdr for every '
    'header object and tuple spec; trusted: the slicing rule, the header-object primitives `primsSpec` (hasattr + the four '
    'getters), float literals 1.0 / 0.0 read as the integers 1 / 0; validated by stream `genspec`.  NOT translated: '
    'the rest of __init__ (mmap / order / keep_file_open handling), the read path (_get_unscaled / _get_scaled / '
    '__array__ / __getitem__) — those stay in the hand-written model (Par.readRO / sliceRO / scaled) tied by correspondence',
]
RULE = ('streams: exhaustive op sequences of exact depth 4 (quick) / 5 (thorough; 6 over a reduced alphabet) over '
        '{get_fdata(fill|unchanged,f4|f8), asarray(dataobj), dataobj[slice], uncache, edit-last, edit-array-0, '
        'get_data(fill), header scale edit on img.header / constructor header} x {array image int16/f4/f8, proxy '
        'image from file (mmap), from .nii.gz, from BytesIO file_map, NIfTI pair file_map, hand-built ArrayProxy; scaled and unscaled; '
        'keep_file_open in {default,True,False} x mmap in {True,c,r,False} for the file-backed loaders (stream `io`: '
        'exhaustive depth 3/4 for every pair; the read-only rule of mmap=r is in the Lean model)}; stream `ctor`: '
        'ArrayProxy(path|BytesIO, hdr | 3-/5-tuple spec) + Nifti1Image(proxy, None, hdr) with the caller keeping and '
        'editing hdr (scaling, dtype) between reads, exhaustive depth 3/4; stream `classes`: big-endian NIfTI-1, '
        'NIfTI-2, AnalyzeImage, Spm2AnalyzeImage, MGHImage from files, exhaustive depth 3/4 + mmap r/False; stream '
        '`spell`: get_fdata()/get_data() with defaults omitted, positional arguments, dtype strings; stream '
        '`histories`: get_fdata(B)->edit->get_fdata(A)->get_fdata(B) on int/f4/f8 array images, and '
        'read->edit->(uncache|fill)->re-read->edit->uncache->re-read on unscaled float files for kfo x mmap; random '
        'sequences up to depth 30 over the full alphabet incl. in_memory, get_data(unchanged), edit of any earlier '
        'array, header shape/dtype edits, bad caching / int dtype / zero-step slice. A case is non-trivial when it '
        'contains a data read; distinct by (image configuration, flavour, op sequence). Stage-T streams (driver runs '
        'the methods translated from the current source): `gen` exhaustive depth 3/4 over {get_fdata x4, asarray, uncache, '
        'edit-last, get_data(fill|unchanged), in_memory} for the six base configurations + rare ops after every 2-prefix '
        'for all configurations; `genst` ONE method call (every method / caching / dtype incl. the refused ones) + probes, '
        'and short random method sequences, from an INJECTED abstract state: _fdata_cache x _data_cache each in {None, '
        'own array, an int16 / float32 / read-only float64 array} for int16/f4/f8 array images and scaled / unscaled proxy '
        'images; `gen-random`: every fourth random sequence; `genspec`: ArrayProxy(BytesIO, spec) for header objects (a real '
        'Nifti1Header and a duck-typed header with slope / intercept independently None) x 3 dtypes x 16 scalings, and tuple '
        'specs of length 0..7, against the spec handling translated from ArrayProxy.__init__. NEUTRAL ops (harness-only, '
        'stripped from the model line, no output of their own): img.set_data_dtype(f4|f8|i2), get_data_dtype, header descrip / '
        'zooms edits, set_qform / set_sform, affine / shape reads, update_header, np.asarray(dataobj) — stream `neutral` '
        '(fill -> edit -> neutral op -> re-read / in_memory for every configuration, class and constructor) and 30% of the '
        'random histories without header-pair ops.')

DTS = {'i2': np.int16, 'f4': np.float32, 'f8': np.float64}
DTNAME = {np.dtype(v): k for k, v in DTS.items()}

_TMP = None


def _tmpdir():
    global _TMP
    if _TMP is None:
        _TMP = tempfile.mkdtemp(prefix='c13_')
        atexit.register(shutil.rmtree, _TMP, True)
    return _TMP


# ------------------------------------------------------------------ constants regenerated from the source
GEN_PATH = os.path.join(common.LEAN, 'NibabelModel', 'Generated', 'C13Consts.lean')


def _src_ast(rel):
    import ast
    with open(os.path.join(common.REPO, rel)) as f:
        return ast.parse(f.read())


def _find_func(tree, cls, name):
    import ast
    for node in ast.walk(tree):
        if isinstance(node, ast.ClassDef) and node.name == cls:
            for it in node.body:
                if isinstance(it, ast.FunctionDef) and it.name == name:
                    return it
    if cls is None:
        for node in tree.body:
            if isinstance(node, ast.FunctionDef) and node.name == name:
                return node
    raise RuntimeError('C13 regen: %s.%s not found' % (cls, name))


def _defaults(fn):
    """{argument name: source text of its default} for positional-or-keyword and keyword-only arguments"""
    import ast
    a = fn.args
    pos = a.posonlyargs + a.args
    out = {x.arg: ast.unparse(dv) for x, dv in zip(pos[len(pos) - len(a.defaults):], a.defaults)}
    out.update({x.arg: ast.unparse(dv) for x, dv in zip(a.kwonlyargs, a.kw_defaults) if dv is not None})
    return out


def _not_in_tuple(fn, var):
    """the constant tuple T of the first `if <var> not in T: raise` of a function"""
    import ast
    for node in ast.walk(fn):
        if (isinstance(node, ast.Compare) and isinstance(node.left, ast.Name) and node.left.id == var
                and len(node.ops) == 1 and isinstance(node.ops[0], ast.NotIn) and isinstance(node.comparators[0], ast.Tuple)):
            return [ast.literal_eval(e) for e in node.comparators[0].elts]
    raise RuntimeError('C13 regen: no `%s not in (...)` test in %s' % (var, fn.name))


def _int_of(x, what):
    if isinstance(x, bool) or not isinstance(x, (int, float)) or int(x) != x:
        raise RuntimeError('C13 regen: %s is %r, not an integral constant' % (what, x))
    return int(x)


def _lean_str_list(xs):
    return '[' + ', '.join('"%s"' % x for x in xs) + ']'


def regen():
    """Constants the model and the `spell` stream rely on, read from the CURRENT source with `ast` (no import):
    defaults and accepted values of get_fdata / get_data, what ArrayProxy substitutes for a missing slope /
    intercept (header spec and short tuple spec), the accepted `mmap` values and what `True` means."""
    import ast
    di = _src_ast('nibabel/dataobj_images.py')
    ap = _src_ast('nibabel/arrayproxy.py')
    # stage T first: the translated functions are written even if one of the constant patterns below no longer matches
    gen_funcs = regen_methods(di, ap)
    gf = _find_func(di, 'DataobjImage', 'get_fdata')
    gd = _find_func(di, 'DataobjImage', 'get_data')
    dgf, dgd = _defaults(gf), _defaults(gd)
    init = _find_func(ap, 'ArrayProxy', '__init__')
    none_sub, optional = {}, None
    for node in ast.walk(init):
        # `<c> if slope is None else slope`
        if (isinstance(node, ast.IfExp) and isinstance(node.test, ast.Compare) and isinstance(node.test.left, ast.Name)
                and isinstance(node.test.ops[0], ast.Is) and isinstance(node.orelse, ast.Name)
                and node.orelse.id == node.test.left.id and isinstance(node.body, ast.Constant)):
            none_sub[node.test.left.id] = node.body.value
        if (isinstance(node, ast.Assign) and len(node.targets) == 1 and isinstance(node.targets[0], ast.Name)
                and node.targets[0].id == 'optional'):
            optional = list(ast.literal_eval(node.value))
    if set(none_sub) != {'slope', 'inter'} or optional is None or len(optional) != 3:
        raise RuntimeError('C13 regen: ArrayProxy.__init__ has another shape: %r %r' % (none_sub, optional))
    vu = _src_ast('nibabel/volumeutils.py')
    aff = _find_func(vu, None, 'array_from_file')
    true_mode = None
    for node in ast.walk(aff):
        # mode = '<m>' if mmap is True else mmap
        if (isinstance(node, ast.Assign) and isinstance(node.targets[0], ast.Name) and node.targets[0].id == 'mode'
                and isinstance(node.value, ast.IfExp) and isinstance(node.value.body, ast.Constant)
                and ast.unparse(node.value.test) == 'mmap is True' and ast.unparse(node.value.orelse) == 'mmap'):
            true_mode = node.value.body.value
    if true_mode is None:
        raise RuntimeError('C13 regen: `mode = ... if mmap is True else mmap` not found in array_from_file')
    mm = ['%s' % (v,) for v in _not_in_tuple(init, 'mmap')]
    text = '''/-! GENERATED by harness/props/c13.py regen() from the working tree of nibabel (ast of
    nibabel/dataobj_images.py, nibabel/arrayproxy.py, nibabel/volumeutils.py).  Do not edit: rewritten on every
    run of `./check C13`.  Core Lean only. -/
namespace Nb.Gen.C13

/-- `DataobjImage.get_fdata(self, caching=<this>, dtype=<this>)` -/
def getFdataDefaultCaching : String := "%s"
def getFdataDefaultDtype : String := "%s"
/-- `DataobjImage.get_data(self, caching=<this>)` -/
def getDataDefaultCaching : String := "%s"
/-- `if caching not in <this>: raise ValueError` in get_fdata / get_data -/
def getFdataCachingValues : List String := %s
def getDataCachingValues : List String := %s
/-- `ArrayProxy.__init__`: `<this> if slope is None else slope`, `<this> if inter is None else inter` -/
def proxyNoneSlope : Int := %d
def proxyNoneInter : Int := %d
/-- `ArrayProxy.__init__`: `optional = (offset, slope, inter)` appended to a short tuple spec -/
def proxyTupleOffset : Int := %d
def proxyTupleSlope : Int := %d
def proxyTupleInter : Int := %d
/-- `ArrayProxy.__init__`: `if mmap not in <this>: raise ValueError` -/
def proxyMmapValues : List String := %s
/-- `array_from_file`: `mode = <this> if mmap is True else mmap` -/
def mmapTrueMode : String := "%s"

end Nb.Gen.C13
''' % (ast.literal_eval(dgf['caching']), dgf['dtype'], ast.literal_eval(dgd['caching']),
       _lean_str_list(_not_in_tuple(gf, 'caching')), _lean_str_list(_not_in_tuple(gd, 'caching')),
       _int_of(none_sub['slope'], 'slope substitute'), _int_of(none_sub['inter'], 'inter substitute'),
       _int_of(optional[0], 'optional[0]'), _int_of(optional[1], 'optional[1]'), _int_of(optional[2], 'optional[2]'),
       _lean_str_list(mm), true_mode)
    common.write_if_changed(GEN_PATH, text)
    return ['Generated.C13Consts'] + gen_funcs


GEN_FUNCS_PATH = os.path.join(common.LEAN, 'NibabelModel', 'Generated', 'C13Funcs.lean')
# (method of DataobjImage, Lean name) — translated from the working tree on every run (stage T)
GEN_METHODS = [('get_fdata', 'get_fdata', ('caching', 'dtype')), ('get_data', 'get_data', ('caching',)),
               ('uncache', 'uncache', ()), ('in_memory', 'in_memory', ()), ('dataobj', 'dataobj', ())]


def regen_methods(tree, ap_tree):
    """Translate the BODIES of the cache methods of the CURRENT dataobj_images.py, and the `spec` handling of
    `ArrayProxy.__init__` (the statements that mention `spec` / `par`, cut out syntactically), into Lean
    (harness/py2lean_c13.py: `self` is a dict of attributes, NumPy / header calls are the primitives of
    Basic/PyValC13.lean).  Lemmas/C13_Gen.lean / C13_GenProxy.lean prove each translation equal to the model.  A body
    outside the fragment is emitted as a definition that raises `Err.unsupported` (model and driver keep building; the
    equality proof fails, so the obligation is reported broken and the runner searches for a failing input)."""
    hdr = ('/-! GENERATED by harness/props/c13.py regen() with harness/py2lean_c13.py from the working tree of nibabel\n'
           '    (nibabel/dataobj_images.py class DataobjImage; nibabel/arrayproxy.py ArrayProxy.__init__). Do not edit:\n'
           '    rewritten on every run of `./check C13`.  Core Lean only. -/')
    entries = [('DataobjImage.' + py, ln, extra,
                (lambda py=py: py2lean_c13.find_method(tree, 'DataobjImage', py))) for py, ln, extra in GEN_METHODS]
    entries.append(('ArrayProxy.__init__ (statements on spec / par)', 'proxy_spec', ('spec',),
                    lambda: py2lean_c13.slice_statements(py2lean_c13.find_method(ap_tree, 'ArrayProxy', '__init__'),
                                                         {'spec', 'par'}, ['spec'], 'proxy_spec')))
    text, _failed = py2lean_c13.translate_methods(entries, 'Nb.Gen.C13F', hdr)
    common.write_if_changed(GEN_FUNCS_PATH, text)
    return ['Generated.C13Funcs.' + e[1] for e in entries]


def _unscaled(scale):
    return scale is None or tuple(scale) == (1, 0)


# flavours whose proxy reads a real, uncompressed file given by PATH (so numpy can memory-map it)
PATH_FLAVOURS = ('load', 'ctorf', 'be', 'n2', 'ana', 'spm', 'mgh')
# flavours whose file stores the data in the non-native byte order
SWAPPED_FLAVOURS = ('be', 'mgh')
# flavours built as ArrayProxy(file, spec) + Nifti1Image(proxy, None, hdr) with the caller keeping `hdr`
CTOR_FLAVOURS = ('ctor', 'ctorf', 'tuple')


def _ro_mmap(d):
    """reads of an unscaled, uncompressed file through mmap='r' hand out read-only arrays (Lean: `Par.readRO`,
    `Par.sliceRO`; the documented model in Python states the rule independently)"""
    return (d['kind'] == 'P' and d.get('flavour') in PATH_FLAVOURS and d.get('mmap', True) == 'r'
            and _unscaled(d.get('scale')))


def mk_case(kind, dt, scale, raw, ops, flavour, stream='main', kfo=None, mmap=True, spell=False, mode='run',
            inject=None):
    """kfo / mmap: the `keep_file_open` / `mmap` arguments of nib.load / from_file_map / ArrayProxy (proxy images;
    the model does not depend on them: uncached reads are fresh and reflect the file whatever the I/O strategy).
    spell: call get_fdata / get_data with omitted (default) / positional arguments and other dtype spellings.
    The Lean driver runs the object-level model from the constructor matching the flavour: `A` array image,
    `P` from_file_map (nib.load, file maps), `C` ArrayProxy(file, hdr) + Nifti1Image(proxy, None, hdr)."""
    sl, it = ('_', '_') if scale is None else (str(scale[0]), str(scale[1]))
    mkind = 'C' if (kind == 'P' and flavour in CTOR_FLAVOURS) else kind
    if kind == 'P':
        # the proxy's I/O parameters the model knows: mmap argument, kind of file, storage byte order
        mkind += ':%s%s%s' % ({True: 'T', False: 'F', 'c': 'c', 'r': 'r'}[mmap],
                              'p' if flavour in PATH_FLAVOURS else 'z' if flavour == 'gz' else 'h',
                              's' if flavour in SWAPPED_FLAVOURS else 'n')
    # mode 'run': the hand-written object-level model; mode 'gen': the METHODS TRANSLATED from the current source
    # (Generated/C13Funcs.lean) run by the driver on the abstract state; with `inject` (mode 'gen' only) the image is
    # first put into an arbitrary abstract state: extra arrays [(dtype, values, read_only)] and which array (id) sits
    # in `_fdata_cache` / `_data_cache`
    # NEUTRAL ops (`n…`: image-level calls that must leave the cache alone) are HARNESS-ONLY: the model sees the
    # history without them and they produce no output of their own, so the correspondence itself states "a neutral op
    # changes no later observation"
    mops = [o for o in ops if o[0] != 'n']
    rawtok, opstok = ','.join(map(str, raw)) if raw else '-', ';'.join(mops) if mops else '-'
    if inject is not None:
        if mode != 'gen':
            raise ValueError('inject needs mode gen')
        heap = '/'.join('%s:%s:%s' % (a[0], ','.join(map(str, a[1])), 'r' if a[2] else 'w') for a in inject['heap']) or '-'
        f = lambda x: '_' if x is None else str(x)  # noqa: E731
        line = 'C13 genst %s %s %s %s %s %s %s %s %s' % (mkind, dt, sl, it, rawtok, heap, f(inject.get('fc')),
                                                         f(inject.get('dc')), opstok)
    else:
        line = 'C13 %s %s %s %s %s %s %s' % (mode, mkind, dt, sl, it, rawtok, opstok)
    data = {'kind': kind, 'dt': dt, 'scale': list(scale) if scale is not None else None, 'raw': list(raw),
            'ops': list(ops), 'flavour': flavour, 'stream': stream}
    if mode != 'run':
        data['mode'] = mode
    if inject is not None:
        data['inject'] = {'heap': [[a[0], list(a[1]), bool(a[2])] for a in inject['heap']], 'fc': inject.get('fc'),
                          'dc': inject.get('dc')}
    if kind == 'P' and (kfo is not None or mmap is not True):
        data['kfo'], data['mmap'] = kfo, mmap
    if spell:
        data['spell'] = True
    nontrivial = any(o[0] in 'gdas' for o in ops)
    key = (kind, dt, sl, it, tuple(raw), flavour, data.get('kfo'), data.get('mmap', True), bool(spell),
           tuple(ops), mode, line if inject is not None else None) if nontrivial else None
    return Case(line, data, key, stream)


# ---- stream `genspec`: the `spec` handling of ArrayProxy.__init__ (translated from the source) on header objects and
# tuples.  spec data: {'t': 'H', 'slope', 'inter', 'n', 'dt', 'off'} | {'t': 'T', 'n', 'dt', 'rest': [...]} |
# {'t': 'S', 'shape': bool, 'n'}
def mk_spec_case(sp):
    f = lambda x: '_' if x is None else str(x)  # noqa: E731
    if sp['t'] == 'H':
        line = 'C13 genspec H %s %s %d %s %d' % (f(sp['slope']), f(sp['inter']), sp['n'], sp['dt'], sp['off'])
    elif sp['t'] == 'T':
        line = 'C13 genspec T %d %s %s' % (sp['n'], sp['dt'], ','.join(map(str, sp['rest'])) if sp['rest'] else '-')
    else:
        line = 'C13 genspec S %d %d' % (1 if sp['shape'] else 0, sp['n'])
    return Case(line, {'op': 'genspec', 'spec': sp, 'stream': 'genspec'}, ('genspec', line), 'genspec')


class _DuckHeader:
    """a header object in the sense of the ArrayProxy docstring (the four methods), with independent None for slope
    and intercept"""

    def __init__(self, sp):
        self.sp = sp

    def get_data_shape(self):
        return (self.sp['n'], 1, 1)

    def get_data_dtype(self):
        return np.dtype(DTS[self.sp['dt']])

    def get_data_offset(self):
        return self.sp['off']

    def get_slope_inter(self):
        f = lambda x: None if x is None else float(x)  # noqa: E731
        return f(self.sp['slope']), f(self.sp['inter'])


def run_spec(sp):
    import nibabel as nib
    from nibabel.arrayproxy import ArrayProxy
    if sp['t'] == 'H':
        both = (sp['slope'] is None) == (sp['inter'] is None)
        if both and sp.get('real', True):
            spec = nib.Nifti1Header()
            spec.set_data_dtype(DTS[sp['dt']])
            spec.set_data_shape((sp['n'], 1, 1))
            spec.set_slope_inter(sp['slope'], sp['inter'])
            spec.set_data_offset(sp['off'])
        else:
            spec = _DuckHeader(sp)
    elif sp['t'] == 'T':
        spec = ((sp['n'], 1, 1), DTS[sp['dt']]) + tuple(float(x) if k else int(x) for k, x in enumerate(sp['rest']))
    else:
        spec = ((sp['n'], 1, 1),) if sp['shape'] else ()
    try:
        pr = ArrayProxy(io.BytesIO(b''), spec)
    except TypeError:
        return 'ERR:TypeError'
    except ValueError:
        return 'ERR:ValueError'
    shape = tuple(pr.shape)
    n = str(shape[0]) if len(shape) == 3 and shape[1:] == (1, 1) else 'shape' + repr(shape).replace(' ', '')
    return 'n=%s dt=%s off=%s slope=%s inter=%s' % (n, DTNAME.get(np.dtype(pr.dtype).newbyteorder('='), str(pr.dtype)),
                                                    _ex(pr.offset), _ex(pr.slope), _ex(pr.inter))


def spec_expected(sp):
    """the ArrayProxy docstring: a tuple of length 2-5 = (shape, dtype[, offset=0[, slope=1.0[, inter=0.0]]]); a header
    object gives the same five values, a missing (None) slope / intercept meaning 1.0 / 0.0; anything else: TypeError"""
    if sp['t'] == 'H':
        vals = [sp['off'], 1 if sp['slope'] is None else sp['slope'], 0 if sp['inter'] is None else sp['inter']]
    elif sp['t'] == 'T' and len(sp['rest']) <= 3:
        vals = list(sp['rest']) + [0, 1, 0][len(sp['rest']):]
    else:
        return 'ERR:TypeError'
    return 'n=%d dt=%s off=%d slope=%d inter=%d' % (sp['n'], sp['dt'], vals[0], vals[1], vals[2])


def spec_cases(rng, tier):
    out = []
    for dt in ('i2', 'f4', 'f8'):
        for sl in (None, 1, 2, -3):
            for it in (None, 0, 5, -2):
                for n, off in ((1, 0), (3, 352)):
                    out.append(mk_spec_case({'t': 'H', 'slope': sl, 'inter': it, 'n': n, 'dt': dt, 'off': off}))
                    if (sl is None) == (it is None):
                        out.append(mk_spec_case({'t': 'H', 'slope': sl, 'inter': it, 'n': n, 'dt': dt, 'off': off,
                                                 'real': False}))
        for k in range(0, 6):
            for _ in range(1 if k == 0 else 6):
                rest = [rng.choice([0, 7, 352])] + [rng.choice([1, 2, -3, 0, 5]) for _ in range(k - 1)] if k else []
                out.append(mk_spec_case({'t': 'T', 'n': rng.choice([1, 3, 4]), 'dt': dt, 'rest': rest}))
    for sh in (False, True):
        out.append(mk_spec_case({'t': 'S', 'shape': sh, 'n': 3}))
    return out


def case_from_data(d):
    if d.get('op') == 'genspec':
        return mk_spec_case(d['spec'])
    return mk_case(d['kind'], d['dt'], tuple(d['scale']) if d.get('scale') is not None else None, d['raw'], d['ops'],
                   d.get('flavour', 'fmap'), d.get('stream', 'main'), d.get('kfo'), d.get('mmap', True),
                   d.get('spell', False), d.get('mode', 'run'), d.get('inject'))


# ------------------------------------------------------------------ implementation side

def _ex(x):
    try:
        xi = int(x)
        if xi == x:
            return str(xi)
    except (ValueError, OverflowError):
        pass
    return repr(float(x))


def _hdr_str(h):
    try:
        s, i = h.get_slope_inter()
        sc = '_,_' if (s is None and i is None) else '%s,%s' % ('_' if s is None else _ex(s), '_' if i is None else _ex(i))
        shape = tuple(h.get_data_shape())
        n = str(shape[0]) if len(shape) == 3 and shape[1:] == (1, 1) else 'shape' + repr(shape).replace(' ', '')
        dt = DTNAME.get(np.dtype(h.get_data_dtype()).newbyteorder('='), str(h.get_data_dtype()))
        return '%s,%s,%s' % (sc, n, dt)
    except Exception as e:  # noqa: BLE001
        return errname(e)


_BYTES = {}


def _file_bytes(dt, scale, raw, fmt='n1'):
    """bytes of a single-file NIfTI-1 with these raw values — written by hand so that no nibabel writing logic is
    involved.  fmt: 'n1' NIfTI-1, 'be' big-endian NIfTI-1, 'n2' NIfTI-2, 'mgh' MGH (always big-endian, no
    scaling), 'ana' Analyze 7.5 (returns header-file bytes + image-file bytes; no scaling)."""
    import nibabel as nib
    k = (dt, scale, tuple(raw), fmt)
    if k not in _BYTES:
        if fmt in ('ana', 'mgh') and not _unscaled(scale):
            raise ValueError('format %s stores no scaling' % fmt)
        hdr = {'n1': nib.Nifti1Header, 'be': (lambda: nib.Nifti1Header(endianness='>')), 'n2': nib.Nifti2Header,
               'mgh': nib.freesurfer.mghformat.MGHHeader, 'ana': nib.AnalyzeHeader}[fmt]()
        hdr.set_data_dtype(DTS[dt])
        hdr.set_data_shape((len(raw), 1, 1))
        if fmt in ('n1', 'be', 'n2'):
            hdr.set_slope_inter(*(scale if scale is not None else (None, None)))
            hdr.set_data_offset(len(hdr.binaryblock) + 4)
        # the header reports the on-disk dtype incl. its byte order
        body = np.array(raw, dtype=hdr.get_data_dtype()).reshape(len(raw), 1, 1).tobytes(order='F')
        if fmt == 'ana':
            _BYTES[k] = (hdr.binaryblock, body)
        elif fmt == 'mgh':
            # the structured array holds header fields and footer; on disk the header is zero-padded to the
            # data offset (284) and the footer follows the data
            nh = hdr._hdrdtype.itemsize
            _BYTES[k] = (hdr.binaryblock[:nh] + b'\0' * (hdr.get_data_offset() - nh) + body + hdr.binaryblock[nh:])
        else:
            _BYTES[k] = hdr.binaryblock + b'\0' * 4 + body
    return _BYTES[k]


_SEQ = itertools.count()


def build(d):
    """-> (img, orig_header, own_array_or_None, file_unchanged_check)"""
    import nibabel as nib
    from nibabel.arrayproxy import ArrayProxy
    dt, raw = d['dt'], d['raw']
    scale = tuple(d['scale']) if d.get('scale') is not None else None
    if d['kind'] == 'A':
        arr = np.array(raw, dtype=DTS[dt]).reshape(len(raw), 1, 1)
        hdr = nib.Nifti1Header()
        hdr.set_data_dtype(DTS[dt])
        hdr.set_data_shape(arr.shape)
        hdr.set_slope_inter(*(scale if scale is not None else (None, None)))
        img = nib.Nifti1Image(arr, None, hdr)
        return img, hdr, arr, (lambda: True), (lambda: None)
    fl = d.get('flavour', 'fmap')
    kw = {}
    if 'kfo' in d or 'mmap' in d:
        kw = {'mmap': d.get('mmap', True), 'keep_file_open': d.get('kfo')}
    if fl in ('be', 'n2', 'mgh', 'ana', 'spm'):
        # other image classes / byte orders, always from a real file given by path
        stem = os.path.join(_tmpdir(), 'c%d_%d' % (os.getpid(), next(_SEQ)))
        if fl in ('ana', 'spm'):
            hb, ib = _file_bytes(dt, scale, raw, 'ana')
            files = {stem + '.hdr': hb, stem + '.img': ib}
            # nib.load picks Spm2AnalyzeImage for a plain Analyze header; AnalyzeImage is asked for explicitly
            img = (nib.AnalyzeImage.from_filename(stem + '.img', **kw) if fl == 'ana'
                   else nib.load(stem + '.img', **kw)) if _write_all(files) else None
            want = nib.AnalyzeImage if fl == 'ana' else nib.spm2analyze.Spm2AnalyzeImage
        else:
            p = stem + ('.mgh' if fl == 'mgh' else '.nii')
            files = {p: _file_bytes(dt, scale, raw, fl)}
            img = nib.load(p, **kw) if _write_all(files) else None
            want = {'be': nib.Nifti1Image, 'n2': nib.Nifti2Image, 'mgh': nib.MGHImage}[fl]
        if type(img) is not want:
            raise RuntimeError('flavour %s loaded as %s' % (fl, type(img).__name__))
        orig = getattr(img, '_load_cache', {}).get('header')
        if orig is None:
            orig = img.header.copy()

        def same_files():
            for q, c in files.items():
                with open(q, 'rb') as f:
                    if f.read() != c:
                        return False
            return True

        def rm_files():
            for q in files:
                os.unlink(q)
        return img, orig, None, same_files, rm_files
    b = _file_bytes(dt, scale, raw)
    b0 = b
    if fl in ('ctorf', 'tuple'):
        # the caller builds the proxy and the image itself and keeps the header object
        orig = nib.Nifti1Header.from_fileobj(io.BytesIO(b))
        if fl == 'ctorf':
            p = os.path.join(_tmpdir(), 'c%d_%d.nii' % (os.getpid(), next(_SEQ)))
            with open(p, 'wb') as f:
                f.write(b)
            img = nib.Nifti1Image(ArrayProxy(p, orig, **kw), None, orig)

            def same_p():
                with open(p, 'rb') as f:
                    return f.read() == b
            return img, orig, None, same_p, (lambda: os.unlink(p))
        bio = io.BytesIO(b)
        # tuple spec of length 3 (slope/inter defaulted by ArrayProxy) or 5
        spec = ((len(raw), 1, 1), np.dtype(DTS[dt]), 352)
        if scale is not None:
            spec = spec + (float(scale[0]), float(scale[1]))
        img = nib.Nifti1Image(ArrayProxy(bio, spec, **kw), None, orig)
        return img, orig, None, (lambda: bio.getvalue() == b), (lambda: None)
    if fl in ('load', 'gz'):
        p = os.path.join(_tmpdir(), 'c%d_%d.nii%s' % (os.getpid(), next(_SEQ), '.gz' if fl == 'gz' else ''))
        if fl == 'gz':
            import gzip
            b = gzip.compress(b, 1, mtime=0)
        with open(p, 'wb') as f:
            f.write(b)
        img = nib.load(p, **kw)

        def same():
            with open(p, 'rb') as f:
                return f.read() == b
        orig = getattr(img, '_load_cache', {}).get('header')
        if orig is None:
            orig = nib.Nifti1Header.from_fileobj(io.BytesIO(b0))
        return img, orig, None, same, (lambda: os.unlink(p))
    bio = io.BytesIO(b)
    if fl == 'fmap':
        fm = nib.Nifti1Image.make_file_map()
        fm['image'].fileobj = bio
        img = nib.Nifti1Image.from_file_map(fm, **kw)
        orig = getattr(img, '_load_cache', {}).get('header')
        if orig is None:
            orig = nib.Nifti1Header.from_fileobj(io.BytesIO(b))
    elif fl == 'pair':
        # two-file NIfTI-1 pair: header and data in separate file objects
        hdr = nib.nifti1.Nifti1PairHeader.from_fileobj(io.BytesIO(b[:348]))
        hdr['magic'] = b'ni1'
        hdr.set_data_offset(0)
        hb, ib = hdr.binaryblock, b[352:]
        hio, bio = io.BytesIO(hb), io.BytesIO(ib)
        fm = nib.Nifti1Pair.make_file_map()
        fm['header'].fileobj, fm['image'].fileobj = hio, bio
        img = nib.Nifti1Pair.from_file_map(fm, **kw)
        orig = getattr(img, '_load_cache', {}).get('header')
        if orig is None:
            orig = nib.nifti1.Nifti1PairHeader.from_fileobj(io.BytesIO(hb))
        return img, orig, None, (lambda: bio.getvalue() == ib and hio.getvalue() == hb), (lambda: None)
    elif fl == 'ctor':
        orig = nib.Nifti1Header.from_fileobj(io.BytesIO(b))
        img = nib.Nifti1Image(ArrayProxy(bio, orig, **kw), None, orig)
    else:
        raise ValueError(fl)
    return img, orig, None, (lambda: bio.getvalue() == b), (lambda: None)


def _write_all(files):
    for q, c in files.items():
        with open(q, 'wb') as f:
            f.write(c)
    return True


def _slice_of(tok):
    return slice(*[None if v == '_' else int(v) for v in tok.split(',')])


def _apply_hedit(h, e):
    if e[0] == 's':
        a, b = e[1:].split(',')
        h.set_slope_inter(int(a), int(b))
    elif e[0] == 'n':
        h.set_data_shape((int(e[1:]), 1, 1))
    elif e[0] == 't':
        h.set_data_dtype(DTS[e[1:]])
    else:
        raise ValueError(e)


CACHING = {'f': 'fill', 'u': 'unchanged', 'x': 'bogus'}
GD = {'4': np.float32, '8': np.float64, 'i': np.int16}
# the same calls written the way users write them: defaults omitted (caching='fill', dtype=np.float64 are the
# documented defaults), positional arguments, dtype given as string / np.dtype
SPELL = {
    'gf8': [lambda im: im.get_fdata(), lambda im: im.get_fdata('fill'), lambda im: im.get_fdata(dtype='float64'),
            lambda im: im.get_fdata('fill', float)],
    'gu8': [lambda im: im.get_fdata('unchanged'), lambda im: im.get_fdata(caching='unchanged'),
            lambda im: im.get_fdata('unchanged', 'f8')],
    'gf4': [lambda im: im.get_fdata(dtype=np.float32), lambda im: im.get_fdata(dtype='float32'),
            lambda im: im.get_fdata('fill', np.dtype('<f4')), lambda im: im.get_fdata(dtype='f4')],
    'gu4': [lambda im: im.get_fdata('unchanged', np.float32), lambda im: im.get_fdata('unchanged', dtype='<f4')],
}


NEUTRAL = ['nd4', 'nd8', 'ndi', 'ng', 'nh', 'nz', 'nq', 'nf', 'na', 'ns', 'nu', 'nb']


def _neutral(img, op):
    """image-level operations that are neither `uncache()` nor a caching read: the cache state must survive them"""
    if op[:2] == 'nd':
        img.set_data_dtype({'4': np.float32, '8': np.float64, 'i': np.int16}[op[2]])
    elif op == 'ng':
        img.get_data_dtype()
    elif op == 'nh':
        try:
            img.header['descrip'] = b'edited'
        except (KeyError, ValueError, AttributeError, IndexError):
            pass
    elif op == 'nz':
        img.header.set_zooms((2.0, 2.0, 2.0))
    elif op == 'nq':
        if hasattr(img, 'set_qform'):
            img.set_qform(np.eye(4))
    elif op == 'nf':
        if hasattr(img, 'set_sform'):
            img.set_sform(np.diag([2.0, 2.0, 2.0, 1.0]))
    elif op == 'na':
        img.affine  # noqa: B018
    elif op == 'ns':
        img.shape  # noqa: B018
    elif op == 'nu':
        img.update_header()
    elif op == 'nb':
        np.asarray(img.dataobj)
    else:
        raise RuntimeError('unknown neutral op ' + op)


def _obs_ops(d):
    return [o for o in d['ops'] if o[0] != 'n']


def run_real(d):
    img, orig, own, same, cleanup = build(d)
    alive, ids, outs, last = [], {}, [], None
    if own is not None:
        alive.append(own)
        ids[id(own)] = 0
    inj = d.get('inject')
    if inj:
        # put the image object into the abstract state: arrays that already exist, caches pointing at any of them
        for dt_, vals, ro in inj['heap']:
            a = np.array(vals, dtype=DTS[dt_]).reshape(len(vals), 1, 1)
            if ro:
                a.flags.writeable = False
            ids[id(a)] = len(alive)
            alive.append(a)
        if inj.get('fc') is not None:
            img._fdata_cache = alive[inj['fc']]
        if inj.get('dc') is not None:
            img._data_cache = alive[inj['dc']]
    try:
        for op in d['ops']:
            r, res = None, '-'
            if op[0] == 'n':
                with warnings.catch_warnings():
                    warnings.simplefilter('ignore')
                    _neutral(img, op)
                continue
            try:
                with warnings.catch_warnings():
                    warnings.simplefilter('ignore')
                    if op[0] == 'g' and d.get('spell') and op in SPELL:
                        r = SPELL[op][len(outs) % len(SPELL[op])](img)
                    elif op == 'df' and d.get('spell'):
                        r = img.get_data()
                    elif op[0] == 'g':
                        r = img.get_fdata(caching=CACHING[op[1]], dtype=GD[op[2]])
                    elif op[0] == 'd':
                        r = img.get_data(caching=CACHING[op[1]])
                    elif op == 'a':
                        r = np.asarray(img.dataobj)
                    elif op[0] == 's':
                        if own is not None:
                            raise RuntimeError('dataobj[slice] on an array image is outside the model')
                        r = img.dataobj[_slice_of(op[1:])]
                    elif op == 'u':
                        img.uncache()
                    elif op == 'm':
                        pass
                    elif op == 'el' or op[0] == 'e':
                        k = last if op == 'el' else int(op[1:])
                        if k is None or k >= len(alive):
                            res = 'noarr'
                        else:
                            try:
                                alive[k] += 1
                            except ValueError:
                                if alive[k].flags.writeable:     # only NumPy's read-only refusal is swallowed
                                    raise
                    elif op[0] == 'h':
                        _apply_hedit(img.header if op[1] == 'i' else orig, op[3:])
                        res = 'H(%s)(%s)' % (_hdr_str(img.header), _hdr_str(orig))
                    else:
                        raise RuntimeError('unknown op ' + op)
            except ValueError:
                res = 'ERR:ValueError'
            if r is not None:
                if not isinstance(r, np.ndarray):
                    res = 'notarray:' + type(r).__name__
                else:
                    if id(r) not in ids:
                        ids[id(r)] = len(alive)
                        alive.append(r)
                    last = ids[id(r)]
                    # byte order is not part of the property's dtype (int16 / float32 / float64)
                    res = '%d:%s:%s:%s' % (last, DTNAME.get(r.dtype.newbyteorder('='), str(r.dtype)),
                                           ','.join(_ex(v) for v in r.ravel(order='F')),
                                           'w' if r.flags.writeable else 'r')
            outs.append(res + ':' + ('T' if img.in_memory else 'F'))
        tail = ' F1' if same() else ' F0'
    finally:
        del alive, img
        cleanup()
    return '|'.join(outs) + tail


def impl(case):
    if case.extra is not None and 'out' in case.extra:
        return case.extra['out']
    if case.data.get('op') == 'genspec':
        return run_spec(case.data['spec'])
    return run_real(case.data)


# ------------------------------------------------------------------ the documented model, evaluated in Python
# Written from doc/source/images_and_memory.rst and the get_fdata/uncache docstrings; independent of the Lean
# files.  Arrays are [identity, dtype, list-of-values] triples (Python lists, so aliasing is Python's own).

class DocModel:
    def __init__(self, d):
        self.n_ids = 0
        self.arrays = []
        scale = d.get('scale')
        self.hdr_orig = [scale[0], scale[1]] if scale is not None else [None, None]
        self.hdr_orig += [len(d['raw']), d['dt']]
        self.hdr_img = [None, None, len(d['raw']), d['dt']]      # image header: a copy, scaling consumed
        if d['kind'] == 'A':
            self.own = self.new(d['dt'], list(d['raw']))
            self.file = None
        else:
            self.own = None
            slope, inter = scale if scale is not None else (1, 0)
            self.file = [v * slope + inter for v in d['raw']]        # frozen when the proxy is made
            self.unscaled = (slope, inter) == (1, 0)
            # mmap='r' on an unscaled uncompressed file: the map itself is handed out, read-only, unless a
            # dtype conversion made a copy
            self.ro_map = _ro_mmap(d)
            # a conversion to the native byte order is a copy too
            self.storage_dt = d['dt'] if d.get('flavour') not in SWAPPED_FLAVOURS else 'swapped-' + d['dt']
            self.file_dt = d['dt'] if self.unscaled else 'f8'
        self.cache = None          # get_fdata cache
        self.legacy = None         # get_data cache
        self.last = None
        inj = d.get('inject')
        if inj:
            for dt_, vals, ro in inj['heap']:
                self.new(dt_, list(vals), bool(ro))
            if inj.get('fc') is not None:
                self.cache = self.arrays[inj['fc']]
            if inj.get('dc') is not None:
                self.legacy = self.arrays[inj['dc']]

    def new(self, dt, vals, ro=False):
        a = [self.n_ids, dt, vals, ro]
        self.n_ids += 1
        self.arrays.append(a)
        return a

    def read(self, dt):
        """what the data source gives: the array itself for an array image asked for its own dtype, otherwise
        a new array with the source's current values"""
        if self.own is not None:
            if dt is None or dt == self.own[1]:
                return self.own
            return self.new(dt, list(self.own[2]))
        ro = getattr(self, 'ro_map', False) and (dt is None or dt == self.storage_dt)
        return self.new(dt or self.file_dt, list(self.file), ro=ro)

    def in_memory(self):
        return self.own is not None or self.cache is not None or self.legacy is not None

    def step(self, op):
        r, res = None, '-'
        if op[0] == 'g':
            if op[1] == 'x' or op[2] == 'i':
                res = 'ERR:ValueError'
            else:
                dt = 'f4' if op[2] == '4' else 'f8'
                if self.cache is not None and self.cache[1] == dt:
                    r = self.cache
                else:
                    r = self.read(dt)
                    if op[1] == 'f':
                        self.cache = r
        elif op[0] == 'd':
            if op[1] == 'x':
                res = 'ERR:ValueError'
            elif self.legacy is not None:
                r = self.legacy
            else:
                r = self.read(None)
                if op[1] == 'f':
                    self.legacy = r
        elif op == 'a':
            r = self.read(None)
        elif op[0] == 's':
            sl = _slice_of(op[1:])
            if sl.step == 0:
                res = 'ERR:ValueError'
            else:
                n = len(self.file)
                full = sl == slice(None) or (sl.stop == n and sl.start in (None, 0) and sl.step in (None, 1))
                # a part of an unscaled file comes back as a read-only buffer; nothing else is read-only
                r = self.new(self.file_dt, list(self.file)[sl], ro=(self.unscaled and not full) or (full and self.ro_map))
        elif op == 'u':
            self.cache = self.legacy = None
        elif op == 'm':
            pass
        elif op == 'el' or op[0] == 'e':
            k = self.last if op == 'el' else int(op[1:])
            if k is None or k >= self.n_ids:
                res = 'noarr'
            else:
                a = self.arrays[k]
                if not a[3]:
                    a[2][:] = [v + 1 for v in a[2]]
        elif op[0] == 'h':
            h = self.hdr_img if op[1] == 'i' else self.hdr_orig
            e = op[3:]
            if e[0] == 's':
                h[0], h[1] = [int(v) for v in e[1:].split(',')]
            elif e[0] == 'n':
                h[2] = int(e[1:])
            else:
                h[3] = e[1:]
            res = 'H(%s)(%s)' % tuple('%s,%s,%d,%s' % ('_' if x[0] is None else x[0], '_' if x[1] is None else x[1],
                                                         x[2], x[3]) for x in (self.hdr_img, self.hdr_orig))
        if r is not None:
            self.last = r[0]
            res = '%d:%s:%s:%s' % (r[0], r[1], ','.join(str(v) for v in r[2]), 'r' if r[3] else 'w')
        return res + ':' + ('T' if self.in_memory() else 'F')


def expected(d):
    m = DocModel(d)
    return [m.step(op) for op in _obs_ops(d)]


def oracle(case, out):
    d = case.data
    if d.get('op') == 'genspec':
        exp = spec_expected(d['spec'])
        if out != exp:
            return 'ArrayProxy(file, spec) for spec %r keeps %s, the documented spec handling gives %s' % (d['spec'], out, exp)
        return None
    exp = expected(d)
    body, _, tail = out.rpartition(' ')
    if not body and not d['ops']:
        body = ''
    got = body.split('|') if body else []
    if tail != 'F1':
        if tail == 'F0':
            return 'the file behind the proxy was modified by the op sequence %s' % ';'.join(d['ops'])
        return 'implementation failed: %s on %s' % (out[:200], ';'.join(d['ops']))
    if len(got) != len(exp):
        return 'implementation produced %d step results for %d ops: %s' % (len(got), len(exp), out[:200])
    for i, (g, e) in enumerate(zip(got, exp)):
        if g != e:
            return ('step %d (%s) of %s on %s image (%s, scale %s, flavour %s)%s: documented model gives %s, '
                    'implementation gives %s  [id:dtype:values:writeable:in_memory]'
                    % (i, _obs_ops(d)[i], ';'.join(d['ops']), 'array' if d['kind'] == 'A' else 'proxy', d['dt'],
                       d.get('scale'), '%s%s' % (d.get('flavour'), (' keep_file_open=%r mmap=%r' % (d.get('kfo'), d.get('mmap', True)))
                                                  if ('kfo' in d or 'mmap' in d) else ''),
                       (' from the injected state %r' % (d['inject'],)) if d.get('inject') else '', e, g))
    return None


def signature(case, what):
    d = case.data
    if d.get('op') == 'genspec':
        return 'c13:proxy-spec:%s' % d['spec']['t']
    exp = expected(d)
    try:
        out = impl(case)
    except Exception as e:  # noqa: BLE001
        return 'c13:%s:crash:%s' % (d['kind'], type(e).__name__)
    if out.startswith('ERR:') and ' ' not in out:      # the whole case raised (no ` F1` tail)
        return 'c13:%s:crash:%s' % (d['kind'], out[4:])
    body, _, tail = out.rpartition(' ')
    got = body.split('|') if body else []
    if tail == 'F0':
        return 'c13:%s:file-modified' % d['kind']
    for i, (g, e) in enumerate(zip(got, exp)):
        if g != e:
            ge, ee = g.split(':'), e.split(':')
            if _obs_ops(d)[i][0] == 'h' and ge[:-1] != ee[:-1]:
                what_ = 'header'
            elif ge[-1] != ee[-1]:
                what_ = 'in_memory'
            elif ge[0] != ee[0]:
                what_ = 'identity'
            elif len(ge) > 2 and len(ee) > 2 and ge[1] != ee[1]:
                what_ = 'dtype'
            elif len(ge) > 4 and len(ee) > 4 and ge[3] != ee[3]:
                what_ = 'writeable'
            else:
                what_ = 'values'
            opk = {'g': 'get_fdata', 'd': 'get_data', 'a': 'read', 's': 'read', 'h': 'hdr'}.get(_obs_ops(d)[i][0], 'other')
            return 'c13:%s:%s:%s' % (d['kind'], opk, what_)
    return 'c13:%s:other' % d['kind']


def shrink_candidates(case):
    d = case.data
    if d.get('op') == 'genspec':
        return
    ops = d['ops']
    scale = tuple(d['scale']) if d.get('scale') is not None else None
    kfo, mm = d.get('kfo'), d.get('mmap', True)
    if d.get('mode', 'run') != 'run':
        # translated-method streams: only drop ops (the injected state and the mode are the point of the case)
        for i in range(len(ops)):
            yield mk_case(d['kind'], d['dt'], scale, d['raw'], ops[:i] + ops[i + 1:], d.get('flavour'), d.get('stream'),
                          kfo, mm, d.get('spell', False), d['mode'], d.get('inject'))
        return
    for i in range(len(ops)):
        yield mk_case(d['kind'], d['dt'], scale, d['raw'], ops[:i] + ops[i + 1:], d.get('flavour'), d.get('stream'),
                      kfo, mm, d.get('spell', False))
    if len(d['raw']) > 2:
        yield mk_case(d['kind'], d['dt'], scale, d['raw'][:2], ops, d.get('flavour'), d.get('stream'), kfo, mm)
    if kfo is not None or mm is not True:
        yield mk_case(d['kind'], d['dt'], scale, d['raw'], ops, d.get('flavour'), d.get('stream'))
        yield mk_case(d['kind'], d['dt'], scale, d['raw'], ops, d.get('flavour'), d.get('stream'), None, mm)
        yield mk_case(d['kind'], d['dt'], scale, d['raw'], ops, d.get('flavour'), d.get('stream'), kfo, True)
    if d.get('flavour') in ('load', 'ctor', 'gz', 'pair'):
        yield mk_case(d['kind'], d['dt'], scale, d['raw'], ops, 'fmap', d.get('stream'), kfo, mm)


# ------------------------------------------------------------------ generators

# (kind, dtype, header scale, raw values, flavour)
CONFIGS = [
    ('A', 'i2', (2, 1), (3, 4, 5), 'array'),
    ('A', 'f4', None, (3, 4, 5), 'array'),
    ('A', 'f8', (1, 0), (3, 4, 5), 'array'),
    ('P', 'i2', (2, 1), (3, 4, 5), 'fmap'),
    ('P', 'f4', (1, 0), (3, 4, 5), 'load'),
    ('P', 'f8', None, (3, 4, 5), 'ctor'),
]
MORE_CONFIGS = [
    ('P', 'i2', None, (-2, 0, 7, 9), 'load'),
    ('P', 'f8', (3, -2), (1, 2), 'fmap'),
    ('P', 'f4', (1, 5), (0, 1, 2), 'ctor'),
    ('P', 'i2', (1, 0), (6,), 'ctor'),
    ('P', 'f8', (1, 0), (3, 4, 5), 'load'),
    ('P', 'i2', (2, 1), (3, 4, 5), 'gz'),
    ('P', 'f4', None, (3, 4, 5), 'gz'),
    ('P', 'i2', (1, 0), (3, 4, 5), 'pair'),
    ('P', 'f8', (2, -1), (3, 4), 'pair'),
    ('A', 'i2', None, (-1, 0, 1, 2), 'array'),
    ('A', 'f8', (3, 5), (7,), 'array'),
]

KFO = [None, True, False]
MMAP = [True, 'c', 'r', False]
# file-backed proxy configurations crossed with every (keep_file_open, mmap) pair in the `io` stream
IO_CONFIGS = [
    ('P', 'f4', (1, 0), (3, 4, 5), 'load'),
    ('P', 'i2', None, (3, 4), 'load'),
    ('P', 'i2', (2, 1), (3, 4, 5), 'load'),
    ('P', 'f8', (1, 0), (3, 4), 'gz'),
    ('P', 'i2', (3, -2), (3, 4), 'gz'),
]
IO_ALPHA = ['gf4', 'gf8', 'gu4', 'gu8', 'a', 'u', 'el', 'e0', 's_,_,_', 's1,_,_', 'df']
IO_ALPHA4 = ['gf4', 'gf8', 'gu8', 'a', 'u', 'el', 's_,_,_', 'df']

# proxies and images the CALLER builds from a header object it keeps (object-level model, constructor `C`)
CTOR_CONFIGS = [
    ('P', 'i2', (2, 1), (3, 4, 5), 'ctorf', None, True),
    ('P', 'i2', (2, 1), (3, 4), 'ctorf', True, 'c'),
    ('P', 'f8', (1, 0), (3, 4), 'ctorf', False, False),
    ('P', 'f4', None, (3, 4), 'ctorf', True, True),
    ('P', 'i2', (2, 1), (3, 4), 'tuple', None, True),
    ('P', 'f4', None, (3, 4, 5), 'tuple', None, True),
]
CTOR_ALPHA = ['gf4', 'gf8', 'gu8', 'a', 'u', 'el', 's1,_,_', 'df', 'ho:s3,5', 'hi:s3,5', 'ho:tf8']
# other image classes / byte orders (Analyze, SPM2 and MGH store no scaling; MGH and `be` are big-endian files)
CLASS_CONFIGS = [
    ('P', 'i2', (2, 1), (3, 4, 5), 'be'),
    ('P', 'f4', None, (3, 4, 5), 'be'),
    ('P', 'f8', (3, -2), (3, 4), 'n2'),
    ('P', 'f4', (1, 0), (3, 4, 5), 'n2'),
    ('P', 'i2', None, (3, 4, 5), 'ana'),
    ('P', 'f8', None, (3, 4), 'spm'),
    ('P', 'f4', None, (3, 4, 5), 'mgh'),
    ('P', 'i2', None, (3, 4), 'mgh'),
]
CLASS_ALPHA = ['gf4', 'gf8', 'gu8', 'a', 'u', 'el', 's_,_,_', 's1,_,_', 'df', 'ho:n2']
SPELL_CONFIGS = [
    ('A', 'f8', None, (3, 4, 5), 'array'),
    ('P', 'i2', (2, 1), (3, 4, 5), 'fmap'),
    ('P', 'f4', (1, 0), (3, 4, 5), 'load'),
]
SPELL_ALPHA = ['gf8', 'gu8', 'gf4', 'gu4', 'df', 'u', 'el', 'a']
# unscaled, uncompressed, memory-mappable files whose storage dtype is a float dtype get_fdata can ask for
MAPPED_CONFIGS = [
    ('P', 'f4', None, (3, 4, 5), 'load'),
    ('P', 'f8', (1, 0), (3, 4), 'load'),
    ('P', 'f8', None, (3, 4, 5), 'ctorf'),
    ('P', 'f4', (1, 0), (3, 4), 'n2'),
    ('P', 'f4', None, (3, 4), 'be'),
]


def history_cases(tier):
    """targeted multi-step histories (stream `histories`):
    * array images: get_fdata(B) -> edit -> get_fdata(A) -> get_fdata(B) for every ordered pair of float dtypes and
      every caching mode, with the edit made through the last result or through the image's own array, with and
      without an uncache / a second edit in between, for int and BOTH float array dtypes (A may be the array's dtype);
    * unscaled memory-mappable files: read -> edit -> (uncache | other-dtype fill | nothing) -> re-read -> edit ->
      uncache -> re-read, the reads being asarray(dataobj), a whole-array slice or get_fdata of the storage dtype /
      the other dtype, for keep_file_open x mmap."""
    out = []
    acfg = [c for c in CONFIGS + MORE_CONFIGS if c[0] == 'A']
    for (kind, dt, scale, raw, fl) in acfg:
        for a, b in (('4', '8'), ('8', '4')):
            for c1, c2, c3 in itertools.product('fu', repeat=3):
                for ed in ('el', 'e0'):
                    for mid in ([], ['u'], ['a', 'el'], ['df']):
                        for tail in ([], ['u', 'g' + c3 + b], ['e0', 'gu' + a]):
                            ops = ['g' + c1 + b, ed] + mid + ['g' + c2 + a, 'g' + c3 + b] + tail
                            out.append(mk_case(kind, dt, scale, raw, ops, fl, 'histories'))
    reads = ['a', 'gf4', 'gf8', 'gu4', 's_,_,_']
    pairs = [(None, True), (True, True), (True, 'c'), (False, 'c'), (True, False), (None, 'r'), (True, 'r')]
    if tier == 'quick':
        pairs = pairs[:3] + pairs[4:6]
    for (kind, dt, scale, raw, fl) in MAPPED_CONFIGS:
        for kfo, mm in pairs:
            for r1 in reads:
                for mid in ([], ['u'], ['gf8'], ['gf4']):
                    for r2 in reads:
                        for r3 in ('gf4', 'gf8', 'a'):
                            ops = [r1, 'el'] + mid + [r2, 'el', 'u', r3]
                            out.append(mk_case(kind, dt, scale, raw, ops, fl, 'histories', kfo, mm))
    return out


# ---- stage T streams: the methods translated from the current source, run by the driver (mode 'gen')
GEN_ALPHA = ['gf4', 'gf8', 'gu4', 'gu8', 'a', 'u', 'el', 'df', 'du', 'm']
GEN_RARE = ['gx4', 'gfi', 'gxi', 'dx', 'e0', 's1,_,_', 'hi:s3,5', 'ho:tf8']
GEN_METHOD_OPS = ['gf4', 'gf8', 'gu4', 'gu8', 'gfi', 'gx8', 'df', 'du', 'dx', 'u', 'm', 'a']
GEN_PROBE = ['gu4', 'gu8', 'du', 'm']
# arrays that exist before the call, besides the own array of an array image
GEN_EXTRA = [('i2', (1, 2), False), ('f4', (5, 6, 7), False), ('f8', (8, 9), True)]
GEN_ST_CONFIGS = [
    ('A', 'i2', (2, 1), (3, 4, 5), 'array'),
    ('A', 'f4', None, (3, 4, 5), 'array'),
    ('A', 'f8', (1, 0), (3, 4), 'array'),
    ('P', 'i2', (2, 1), (3, 4, 5), 'fmap'),
    ('P', 'f4', None, (3, 4), 'fmap'),
    ('P', 'f8', (1, 0), (3, 4, 5), 'load'),
]


def gen_cases(rng, tier):
    """`gen`: op sequences through the translated methods from the constructors' states (same real run as `run`);
    `genst`: ONE method call (+ probes that reveal which array sits in which cache afterwards) from an injected
    abstract state — every combination of {no cache, cache = the own array / an int16 / float32 / read-only float64
    array} for `_fdata_cache` x `_data_cache`, reachable or not, for array and proxy images."""
    out = []
    depth = 3 if tier != 'thorough' else 4
    for (kind, dt, scale, raw, fl) in CONFIGS:
        alpha = GEN_ALPHA if depth == 3 else GEN_ALPHA[:8]
        for ops in itertools.product(alpha, repeat=depth):
            out.append(mk_case(kind, dt, scale, raw, ops, fl, 'gen', mode='gen'))
    for (kind, dt, scale, raw, fl) in CONFIGS + MORE_CONFIGS:
        rr = [o for o in GEN_RARE if not (kind == 'A' and o[0] == 's')]
        for pre in itertools.product(['gf4', 'gf8', 'df', 'u'], repeat=2):
            for o in rr:
                out.append(mk_case(kind, dt, scale, raw, list(pre) + [o, 'gu8', 'du', 'gu4'], fl, 'gen', mode='gen'))
    for (kind, dt, scale, raw, fl) in GEN_ST_CONFIGS:
        n0 = 1 if kind == 'A' else 0
        slots = [None] + list(range(n0 + len(GEN_EXTRA)))
        for fc in slots:
            for dc in slots:
                inj = {'heap': GEN_EXTRA, 'fc': fc, 'dc': dc}
                for o in GEN_METHOD_OPS:
                    out.append(mk_case(kind, dt, scale, raw, [o] + GEN_PROBE, fl, 'genst', mode='gen', inject=inj))
                for _ in range(2 if tier != 'thorough' else 8):
                    ops = [rng.choice(GEN_METHOD_OPS + ['el', 'e%d' % rng.randrange(0, n0 + 4)])
                           for _ in range(rng.choice([2, 3, 5]))]
                    out.append(mk_case(kind, dt, scale, raw, ops + GEN_PROBE, fl, 'genst', mode='gen', inject=inj))
    return out


def neutral_cases(tier):
    """stream `neutral`: fill -> edit -> NEUTRAL image-level op -> re-read / in_memory, every image kind: the cached array
    (identity, the edit) and in_memory must survive img.set_data_dtype / header edits / affine, shape reads /
    update_header / np.asarray(dataobj)"""
    out = []
    cfgs = [(c, None, True) for c in CONFIGS + MORE_CONFIGS + CLASS_CONFIGS] + \
           [(c[:5], c[5], c[6]) for c in CTOR_CONFIGS] + [(IO_CONFIGS[0], True, 'r'), (IO_CONFIGS[1], False, False)]
    for (kind, dt, scale, raw, fl), kfo, mm in cfgs:
        for r1 in ('gf4', 'gf8', 'df'):
            for nop in NEUTRAL:
                if fl == 'mgh' and nop == 'nd8':
                    continue
                for r2 in (['gf4'], ['gf8'], ['gu8', 'gu4'], ['m', 'du']):
                    out.append(mk_case(kind, dt, scale, raw, [r1, 'el', nop] + r2 + ['m', 'gu4', 'gu8'], fl, 'neutral',
                                       kfo, mm))
    return out


CORE = ['gf4', 'gf8', 'gu4', 'gu8', 'a', 'u', 'el']
EXH_A = CORE + ['df', 'e0']
EXH_P = CORE + ['s1,_,_', 'df', 'hi:s3,5', 'ho:s3,5']


def rand_op(rng, kind, nseen):
    r = rng.random()
    if r < 0.34:
        return 'g' + rng.choice('ffffuuuu') + rng.choice('4488')
    if r < 0.37:
        return 'g' + rng.choice('fux') + rng.choice('48i')
    if r < 0.44:
        return 'd' + rng.choice('ffuux')
    if r < 0.52:
        return 'a'
    if r < 0.60:
        if kind == 'P':
            v = [None, None, None, 0, 1, 2, -1, -2, 5]
            st = rng.choice([None, None, 1, 2, -1, -2, 0 if rng.random() < 0.1 else 1])
            f = lambda x: '_' if x is None else str(x)  # noqa: E731
            return 's%s,%s,%s' % (f(rng.choice(v)), f(rng.choice(v)), f(st))
        return 'a'
    if r < 0.68:
        return 'u'
    if r < 0.78:
        return 'el'
    if r < 0.86:
        return 'e%d' % rng.randrange(0, max(1, nseen + 2))
    if r < 0.89:
        return 'm'
    t = rng.choice('io')
    e = rng.choice(['s%d,%d' % (rng.choice([1, 2, 3]), rng.choice([0, 1, 5, -2])), 'n%d' % rng.choice([1, 2, 4]),
                    't' + rng.choice(['i2', 'f4', 'f8'])])
    return 'h%s:%s' % (t, e)


def _parallel_impl(cs):
    """run the real code for many cases in worker processes (results are stashed in case.extra)"""
    import multiprocessing as mp
    n = min(8, os.cpu_count() or 1)
    if len(cs) < 4000 or n < 2:
        return
    datas = [c.data for c in cs]
    _tmpdir()      # created (and registered for removal) in the parent, inherited by the workers
    try:
        ctx = mp.get_context('fork')
        with ctx.Pool(n) as pool:
            outs = pool.map(_safe_run, datas, chunksize=500)
    except Exception:  # noqa: BLE001 — fall back to in-process evaluation
        return
    for c, o in zip(cs, outs):
        c.extra = {'out': o}


def _safe_run(d):
    try:
        if d.get('op') == 'genspec':
            return run_spec(d['spec'])
        return run_real(d)
    except Exception as e:  # noqa: BLE001
        return errname(e)


def cases(rng, tier):
    out = []
    depth = {'quick': 4, 'thorough': 5, 'search': 3}[tier]
    for (kind, dt, scale, raw, fl) in CONFIGS:
        alpha = EXH_A if kind == 'A' else EXH_P
        for ops in itertools.product(alpha, repeat=depth):
            out.append(mk_case(kind, dt, scale, raw, ops, fl, 'exhaustive'))
    # the I/O strategy of the proxy (keep_file_open x mmap) must not matter: exhaustive short sequences for every
    # pair, plus full depth with the file handle kept open over a memory map
    iodepth = {'quick': 3, 'thorough': 4, 'search': 3}[tier]
    for (kind, dt, scale, raw, fl) in IO_CONFIGS:
        for kfo in KFO:
            for mm in MMAP:
                if kfo is None and mm is True:
                    continue
                for ops in itertools.product(IO_ALPHA if iodepth == 3 else IO_ALPHA4, repeat=iodepth):
                    out.append(mk_case(kind, dt, scale, raw, ops, fl, 'io', kfo, mm))
    for ops in itertools.product(EXH_P, repeat=depth):
        out.append(mk_case('P', 'i2', None, (3, 4, 5), ops, 'load', 'exhaustive-kfo', True, True))
    # caller-built proxies and images over a header object the caller keeps and edits (scaling, dtype) between
    # reads; tuple specs of length 3 and 5
    cdepth = {'quick': 3, 'thorough': 4, 'search': 3}[tier]
    for (kind, dt, scale, raw, fl, kfo, mm) in CTOR_CONFIGS:
        for ops in itertools.product(CTOR_ALPHA, repeat=cdepth):
            out.append(mk_case(kind, dt, scale, raw, ops, fl, 'ctor', kfo, mm))
    # other image classes and byte orders
    for (kind, dt, scale, raw, fl) in CLASS_CONFIGS:
        for ops in itertools.product(CLASS_ALPHA, repeat=cdepth):
            out.append(mk_case(kind, dt, scale, raw, ops, fl, 'classes'))
        for kfo, mm in ((True, 'r'), (True, False), (False, 'c')):
            for pre in itertools.product(['gf4', 'gf8', 'a', 's_,_,_', 'df'], repeat=2):
                out.append(mk_case(kind, dt, scale, raw, [pre[0], 'el', pre[1], 'el', 'u', 'gu4', 'gf8', 'a'], fl,
                                   'classes', kfo, mm))
    # the calls as users spell them (defaults omitted, positional, dtype strings)
    for (kind, dt, scale, raw, fl) in SPELL_CONFIGS:
        for ops in itertools.product(SPELL_ALPHA, repeat=cdepth):
            out.append(mk_case(kind, dt, scale, raw, ops, fl, 'spell', spell=True))
    out.extend(history_cases(tier))
    out.extend(gen_cases(rng, tier))
    out.extend(neutral_cases(tier))
    out.extend(spec_cases(rng, tier))
    if tier == 'thorough':
        for (kind, dt, scale, raw, fl) in (CONFIGS[0], CONFIGS[2], CONFIGS[3], CONFIGS[4]):
            alpha = CORE if kind == 'A' else CORE[:6] + ['s1,_,_']
            for ops in itertools.product(alpha, repeat=6):
                out.append(mk_case(kind, dt, scale, raw, ops, fl, 'exhaustive6'))
    # every op of the full alphabet right after each short prefix (depth <= 3 incl. the rare ops)
    rare = ['m', 'du', 'gx4', 'gfi', 'dx', 'hi:n2', 'ho:n2', 'hi:tf8', 'ho:tf8', 'e1', 'e7', 's_,_,0', 's_,_,-1',
            's-2,_,_', 's5,_,_']
    for (kind, dt, scale, raw, fl) in CONFIGS + MORE_CONFIGS:
        alpha = [o for o in (EXH_A if kind == 'A' else EXH_P)]
        rr = [o for o in rare if not (kind == 'A' and o[0] == 's')]
        for pre in itertools.product(['gf4', 'gf8', 'gu8', 'a', 'u', 'el', 'df'], repeat=2):
            for o in rr:
                out.append(mk_case(kind, dt, scale, raw, list(pre) + [o, 'gf8', 'df', 'gu4'], fl, 'rare'))
                out.append(mk_case(kind, dt, scale, raw, [o] + list(pre) + ['gf4'], fl, 'rare'))
        if (kind, dt, scale, raw, fl) in MORE_CONFIGS:
            for ops in itertools.product(alpha, repeat=2):
                out.append(mk_case(kind, dt, scale, raw, list(ops) + ['gf8', 'el', 'gu8', 'gu4'], fl, 'configs'))
    nrand = {'quick': 4000, 'thorough': 60000, 'search': 6000}[tier]
    allcfg = CONFIGS + MORE_CONFIGS
    for _ in range(nrand):
        kind, dt, scale, raw, fl = rng.choice(allcfg)
        if rng.random() < 0.3:
            raw = tuple(rng.randrange(-9, 40) for _ in range(rng.choice([0, 1, 2, 3, 5])))
            if kind == 'P':
                fl = rng.choice(['fmap', 'load', 'ctor', 'gz', 'pair', 'ctorf', 'tuple', 'be', 'n2', 'ana', 'spm', 'mgh'])
                scale = rng.choice([None, (1, 0), (2, 1), (3, -2), (1, 5)])
                if fl in ('ana', 'spm', 'mgh'):
                    scale = None
                    if not raw:               # an empty .img / a zero-length MGH volume is not a loadable image
                        raw = (rng.randrange(-9, 40),)
                    if fl == 'mgh' and dt == 'f8':
                        dt = 'f4'             # MGH stores uint8 / int16 / int32 / float32 only
        n = rng.choice([1, 2, 3, 5, 8, 8, 12, 20, 30])
        ops, seen = [], (1 if kind == 'A' else 0)
        for _ in range(n):
            o = rand_op(rng, kind, seen)
            if fl in ('ana', 'spm', 'mgh') and o[0] == 'h' and o[3] in 'st':
                o = 'h%s:n%d' % (o[1], rng.choice([1, 2, 4]))   # these headers refuse scaling / some dtypes
            if o[0] in 'gdas':
                seen += 1
            ops.append(o)
        kfo, mm = None, True
        if kind == 'P' and rng.random() < 0.6:
            kfo, mm = rng.choice(KFO), rng.choice(MMAP)
        if not any(o[0] == 'h' for o in ops) and rng.random() < 0.3:
            # neutral image-level ops anywhere in the history (not mixed with header-pair observations)
            for _ in range(rng.choice([1, 2, 3])):
                nop = rng.choice(NEUTRAL)
                if fl == 'mgh' and nop == 'nd8':
                    nop = 'nd4'
                ops.insert(rng.randrange(0, len(ops) + 1), nop)
        sp = rng.random() < 0.2
        out.append(mk_case(kind, dt, scale, raw, ops, fl, 'random', kfo, mm, spell=sp))
        if len(out) % 4 == 0:
            out.append(mk_case(kind, dt, scale, raw, ops, fl, 'gen-random', kfo, mm, spell=sp, mode='gen'))
    _parallel_impl(out)
    return out
