"""C08 — a truncated file is never read back as different data.

For files written by every writable class (NIfTI-1/2 single + pair members, Analyze, SPM99, SPM2, MGH/MGZ,
GIFTI, CIFTI-2, TCK, TRK) x {plain, .gz, .bz2, .zst} x mmap {True, False}: load a prefix of the file, touch
the data, classify `X` (exception) | `E` (equal to what was written) | `D` (DIFFERENT: violation) and compare
with the prediction of the Lean model (Model/C08.lean) for the same file layout and cut.
"""
import atexit
import bz2
import gzip
import multiprocessing as mp
import os
import shutil
import struct
import tempfile
import warnings

import numpy as np

from common import Case, LEAN, errname, write_if_changed

PID = 'C08'
LEAN_TARGETS = ['NibabelModel.Props.C08']
THEOREMS = [
    'Nb.C08.volume_prefix',
    'Nb.C08.volume_prefix_plain',
    'Nb.C08.volume_tail_prefix',
    'Nb.C08.segments_prefix',
    'Nb.C08.volume_slice_prefix',
    'Nb.C08.pair_prefix_header',
    'Nb.C08.pair_prefix_image',
    'Nb.C08.pair_ext_prefix',
    'Nb.C08.pair_prefix_header_at',
    'Nb.C08.pair_prefix_image_at',
    'Nb.C08.pair_slice_prefix',
    'Nb.C08.pair_tail_prefix',
    'Nb.C08.single_strict_prefix',
    'Nb.C08.cifti_prefix',
    'Nb.C08.mgh_prefix',
    'Nb.C08.mmap_eq_read',
    'Nb.C08.trk_prefix',
    'Nb.C08.trk_prefix_orig_counterexample',
    'Nb.C08.trk_zero_count_header_cut',
    'Nb.C08.tck_prefix',
    'Nb.C08.tck_header_scan_sound',
    'Nb.C08.tck_data_prefix',
    'Nb.C08.tck_chunked_eq',
    'Nb.C08.tck_prefix_chunked',
    'Nb.C08.tck_prefix_shipped_buffer',
    'Nb.C08.xml_prefix',
    'Nb.C08.xml_driver_prefix',
    'Nb.C08.xml_driver_no_final_counterexample',
    'Nb.C08.volume_prefix_per_read',
    'Nb.C08.pair_prefix_per_read',
    'Nb.C08.segments_prefix_per_read',
    'Nb.C08.codec_lift',
    'Nb.C08.codec_lift_volume',
    'Nb.C08.gen_constants_ok',
    'Nb.C08.tck_any_chunking',
    'Nb.C08.tck_chunkedG_inst',
    'Nb.C08.tck_complete_roundtrip',
    'Nb.C08.trk_prefix_per_read',
    'Nb.C08.trk_per_read_inst',
    'Nb.C08.tck_buffer_size_ok',
    'Nb.C08.tck_shipped_buffer_derived',
    'Nb.C08.header_refusal_total',
    'Nb.C08.load_vs_class_loader',
    'Nb.C08.header_decision_plain',
]
ASSUMPTIONS = [
    'hand-written Lean model of the readers (Model/C08.lean: load/sniff, WrapStruct size check, NIfTI extension '
    'reader, array_from_file read + memmap paths, MGH header/footer, TRK _read_header/_read, TCK '
    '_read_header/_read), tied to the code by the differential correspondence on every generated prefix',
    'the binary header codec of the volume model is our own (data length + offset as little-endian fields); the '
    'real header layouts are C10; the correspondence checks that the model file has the same length and the same '
    'structural boundaries as the real file',
    'decompressors (indexed_gzip / gzip, bz2, pyzstd) enter as a Codec with the prefix contract "a strict prefix of a '
    'compressed stream yields a prefix of the plaintext followed by EOF or an error"; what each truncated stream '
    'delivers (m bytes, strict or not) is MEASURED with the decompressor alone and checked to be a plaintext prefix; '
    'at the few cuts where the measured view depends on the access pattern (stream codec-ambiguous, <0.5% of cases) '
    'only the oracle is applied',
    'expat (ASSUMPTION, not a result): "told that the document is finished while the root end tag is missing, expat '
    'raises" (Expat.Contract). GIFTI / CIFTI-2 XML truncation safety rests on it; xml_prefix merely restates it. What '
    'is proved about the driver: the block loop of ParseFile with its closing final call refuses every strict prefix '
    'for EVERY expat satisfying the contract (xml_driver_prefix); without the final call a contract-satisfying expat '
    'accepts a prefix (xml_driver_no_final_counterexample = seeded change C08_6). The block loop itself is pyexpat '
    '(CPython), nibabel calls parser.ParseFile; CIFTI-2 XML lives in a NIfTI-2 extension and a truncated file never '
    'reaches expat (cifti_prefix uses only the volume model)',
    'end-of-stream behaviour of decompressors: Src fixes it per file object (lax / strict); the volume readers are '
    'additionally proved for a PER-READ decision (ReadsOf: every request independently delivers the available part or '
    'raises, a function of the request (pos, n)): volume_prefix_per_read, pair_prefix_per_read, '
    'segments_prefix_per_read via monotonicity (result = lax result or error). TRK: trk_prefix_per_read (same ReadsOf '
    'contract). TCK: tck_any_chunking under the WEAKER contract ShortReadsOf (every readinto of the data loop may deliver '
    'fewer bytes than available, or raise; the header line scan is line iteration over the available bytes, with an '
    'arbitrary raise). The partial-slice readers are proved for the two pure behaviours only',
    'np.memmap refuses (ValueError) a map longer than the file; OS mmap / page cache are not modelled',
    'nibabel cannot WRITE compressed TCK/TRK (seek in write mode) so tractograms are swept uncompressed only',
    'TCK chunk loop: modelled (tckChunkLoop) and proved equal to the whole-buffer model for every buffer size that is a '
    'positive multiple of 12; the shipped buffer size is MEASURED by regen() (recording file object) AND derived: the '
    'statement `buffer_size += coordinate_size - (buffer_size % coordinate_size)` and `coordinate_size = 3 * itemsize` are '
    'translated from the AST of the working tree (Gen.tckBufAdjust / Gen.tckCoordSize, Python ints as Int; a tiny '
    'expression translator in c08.py, trusted), proved to yield a positive multiple of the coordinate size for every '
    'requested size (tck_buffer_size_ok) and to reproduce the measured value (tck_shipped_buffer_derived); '
    '`int(buffer_size * MEGABYTE)` is evaluated by Python for the default argument; the real loop is run with small '
    'buffers by changing the default of TckFile._read at run time, and over short-reading file objects (tck-shortread)',
    'scaled storage (loader-matrix stream): the expected data are what the COMPLETE file yields through the same entry '
    'point (nib.load picks Spm2AnalyzeImage for an SPM99 pair and scales in float64, the class loader in float32), after '
    'checking against the array handed to the writer within one quantisation step',
    'SPM .mat side-car (scipy.io.loadmat) is swept by the oracle only (it cannot change voxel data)',
    'an exception raised while canonicalising what nibabel RETURNED (e.g. a GIFTI data array without data) is classified '
    'DIFFERENT, not exception',
]
RULE = ('one case = (file spec, member, compression, mode, cut k[, access variant]); mode: volumes mmap=True | mmap=False | '
        'partial read dataobj[..., -1] | multi-segment dataobj[slicer] (fileslice/read_segments); tractograms lazy | eager. '
        'Streams: prefix (every prefix of every small file, plain and compressed; GIFTI .gii/.gii.gz every cut), large, '
        'multi-segment, access (get_fdata / get_fdata(float32) / get_unscaled / np.asarray, keep_file_open, mmap="r", '
        'Class.from_filename, pathlib, pair opened through the other member x big-endian headers, data offset beyond the '
        'minimum for single files AND pairs, 4D, extensions; cut at every structural boundary +-1), multi-segment-more '
        '(pairs: header and image member, CIFTI-2 (oracle only), keep_file_open), tck-chunked (the chunk loop of '
        'TckFile._read run with 12..60-byte buffers: every cut of the data part, lazy/eager/class loader/file '
        'object/.streamlines pass), trk-access (scalars x properties, point-row boundaries of every record +-2). '
        'loader-matrix (every loader entry point: nib.load / Class.from_filename / Class.load / module load / from_file_map / '
        'from_bytes / through the other member x every member file hdr / img / SPM .mat x every header cut and every '
        'structural boundary +-1 incl. zero-length, data stored SCALED in an integer type), tck-shortread (TckFile._read over '
        'a file object whose readintos deliver short or raise, per schedule), trk-raise (file object raising beyond byte T), '
        'hdrtab (header phase of nib.load and of the class loader on every length of a real header: decision table). '
        'Quick thins cuts strictly inside the opaque regions of the 1000-byte TRK header to every 8th. '
        'Thorough: every prefix of several random specs per class. Non-trivial when 0 < k < len; distinct by (format, '
        'shape/streamline layout, compression, member, mode, access, byte order, offset, k).')

warnings.simplefilter('ignore')

VOLS = ('nifti1', 'nifti2', 'nifti1pair', 'nifti2pair', 'analyze', 'spm99', 'spm2', 'mgh', 'cifti2')
PAIRS = ('nifti1pair', 'nifti2pair', 'analyze', 'spm99', 'spm2')
NIFTI = ('nifti1', 'nifti2', 'nifti1pair', 'nifti2pair')

_TMP = None
_FILES = {}      # spec key -> {'files': {member: path}, 'raw': {member: bytes}, 'plain': {member: bytes}, 'expect': bytes}
_CODEC = {}      # (spec key, member, k) -> (m, strict)
_COUNTER = [0]
_SLAB = {}      # spec key -> canonical bytes of arr[..., -1]


def _tmp():
    global _TMP
    if _TMP is None:
        _TMP = tempfile.mkdtemp(prefix='c08_')
        atexit.register(shutil.rmtree, _TMP, ignore_errors=True)
    return _TMP


def _nib():
    import nibabel as nib
    return nib


def klass_of(fmt):
    nib = _nib()
    return {'nifti1': nib.Nifti1Image, 'nifti2': nib.Nifti2Image, 'nifti1pair': nib.Nifti1Pair,
            'nifti2pair': nib.Nifti2Pair, 'analyze': nib.AnalyzeImage, 'spm99': nib.Spm99AnalyzeImage,
            'spm2': nib.Spm2AnalyzeImage, 'mgh': nib.MGHImage, 'cifti2': nib.Cifti2Image}[fmt]


# ------------------------------------------------------------------ writing the complete files

def make_array(spec):
    rs = np.random.RandomState(spec.get('seed', 0))
    shape = tuple(spec['shape'])
    dt = np.dtype(spec['dtype'])
    if spec.get('scaled'):
        # float data stored with a scale factor (and intercept where the format has one) in the integer on-disk
        # type `dtype` — the usual SPM / NIfTI case
        return rs.randint(-1000, 1000, size=shape) * 0.37 + 11.5
    if dt.kind in 'iu':
        info = np.iinfo(dt)
        return rs.randint(max(info.min, -1000), min(info.max, 1000) + 1, size=shape).astype(dt)
    return (rs.randint(-1000, 1000, size=shape) / 8).astype(dt)


def cifti_data(spec):
    rs = np.random.RandomState(spec.get('seed', 0))
    nser, nvert = spec['shape']
    return (rs.randint(-1000, 1000, size=(nser, nvert)) / 8).astype('f4')


def make_streamlines(spec):
    rs = np.random.RandomState(spec.get('seed', 0))
    return [(rs.randint(-400, 400, size=(n, 3)) / 4).astype('f4') for n in spec['npts']]


def canon_arr(a):
    a = np.asarray(a)
    return (str(a.shape) + ':').encode() + np.ascontiguousarray(a, dtype=np.float64).tobytes()


def spec_key(spec):
    return tuple(sorted((k, tuple(v) if isinstance(v, list) else v) for k, v in spec.items()))


def write_files(spec, d):
    """Write the complete file(s) of `spec` into directory `d` with the real writers.
    Returns ({member: path}, canonical bytes of the data that were written)."""
    nib = _nib()
    fmt, comp = spec['fmt'], spec.get('comp', '')
    if fmt in VOLS and fmt != 'cifti2':
        arr = make_array(spec)
        K = klass_of(fmt)
        if spec.get('endian') and fmt != 'mgh':     # header (and so the file) in the stated byte order
            hdr = K.header_class(endianness=spec['endian'])
            hdr.set_data_dtype(arr.dtype)        # (a header passed in decides the on-disk dtype)
            img = K(arr, np.diag([2., 3., 4., 1.]), header=hdr)
        else:
            img = K(arr, np.diag([2., 3., 4., 1.]))
        if spec.get('scaled'):
            img.set_data_dtype(np.dtype(spec['dtype']))
        for i, n in enumerate(spec.get('exts', [])):
            img.header.extensions.append(
                nib.nifti1.Nifti1Extension('comment', bytes((65 + (i + j) % 26) for j in range(n))))
        if spec.get('pad') and fmt != 'mgh':
            # data at a larger-than-minimal offset: `pad` zero bytes between header part and data (single
            # files) / at the start of the image file (pairs)
            base = 0
            if fmt not in PAIRS:
                base = K.header_class.template_dtype.itemsize + 4 + sum(-(-(8 + n) // 16) * 16 for n in spec.get('exts', []))
            img.header.set_data_offset(base + spec['pad'])
        expect = canon_arr(arr)
        _SLAB[spec_key(spec)] = canon_arr(arr[..., -1])
        if fmt == 'mgh':
            p = os.path.join(d, 'f' + ('.mgz' if comp == '.gz' else '.mgh'))
            img.to_filename(p)
            return {'image': p}, expect
        if fmt in PAIRS:
            p = os.path.join(d, 'f.img' + comp)
            img.to_filename(p)
            files = {'image': p, 'header': os.path.join(d, 'f.hdr' + comp)}
            if os.path.exists(os.path.join(d, 'f.mat' + comp)):
                files['mat'] = os.path.join(d, 'f.mat' + comp)      # SPM: affine side-car
            return files, expect
        p = os.path.join(d, 'f.nii' + comp)
        img.to_filename(p)
        return {'image': p}, expect
    if fmt == 'cifti2':
        from nibabel import cifti2 as ci
        nser, nvert = spec['shape']
        bm = ci.BrainModelAxis.from_mask(np.ones(nvert, bool), name='cortex_left')
        ax0 = ci.ScalarAxis(['s%d' % i for i in range(nser)])
        data = cifti_data(spec)
        img = ci.Cifti2Image(data, (ax0, bm))
        p = os.path.join(d, 'f.dscalar.nii')
        img.to_filename(p)
        return {'image': p}, canon_arr(data)
    if fmt == 'gifti':
        from nibabel import gifti as gi
        rs = np.random.RandomState(spec.get('seed', 0))
        nv = spec['nv']
        enc = spec.get('enc', 'GIFTI_ENCODING_B64GZ')
        a0 = (rs.randint(-1000, 1000, size=(nv, 3)) / 8).astype('f4')
        a1 = rs.randint(0, nv, (nv, 3)).astype('i4')
        das = [gi.GiftiDataArray(a0, intent='NIFTI_INTENT_POINTSET', datatype='NIFTI_TYPE_FLOAT32', encoding=enc),
               gi.GiftiDataArray(a1, intent='NIFTI_INTENT_TRIANGLE', datatype='NIFTI_TYPE_INT32', encoding=enc)]
        img = gi.GiftiImage(darrays=das)
        p = os.path.join(d, 'f.gii' + comp)
        img.to_filename(p)
        return {'image': p}, b'|'.join([b'2', canon_arr(a0), canon_arr(a1)])
    if fmt in ('tck', 'trk'):
        from nibabel.streamlines import Tractogram, TckFile, TrkFile
        sls = make_streamlines(spec)
        kw = {}
        out = [b'%d' % len(sls)] + [canon_arr(s) for s in sls]
        _SLAB[spec_key(spec)] = b'|'.join(out)        # the streamlines alone (lazy `.streamlines` pass)
        if fmt == 'trk':
            nsc, npr = spec.get('nsc', 0), spec.get('npr', 0)
            rs = np.random.RandomState(spec.get('seed', 0) + 1)
            if nsc:
                kw['data_per_point'] = {'fa': [(rs.randint(0, 64, (len(s), nsc)) / 8).astype('f4') for s in sls]}
                out += [b'fa'] + [canon_arr(x) for x in kw['data_per_point']['fa']]
            if npr:
                kw['data_per_streamline'] = {'m': [(rs.randint(0, 64, npr) / 8).astype('f4') for s in sls]}
                out += [b'm'] + [canon_arr(x) for x in kw['data_per_streamline']['m']]
        t = Tractogram(sls, affine_to_rasmm=np.eye(4), **kw)
        p = os.path.join(d, 'f.' + fmt)
        (TckFile if fmt == 'tck' else TrkFile)(t).save(p)
        if fmt == 'trk' and spec.get('count0'):
            # header count 0 = "unknown, read to EOF" (format feature; nibabel itself never writes this)
            raw = bytearray(open(p, 'rb').read())
            raw[988:992] = b'\0\0\0\0'
            open(p, 'wb').write(bytes(raw))
        return {'image': p}, b'|'.join(out)
    raise ValueError(fmt)


def decompress(comp, raw):
    if comp == '':
        return raw
    if comp == '.gz':
        return gzip.decompress(raw)
    if comp == '.bz2':
        return bz2.decompress(raw)
    if comp == '.zst':
        import pyzstd
        return pyzstd.decompress(raw)
    raise ValueError(comp)


def files_of(spec):
    key = spec_key(spec)
    ent = _FILES.get(key)
    if ent is None:
        d = tempfile.mkdtemp(dir=_tmp())
        files, expect = write_files(spec, d)
        raw = {m: open(p, 'rb').read() for m, p in files.items()}
        plain = {m: decompress(spec.get('comp', ''), r) for m, r in raw.items()}
        ent = _FILES[key] = {'files': files, 'raw': raw, 'plain': plain, 'expect': expect}
    return ent


# ------------------------------------------------------------------ loading a (truncated) file

def slicer_of(sl):
    return tuple(slice(*i) if isinstance(i, list) else int(i) for i in sl)


def fmt_slicer(sl):
    return ';'.join('s' + ','.join('_' if v is None else str(v) for v in i) if isinstance(i, list) else 'i%d' % i
                    for i in sl)


def other_member(path):
    """the file name of the other member of a pair (`f.img[.gz]` <-> `f.hdr[.gz]`)"""
    d, b = os.path.split(path)
    return os.path.join(d, b.replace('f.img', 'f.HDR').replace('f.hdr', 'f.img').replace('f.HDR', 'f.hdr'))


def read_raw(spec, path, mode, slicer=None, how=''):
    """Load the file at `path` with the real nibabel and read all its data (nibabel calls only): the objects
    nibabel handed back.  `how`: '+'-joined access variants — volumes: fdata | fdata32 | unscaled | asarray
    (what is called to get the array), kfo (keep_file_open=True), mmr (mmap='r' where mmap is on), cls
    (Class.from_filename instead of nib.load), plib (pathlib.Path), cross (pair opened through the other
    member's name); tractograms: cls (TckFile/TrkFile.load), fobj (an open file object), strm (lazy:
    consume `.streamlines` instead of the items), buf<N> (TCK: `_read` buffer of N bytes)."""
    nib = _nib()
    fmt = spec['fmt']
    flags = set(how.split('+')) if how else set()
    if fmt in ('tck', 'trk'):
        import nibabel.streamlines as nst
        K = nst.TckFile if fmt == 'tck' else nst.TrkFile
        restore = None
        for fl in flags:
            if fl.startswith('buf'):
                fn = K._read.__func__
                restore = (fn, fn.__defaults__)
                fn.__defaults__ = ((int(fl[3:]) - 12) / 2 ** 20,)
        fobj = None
        try:
            src = path
            if 'fobj' in flags:
                src = fobj = open(path, 'rb')
            for fl in flags:
                if fl.startswith('sch'):      # short-reading file object (TCK): schedule for the data-loop readintos
                    toks = [t for t in fl[3:].split('.') if t]
                    bsz = [int(x[3:]) for x in flags if x.startswith('buf')][0]
                    raw = open(path, 'rb').read()
                    src = fobj = _SchedFile(raw, toks, sched_off(spec), bsz)
                elif fl.startswith('thr'):    # file object raising on every request that reaches beyond byte T
                    src = fobj = _ThrFile(open(path, 'rb').read(), int(fl[3:]))
            tf = (K.load if 'cls' in flags or fobj is not None else nst.load)(src, lazy_load=bool(mode))
            tr = tf.tractogram
            if mode:
                if 'strm' in flags:
                    return {'lazy': True, 'streamlines': list(tr.streamlines), 'items': None}
                return {'lazy': True, 'items': list(tr)}      # lazy: one pass yields everything
            return {'lazy': False, 'streamlines': list(tr.streamlines),
                    'dpp': {k: list(v) for k, v in tr.data_per_point.items()},
                    'dps': {k: list(v) for k, v in tr.data_per_streamline.items()}}
        finally:
            if restore:
                restore[0].__defaults__ = restore[1]
            if fobj is not None:
                fobj.close()
    if fmt == 'gifti':
        img = nib.load(path)
        return [a.data for a in img.darrays]
    mm = mode in (1, 4)
    if mm and 'mmr' in flags:
        mm = 'r'
    kw = {'mmap': mm}
    if 'kfo' in flags:
        kw['keep_file_open'] = True
    if 'cross' in flags:
        path = other_member(path)
    if 'plib' in flags:
        import pathlib
        path = pathlib.Path(path)
    if fmt == 'cifti2' and not how and mode == 0:
        img = nib.load(path)
    elif 'cls' in flags:
        img = klass_of(fmt).from_filename(path, **kw)
    elif 'kload' in flags:            # Class.load
        img = klass_of(fmt).load(path, **kw)
    elif 'modload' in flags:          # the module-level loader (nib.spm99analyze.load, nib.nifti1.load, ...)
        import importlib
        modload = importlib.import_module(klass_of(fmt).__module__).load
        # nifti1.load / nifti2.load take the file name only (memory mapping on, single file or pair)
        img = modload(path) if fmt in NIFTI else modload(path, **kw)
    elif 'fmap' in flags:             # Class.from_file_map over the file names
        K_ = klass_of(fmt)
        img = K_.from_file_map(K_.filespec_to_file_map(str(path)), **kw)
    elif 'bytes' in flags:            # Class.from_bytes of the (truncated) file content (single files)
        with open(path, 'rb') as f_:
            img = klass_of(fmt).from_bytes(f_.read())
    else:
        img = nib.load(path, **kw)
    if mode == 2:
        return img.dataobj[..., -1]                    # partial read: fileslice -> read_segments
    if mode in (3, 4):
        return img.dataobj[slicer_of(slicer)]          # partial read split into several segments
    if 'fdata' in flags:
        return img.get_fdata()
    if 'fdata32' in flags:
        return img.get_fdata(dtype=np.float32)
    if 'unscaled' in flags:
        return img.dataobj.get_unscaled()
    if 'asarray' in flags:
        return np.asarray(img.dataobj)
    return np.asanyarray(img.dataobj)


class _SchedFile(__import__('io').BytesIO):
    """a file object whose `readinto` may deliver fewer bytes than available: the call at data position
    `off + i * bsz` obeys token i of the schedule (`f` in full, `r` raise, a number: at most that many bytes)"""
    def __init__(self, data, toks, off, bsz):
        super().__init__(data)
        self._toks, self._off, self._bsz = toks, off, bsz

    def readinto(self, b):
        pos = self.tell()
        tok = 'f'
        if pos >= self._off:
            i = (pos - self._off) // self._bsz
            if i < len(self._toks):
                tok = self._toks[i]
        if tok == 'r':
            raise OSError('scheduled failure of the file object')
        if tok == 'f':
            return super().readinto(b)
        return super().readinto(memoryview(b)[:min(len(b), int(tok))])


class _ThrFile(__import__('io').BytesIO):
    """a file object that raises on every request reaching beyond byte T (a decompressor noticing damage)"""
    def __init__(self, data, thr):
        super().__init__(data)
        self._thr = thr

    def read(self, n=-1):
        if n is None or n < 0 or self.tell() + n > self._thr:
            raise OSError('file object refuses to read beyond byte %d' % self._thr)
        return super().read(n)

    def readinto(self, b):
        if self.tell() + len(b) > self._thr:
            raise OSError('file object refuses to read beyond byte %d' % self._thr)
        return super().readinto(b)


def sched_off(spec):
    return tck_layout(spec)['off']


def canon(spec, got):
    """canonical bytes of what `read_raw` returned (our code: a failure here means nibabel handed back
    something that is not the data — classified DIFFERENT, not 'exception')"""
    fmt = spec['fmt']
    if fmt in ('tck', 'trk'):
        if got['lazy']:
            items = got['items']
            if items is None:
                sl = [np.asarray(x) for x in got['streamlines']]
                return b'|'.join([b'%d' % len(sl)] + [canon_arr(x) for x in sl])
            sl = [np.asarray(it.streamline) for it in items]
            out = [b'%d' % len(sl)] + [canon_arr(x) for x in sl]
            if fmt == 'trk':
                for name, get in (('fa', lambda it: it.data_for_points), ('m', lambda it: it.data_for_streamline)):
                    if items and name in get(items[0]):
                        out += [name.encode()] + [canon_arr(get(it)[name]) for it in items]
            return b'|'.join(out)
        sl = [np.asarray(x) for x in got['streamlines']]
        out = [b'%d' % len(sl)] + [canon_arr(x) for x in sl]
        if fmt == 'trk':
            for d_ in (got['dpp'], got['dps']):
                for k in sorted(d_.keys()):
                    out += [k.encode()] + [canon_arr(x) for x in d_[k]]
        return b'|'.join(out)
    if fmt == 'gifti':
        for a in got:
            if not isinstance(a, np.ndarray):
                raise TypeError('darray without data: %r' % type(a))
        return b'|'.join([b'%d' % len(got)] + [canon_arr(a) for a in got])
    if not isinstance(got, np.ndarray):
        raise TypeError('not an array: %r' % type(got))
    return canon_arr(got)


def touch(spec, path, mode, slicer=None, how=''):
    return canon(spec, read_raw(spec, path, mode, slicer, how))


def _classify(spec, path, mode, expect, slicer=None, how=''):
    try:
        got = read_raw(spec, path, mode, slicer, how)
    except Exception as e:  # noqa: BLE001 — any refusal is an acceptable outcome
        return 'X', type(e).__name__
    try:
        c = canon(spec, got)
    except Exception as e:  # noqa: BLE001 — nibabel returned without error, but not the data
        return 'D', 'returned object is not the data: %s' % (repr(e)[:120],)
    return ('E' if c == expect else 'D'), ''


def _worker(conn):
    warnings.simplefilter('ignore')
    while True:
        try:
            msg = conn.recv()
        except EOFError:
            return
        if msg is None:
            return
        conn.send(_classify(*msg))


class _Child:
    """mmap loads of short files run in a child process: a hard crash (SIGBUS/SIGSEGV) is an observable."""
    def __init__(self):
        self.p = None

    def start(self):
        ctx = mp.get_context('fork')
        self.conn, child = ctx.Pipe()
        self.p = ctx.Process(target=_worker, args=(child,), daemon=True)
        self.p.start()
        child.close()

    def run(self, *msg):
        if self.p is None or not self.p.is_alive():
            self.start()
        try:
            self.conn.send(msg)
            if not self.conn.poll(120):
                raise EOFError
            return self.conn.recv()
        except (EOFError, OSError, BrokenPipeError):
            code = self.p.exitcode
            try:
                self.p.kill()
            except Exception:  # noqa: BLE001
                pass
            self.p = None
            return 'CRASH', 'interpreter died (exit code %r)' % (code,)


_CHILD = _Child()


def place(spec, member, k):
    """Directory holding the file(s) of `spec` with `member` cut to its first k bytes; path to load."""
    ent = files_of(spec)
    _COUNTER[0] += 1
    d2 = os.path.join(_tmp(), 't%d' % _COUNTER[0])
    os.mkdir(d2)
    for m, p in ent['files'].items():
        raw = ent['raw'][m]
        with open(os.path.join(d2, os.path.basename(p)), 'wb') as f:
            f.write(raw[:k] if m == member else raw)
    return d2, os.path.join(d2, os.path.basename(ent['files']['image' if member == 'mat' else member]))


def open_codec(path, comp):
    """The decompressing file object alone (same family nibabel's Opener uses), independent of nibabel."""
    if comp == '.gz':
        try:
            from indexed_gzip import IndexedGzipFile
            return IndexedGzipFile(path, drop_handles=True)
        except ImportError:
            return gzip.GzipFile(path, 'rb')
    if comp == '.bz2':
        return bz2.BZ2File(path, 'rb')
    if comp == '.zst':
        import pyzstd
        return pyzstd.ZstdFile(path, 'rb')
    raise ValueError(comp)


def codec_view(path, comp, plain, probes=()):
    """What the truncated compressed file at `path` delivers: (m, strict, contract_ok, consistent).
    lax: reading everything returns m bytes and then EOF; strict: a read of n bytes succeeds iff n <= m.
    `consistent` = the same (m, strict) is observed under several access patterns (one read, two reads,
    seek + read); where a decompressor's behaviour depends on the access pattern the model's
    position-independent Src does not apply and the case is checked by the oracle only."""
    def run(ops):
        """ops: list of ('seek', pos) / ('read', n); returns list of read results or None if anything raised"""
        f = open_codec(path, comp)
        res = []
        try:
            for op, a in ops:
                if op == 'seek':
                    f.seek(a)
                else:
                    res.append(f.read(a))
            return res
        except Exception:  # noqa: BLE001
            return None
        finally:
            try:
                f.close()
            except Exception:  # noqa: BLE001
                pass
    big = len(plain) + 64
    r = run([('read', big)])
    if r is not None:
        data = r[0]
        m = len(data)
        r2 = run([('seek', m // 2), ('read', big)])
        r3 = run([('read', m // 3), ('read', big)])
        cons = r2 == [data[m // 2:]] and r3 == [data[:m // 3], data[m // 3:]]
        for pos, n in probes:      # the seek+read accesses the readers of this file make
            if pos + n <= m:       # (a request reaching beyond the available bytes fails either way)
                cons = cons and run([('seek', pos), ('read', n)]) == [data[pos:pos + n]]
        return m, False, plain.startswith(data), cons
    lo, hi = 0, len(plain)           # largest n with a single read(n) succeeding
    ok = True
    while lo < hi:
        mid = (lo + hi + 1) // 2
        r = run([('read', mid)])
        good = r is not None and len(r[0]) == mid
        if good:
            ok = ok and plain.startswith(r[0])
            lo = mid
        else:
            hi = mid - 1
    m = lo
    want = plain[:m]
    cons = True
    if m:
        cons = (run([('read', m // 4), ('read', m - m // 4)]) == [want[:m // 4], want[m // 4:]]
                and run([('read', m - 1), ('read', 1)]) == [want[:m - 1], want[m - 1:]]
                and run([('seek', m // 2), ('read', m - m // 2)]) == [want[m // 2:]]
                and run([('seek', m - 1), ('read', 1)]) == [want[m - 1:]])
    cons = cons and run([('read', m), ('read', 1)]) is None and run([('seek', m), ('read', 1)]) is None
    for pos, n in probes:
        r = run([('seek', pos), ('read', n)])
        cons = cons and (r == [want[pos:pos + n]] if pos + n <= m else r is None)
    return m, True, ok, cons


# ------------------------------------------------------------------ layout of the real file (independent parse)

def vol_layout(spec):
    """Structural parameters of the real complete file(s), parsed with struct only."""
    ent = files_of(spec)
    fmt = spec['fmt']
    K = klass_of(fmt)
    if fmt == 'mgh':
        from nibabel.freesurfer import mghformat as mg
        raw = ent['plain']['image']
        hs, off = mg.MGHHeader._hdrdtype.itemsize, mg.DATA_OFFSET
        dims = struct.unpack('>4i', raw[4:20])
        tp = struct.unpack('>i', raw[20:24])[0]
        isz = {0: 1, 1: 4, 3: 4, 4: 2}[tp]
        n = dims[0] * dims[1] * dims[2] * dims[3] * isz
        return dict(hs=hs, sniff=0, exts=0, fixed=off, ftr=mg.MGHHeader._ftrdtype.itemsize, e0=0, pl=[],
                    pad=off - hs, n=n, fl=len(raw) - off - n, bounds=[hs, off, off + n, len(raw)], off=off)
    hraw = ent['plain']['header' if fmt in PAIRS else 'image']
    if fmt == 'cifti2':
        hs, sniff = 540, 0
    else:
        hs, sniff = K.header_class.template_dtype.itemsize, K._meta_sniff_len
    two = fmt in ('nifti2', 'nifti2pair', 'cifti2')
    en = spec.get('endian', '<')
    if two:
        dim = struct.unpack(en + '8q', hraw[16:80])
        bitpix = struct.unpack(en + 'h', hraw[14:16])[0]
        voxoff = struct.unpack(en + 'q', hraw[168:176])[0]
    else:
        dim = struct.unpack(en + '8h', hraw[40:56])
        bitpix = struct.unpack(en + 'h', hraw[72:74])[0]
        voxoff = int(struct.unpack(en + 'f', hraw[108:112])[0])
    assert 1 <= dim[0] <= 7, (en, dim)
    n = bitpix // 8
    for x in dim[1:1 + dim[0]]:
        n *= x
    exts = 1 if fmt in NIFTI + ('cifti2',) else 0
    if exts and len(hraw) <= hs:
        exts = 0        # a NIfTI pair header without extensions is written without the 4-byte extender
    e0, pl, bounds = 0, [], [hs]
    pos = hs
    if exts:
        e0 = hraw[hs]
        pos = hs + 4
        bounds.append(pos)
        end = len(hraw) if fmt in PAIRS else voxoff
        while e0 and pos + 8 <= end:
            esize = struct.unpack(en + 'i', hraw[pos:pos + 4])[0]
            if esize == 0:
                break
            pl.append(esize - 8)
            bounds += [pos + 8, pos + esize]
            pos += esize
    if fmt in PAIRS:
        pad = voxoff              # data offset inside the image file
        assert pos == len(hraw) and len(ent['plain']['image']) == voxoff + n, (voxoff, pos, len(hraw))
        if voxoff:
            bounds += [voxoff, voxoff + n]
    else:
        pad = voxoff - pos
        bounds += [voxoff, voxoff + n]
    return dict(hs=hs, sniff=sniff, exts=exts, fixed=None, ftr=0, e0=e0, pl=pl, pad=pad, n=n, fl=0, bounds=bounds,
                off=voxoff)


def tck_layout(spec):
    raw = files_of(spec)['plain']['image']
    head, _, _ = raw.partition(b'\nEND\n')
    lines = head.split(b'\n')
    assert lines[0] == b'mrtrix tracks' and lines[-1].startswith(b'file: . ')
    off = int(lines[-1].split()[-1])
    bounds = [13, 14, off - 5, off - 1, off]
    p = off
    for n in spec['npts']:
        p += 12 * (n + 1)
        bounds.append(p)
    return dict(lines=[l.hex() for l in lines[1:-1]], off=off, bounds=bounds + [len(raw)])


def trk_layout(spec):
    raw = files_of(spec)['plain']['image']
    nsc, npr = spec.get('nsc', 0), spec.get('npr', 0)
    bounds = [36, 238, 988, 992, 996, 1000]
    p = 1000
    for n in spec['npts']:
        bounds.append(p + 4)
        bounds += [p + 4 + j * (3 + nsc) * 4 for j in range(1, n + 1)]      # point-row boundaries
        p += 4 + n * (3 + nsc) * 4 + npr * 4
        bounds.append(p)
    assert p == len(raw), (p, len(raw))
    return dict(bounds=bounds)


def xml_layout(spec):
    raw = files_of(spec)['plain']['image']
    tag = b'</GIFTI>'
    return dict(root_end=raw.rindex(tag) + len(tag), bounds=[raw.index(b'<GIFTI'), raw.rindex(tag), len(raw)])


# ------------------------------------------------------------------ cases

def mk_case(spec, member, mode, k, stream='prefix', slicer=None, how=''):
    """`mode`: volumes 1 mmap / 0 read / 2 tail read / 3,4 multi-segment partial read `dataobj[slicer]`
    (mmap False / True); tractograms 1 lazy / 0 eager (ignored for GIFTI/CIFTI-2)."""
    ent = files_of(spec)
    fmt, comp = spec['fmt'], spec.get('comp', '')
    total = len(ent['raw'][member])
    k = min(k, total)
    plain = ent['plain'][member]
    mode = int(mode)
    data = {'spec': spec, 'member': member, 'mode': mode, 'k': k, 'stream': stream}
    if slicer is not None:
        data['slicer'] = slicer
    if how:
        data['how'] = how
    extra = {}
    if comp:
        ck = (spec_key(spec), member, k)
        if ck not in _CODEC:
            d2, path = place(spec, member, k)
            try:
                probes = []
                if fmt in VOLS and member == 'image':
                    L0 = vol_layout(spec)
                    off, n = L0['off'], L0['n']
                    probes = [(off, n), (off + n - n // spec['shape'][-1], n // spec['shape'][-1])]
                    probes += [(o, e - o) for o, e in slice_runs(spec, L0['off'])]
                _CODEC[ck] = ((len(plain), False, True, True) if k == total
                              else codec_view(path, comp, plain, probes))
            finally:
                shutil.rmtree(d2, ignore_errors=True)
        m, strict, contract, consistent = _CODEC[ck]
        extra['codec_contract'] = contract
        if not consistent:
            stream = 'codec-ambiguous'
    else:
        m, strict = k, False
    st = int(strict)
    if fmt in VOLS:
        L = vol_layout(spec)
        if fmt != 'cifti2':
            assert L['n'] == int(np.prod(spec['shape'])) * np.dtype(spec['dtype']).itemsize, (spec, L['n'])
        mem = 'single' if fmt not in PAIRS else ('hdr' if member == 'header' else 'img')
        if fmt == 'cifti2':
            mem = 'cifti'
        fixed = '_' if L['fixed'] is None else str(L['fixed'])
        pl = ','.join(map(str, L['pl'])) or '-'
        mm = int(mode == 1) if (fmt != 'cifti2' or how) else 1
        tail = '_'
        if mode == 2:
            tail = str(L['n'] - L['n'] // spec['shape'][-1])
        elif mode in (3, 4) and fmt != 'cifti2':
            isz = np.dtype(spec['dtype']).itemsize
            tail = f"s:{isz}:{','.join(map(str, spec['shape']))}:{fmt_slicer(slicer)}"
        # Class.from_filename / Class.load / module load / from_file_map / from_bytes do not go through
        # nib.load(): no sniff of the header file
        sniff = 0 if set(how.split('+')) & CLASS_ENTRY else L['sniff']
        line = (f"C08 vol {L['hs']} {sniff} {L['exts']} {fixed} {L['ftr']} {mem} {L['e0']} {pl} {L['pad']} "
                f"{L['n']} {L['fl']} {mm} {int(bool(comp))} {tail} {k} {m} {st}")
    elif fmt == 'trk':
        npts = ','.join(map(str, spec['npts'])) or '-'
        cnt = '0' if spec.get('count0') else '_'
        line = f"C08 trk {spec.get('nsc', 0)} {spec.get('npr', 0)} {npts} {cnt} 0 {k} {m} {st}"
        for fl in how.split('+'):
            if fl.startswith('thr'):       # the reader over a file object raising beyond byte T
                line = f"C08 trkg {spec.get('nsc', 0)} {spec.get('npr', 0)} {npts} {k} {m} {int(fl[3:])}"
    elif fmt == 'tck':
        L = tck_layout(spec)
        npts = ','.join(map(str, spec['npts'])) or '-'
        line = f"C08 tck {','.join(L['lines']) or '-'} {npts} {k} {m} {st}"
        for fl in how.split('+'):
            if fl.startswith('buf'):       # the chunked loop of `_read` with this buffer size
                line = f"C08 tckb {int(fl[3:])} {','.join(L['lines']) or '-'} {npts} {k} {m} {st}"
        for fl in how.split('+'):
            if fl.startswith('sch'):       # `_read` over a short-reading file object
                bsz = [int(x[3:]) for x in how.split('+') if x.startswith('buf')][0]
                sched = ','.join(t for t in fl[3:].split('.') if t) or '-'
                line = f"C08 tckg {bsz} {','.join(L['lines']) or '-'} {npts} {k} {m} {sched}"
    elif fmt == 'gifti':
        L = xml_layout(spec)
        line = f"C08 xml {len(plain)} {L['root_end']} {k} {m} {st}"
    else:
        raise ValueError(fmt)
    shape_key = tuple(spec.get('shape', spec.get('npts', [spec.get('nv', 0)])))
    key = None if k in (0, total) else (fmt, shape_key, spec.get('dtype'), tuple(spec.get('exts', [])), comp,
                                        spec.get('nsc', 0), spec.get('npr', 0), member, mode, k,
                                        fmt_slicer(slicer) if slicer is not None else None, how,
                                        spec.get('endian'), spec.get('pad'), spec.get('scaled'))
    if member == 'mat':
        line = None       # SPM affine side-car (scipy.io.loadmat): never touches the voxel data — oracle only
    if fmt == 'cifti2' and mode in (3, 4):
        line = None       # partial reads of CIFTI-2: oracle only (same ArrayProxy/fileslice code as NIfTI-2)
    if stream == 'codec-ambiguous':
        line = None       # the decompressor's view depends on the access pattern here: oracle only
    return Case(line, data, key, stream, extra)


CLASS_ENTRY = {'cls', 'kload', 'modload', 'fmap', 'bytes'}
_SCALED = {}


def scaled_expect(spec, mode, how):
    """Scaled storage is lossy: 'the data written' are the quantised values in the file.  Expected = what the
    COMPLETE file gives through the same access path, after checking (independently of the reader's scaling code
    path: only a tolerance of one quantisation step) that this is the array handed to the writer."""
    # (the entry point matters: nib.load picks Spm2AnalyzeImage for an SPM99 pair and scales in float64, the
    #  Spm99 class loader in float32)
    datahow = how
    key = (spec_key(spec), mode, datahow)
    if key not in _SCALED:
        ent = files_of(spec)
        arr = make_array(spec)
        try:
            got = read_raw(spec, ent['files']['image'], mode, None, datahow)
            info = np.iinfo(np.dtype(spec['dtype']))
            step = (arr.max() - arr.min()) / (int(info.max) - int(info.min)) * 1.01 + 1e-3
            ok = got.shape == arr.shape and ('unscaled' in datahow.split('+') or np.allclose(got, arr, rtol=1e-5, atol=step))
            _SCALED[key] = canon_arr(got) if ok else b'COMPLETE FILE DOES NOT HOLD THE DATA WRITTEN'
        except Exception as e:  # noqa: BLE001
            _SCALED[key] = b'COMPLETE FILE UNREADABLE ' + repr(e).encode()
    return _SCALED[key]


def mk_hdrtab(fmt, n, stream='hdrtab'):
    """header phase of nib.load (sniff) and of the class loader on the first `n` bytes of a real header file of an
    extension-less class: accept / refuse, against the model's decision table"""
    spec = {'fmt': fmt, 'shape': [2, 2, 2], 'dtype': 'int16', 'seed': 1}
    L = vol_layout(spec)
    fixed = '_' if L['fixed'] is None else str(L['fixed'])
    line = f"C08 hdrtab {L['hs']} {L['sniff']} 0 {fixed} {L['ftr']} {n} 0"
    return Case(line, {'op': 'hdrtab', 'fmt': fmt, 'n': n, 'stream': stream}, ('hdrtab', fmt, n), stream, {})


def impl_hdrtab(case):
    d = case.data
    fmt, n = d['fmt'], d['n']
    spec = {'fmt': fmt, 'shape': [2, 2, 2], 'dtype': 'int16', 'seed': 1}
    ent = files_of(spec)
    member = 'header' if fmt in PAIRS else 'image'
    K = klass_of(fmt)
    _COUNTER[0] += 1
    d2 = os.path.join(_tmp(), 't%d' % _COUNTER[0])
    os.mkdir(d2)
    try:
        path = os.path.join(d2, os.path.basename(ent['files'][member]))
        with open(path, 'wb') as f:
            f.write(ent['raw'][member][:n])
        try:
            with open(path, 'rb') as f:
                K.header_class.from_fileobj(f)
            cls = 'K'
        except Exception:  # noqa: BLE001
            cls = 'X'
        try:
            maybe = K.path_maybe_image(path)[0]
        except Exception:  # noqa: BLE001
            maybe = False
        ld = 'K' if (maybe and cls == 'K') else 'X'
    finally:
        shutil.rmtree(d2, ignore_errors=True)
    hs = K.header_class.template_dtype.itemsize if fmt != 'mgh' else K.header_class._hdrdtype.itemsize
    case.extra = dict(case.extra or {}, hs=hs)
    return f"{ld} {cls} {int(n < hs or n < K._meta_sniff_len)}"


def case_from_data(d):
    if d.get('op') == 'hdrtab':
        return mk_hdrtab(d['fmt'], d['n'], d.get('stream', 'hdrtab'))
    return mk_case(d['spec'], d['member'], d['mode'], d['k'], d.get('stream', 'prefix'), d.get('slicer'),
                   d.get('how', ''))


SLICERS = [[[None, None, None], 1], [[None, None, None], [None, None, 2]],
           [[None, None, None], [None, None, None], [None, None, 2]], [[None, None, None], [1, None, None], 2],
           [[None, None, None], -1, [None, None, -1]], [[5, 70, None], [None, None, None], [None, None, 2]]]


def slice_runs(spec, off, slicers=None):
    """Byte ranges [start, end) of the file that hold the elements selected by the SLICERS (independent of
    fileslice: element numbers through NumPy indexing of an F-ordered arange), merged into runs."""
    shape = tuple(spec['shape'])
    if shape[0] < 64 or (slicers is None and len(shape) != 3):
        return []
    isz = np.dtype(spec.get('dtype', 'float32')).itemsize
    full = np.arange(int(np.prod(shape))).reshape(shape, order='F')
    out = []
    for sl in (slicers or SLICERS):
        el = np.sort(np.asarray(full[slicer_of(sl)]).ravel())
        if not len(el):
            continue
        start = prev = int(el[0])
        for e in el[1:]:
            e = int(e)
            if e != prev + 1:
                out.append((off + start * isz, off + (prev + 1) * isz))
                start = e
            prev = e
        out.append((off + start * isz, off + (prev + 1) * isz))
    return sorted(set(out))


def impl(case):
    d = case.data
    if d.get('op') == 'hdrtab':
        return impl_hdrtab(case)
    spec, member, mode, k = d['spec'], d['member'], d['mode'], d['k']
    how = d.get('how', '')
    ent = files_of(spec)
    d2, path = place(spec, member, k)
    try:
        in_child = mode == 1 and spec['fmt'] in VOLS and not spec.get('comp')
        expect = _SLAB[spec_key(spec)] if mode == 2 else ent['expect']
        if mode in (3, 4):
            full = cifti_data(spec) if spec['fmt'] == 'cifti2' else make_array(spec)
            expect = canon_arr(full[slicer_of(d['slicer'])])
        if spec['fmt'] in ('tck', 'trk') and 'strm' in how.split('+'):
            expect = _SLAB[spec_key(spec)]
        if spec.get('scaled'):
            expect = scaled_expect(spec, mode, how)
        if in_child:
            cls, err = _CHILD.run(spec, path, mode, expect, None, how)
        else:
            cls, err = _classify(spec, path, mode, expect, d.get('slicer'), how)
    finally:
        shutil.rmtree(d2, ignore_errors=True)
    case.extra = dict(case.extra or {}, err=err, total=len(ent['raw'][member]))
    return f"{cls} {len(ent['plain'][member])}"


def oracle(case, out):
    d = case.data
    if d.get('op') == 'hdrtab':
        hs = (case.extra or {}).get('hs')
        toks = out.split(' ')
        if hs is not None and d['n'] < hs and 'K' in toks[:2]:
            return (f"a header file of {d['n']} bytes — shorter than the {hs}-byte binary block of {d['fmt']} — was accepted "
                    f"(nib.load phase {toks[0]}, class loader {toks[1]})")
        return None
    spec, k = d['spec'], d['k']
    total = (case.extra or {}).get('total')
    if total is None:
        total = len(files_of(spec)['raw'][d['member']])
    what = f"{spec['fmt']}{spec.get('comp', '')} member={d['member']} mode={d['mode']} cut at {k} of {total} bytes"
    if d.get('slicer') is not None:
        what += f" partial read dataobj[{fmt_slicer(d['slicer'])}] of shape {spec['shape']} {spec.get('dtype')}"
    if d.get('how'):
        what += f" access={d['how']}"
    if cls_err := (case.extra or {}).get('err'):
        if 'not the data' in cls_err:
            what += f" ({cls_err})"
    if (case.extra or {}).get('codec_contract') is False:
        return f'decompressor delivered bytes that are not a prefix of the plaintext: {what}'
    cls = out.split(' ')[0]
    if cls == 'CRASH':
        return f'interpreter crashed while loading a truncated file: {what}: {(case.extra or {}).get("err")}'
    hostile = False
    for fl in (d.get('how') or '').split('+'):
        if fl.startswith('sch') and any(t != 'f' for t in fl[3:].split('.') if t):
            hostile = True      # the FILE OBJECT delivers short reads / raises: the complete file may be refused
        if fl.startswith('thr') and int(fl[3:]) < total:
            hostile = True
    if k == total and not hostile:
        if cls != 'E':
            return f'the COMPLETE file does not read back as the data written ({cls} {(case.extra or {}).get("err")}): {what}'
        return None
    if spec.get('count0'):
        return None   # header count 0 = "read to EOF" by format design; never written by nibabel (correspondence only)
    if cls == 'D':
        return f'truncated file read back as DIFFERENT data without any error: {what}'
    if cls not in ('X', 'E'):
        return f'unexpected outcome {out!r}: {what}'
    return None


def signature(case, what):
    d = case.data
    if d.get('op') == 'hdrtab':
        return f"{d['fmt']}:short-header-accepted"
    spec, k = d['spec'], d['k']
    fmt = spec['fmt']
    if 'crashed' in what:
        return f'{fmt}:crash'
    if 'COMPLETE' in what:
        return f'{fmt}:complete-file'
    if fmt == 'trk':
        try:
            b = trk_layout(spec)['bounds']
            if k >= 1000 and k in b:
                return 'trk:cut-at-record-boundary'
            return 'trk:cut-in-header' if k < 1000 else 'trk:cut-inside-record'
        except Exception:  # noqa: BLE001
            return 'trk:other'
    if d.get('slicer') is not None:
        return f"{fmt}{spec.get('comp', '')}:{d['member']}:partial-read-different"
    return f"{fmt}{spec.get('comp', '')}:{d['member']}:different"


def shrink_candidates(case):
    try:
        yield from _shrink_candidates(case)
    except Exception:  # noqa: BLE001 — a candidate that cannot be built is just not a candidate
        return


def _shrink_candidates(case):
    d = case.data
    if d.get('op') == 'hdrtab':
        return
    spec = dict(d['spec'])
    if spec['fmt'] in ('tck', 'trk') and len(spec['npts']) > 1:
        for i in range(len(spec['npts'])):
            s2 = dict(spec, npts=spec['npts'][:i] + spec['npts'][i + 1:])
            for k in (d['k'], d['k'] - 12 * (spec['npts'][i] + 1), d['k'] - 4 - 12 * spec['npts'][i]):
                if k >= 0:
                    yield mk_case(s2, d['member'], d['mode'], k, d.get('stream', 'prefix'))
    if spec.get('exts'):
        s2 = dict(spec, exts=[])
        yield mk_case(s2, d['member'], d['mode'], d['k'], d.get('stream', 'prefix'))
        yield mk_case(s2, d['member'], d['mode'], max(0, d['k'] - 16), d.get('stream', 'prefix'))


# ------------------------------------------------------------------ generators

def compressions(fmt):
    if fmt == 'mgh':
        return ['', '.gz']
    if fmt in ('cifti2', 'tck', 'trk'):
        return ['']
    if fmt == 'gifti':
        return ['', '.gz', '.bz2']
    try:
        import pyzstd  # noqa: F401
        return ['', '.gz', '.bz2', '.zst']
    except ImportError:
        return ['', '.gz', '.bz2']


def rand_spec(rng, fmt, i):
    seed = rng.randrange(1, 10 ** 6)
    if fmt in VOLS and fmt != 'cifti2':
        shape = rng.choice([[2, 2, 2], [2, 2, 2], [3, 2, 1], [2, 3, 2], [1, 1, 5], [2, 2, 2, 2]])
        if fmt == 'mgh':
            dtype = rng.choice(['int16', 'uint8', 'float32', 'int32'])
        elif fmt == 'analyze' or fmt.startswith('spm'):
            dtype = rng.choice(['int16', 'uint8', 'float32', 'int32'])
        else:
            dtype = rng.choice(['int16', 'uint8', 'float32', 'int32', 'uint16'])
        s = {'fmt': fmt, 'shape': shape, 'dtype': dtype, 'seed': seed}
        if fmt in NIFTI:
            s['exts'] = rng.choice([[], [5], [5], [3, 20], [24]]) if i else [5]
        return s
    if fmt == 'cifti2':
        return {'fmt': fmt, 'shape': [rng.choice([1, 2]), rng.choice([2, 3])], 'seed': seed}
    if fmt == 'gifti':
        return {'fmt': fmt, 'nv': rng.choice([2, 3]), 'seed': seed,
                'enc': rng.choice(['GIFTI_ENCODING_B64GZ', 'GIFTI_ENCODING_B64BIN', 'GIFTI_ENCODING_ASCII'])}
    if fmt == 'tck':
        return {'fmt': fmt, 'npts': [rng.choice([1, 2, 3]) for _ in range(rng.choice([1, 2, 3, 3]))], 'seed': seed}
    if fmt == 'trk':
        s = {'fmt': fmt, 'npts': [rng.choice([1, 2, 3]) for _ in range(rng.choice([1, 2, 3, 3]))], 'seed': seed}
        if i % 2:
            s['nsc'], s['npr'] = rng.choice([0, 1, 2]), rng.choice([0, 1, 2])
        return s
    raise ValueError(fmt)


def members_of(fmt):
    return ['image', 'header'] if fmt in PAIRS else ['image']


def modes_of(fmt):
    """volumes: 1 = mmap, 0 = read, 2 = partial read `dataobj[..., -1]` (fileslice / read_segments);
    tractograms: 1 = lazy_load, 0 = eager"""
    if fmt in ('gifti', 'cifti2'):
        return [0]
    if fmt in ('tck', 'trk'):
        return [1, 0]
    return [1, 0, 2]


def bounds_of(spec):
    fmt = spec['fmt']
    if fmt in VOLS:
        return vol_layout(spec)['bounds']
    if fmt == 'tck':
        return tck_layout(spec)['bounds']
    if fmt == 'trk':
        return trk_layout(spec)['bounds']
    return xml_layout(spec)['bounds']


def sweep(rng, spec, every, nsample, out, stream='prefix', skip_modes=(), thin_trk_header=False):
    fmt = spec['fmt']
    ent = files_of(spec)
    for member in members_of(fmt):
        total = len(ent['raw'][member])
        if every:
            ks = range(total + 1)
        else:
            ks = {0, 1, 2, 3, total, total - 1, total - 2, total - 8, total - 9, total - 10}
            if not spec.get('comp'):
                for b in bounds_of(spec):
                    ks.update(range(b - 2, b + 3))
            ks.update(rng.randrange(0, total + 1) for _ in range(nsample))
            ks = sorted(k for k in ks if 0 <= k <= total)
        if thin_trk_header and fmt == 'trk':
            # quick tier: `_read_header` fetches the 1000-byte TRK header with ONE readinto and looks at five fields;
            # cuts strictly inside the opaque regions are thinned to every 8th (+ every field boundary +-2)
            near = {k for b in bounds_of(spec) for k in range(b - 2, b + 3)}
            ks = [k for k in ks if k >= 986 or k % 8 == 0 or k in near or k < 4]
        for mode in modes_of(fmt):
            if mode in skip_modes:
                continue
            for k in ks:
                out.append(mk_case(spec, member, mode, k, stream))


CORPUS_TRK = {'fmt': 'trk', 'npts': [2, 3, 1], 'seed': 8}


def cases(rng, tier):
    out = []
    nvar = {'quick': 1, 'thorough': 4, 'search': 2}[tier]
    fmts = ['nifti1', 'nifti2', 'nifti1pair', 'nifti2pair', 'analyze', 'spm99', 'spm2', 'mgh', 'cifti2', 'gifti',
            'tck', 'trk']
    for fmt in fmts:
        for i in range(nvar + (1 if fmt == 'trk' else 0)):
            base = rand_spec(rng, fmt, i)
            for comp in compressions(fmt):
                if tier == 'quick' and fmt in ('nifti2pair', 'spm99', 'spm2') and comp in ('.bz2', '.zst'):
                    continue           # quick: the same reader path is swept through nifti1pair / analyze
                spec = dict(base, comp=comp) if comp else dict(base)
                big = fmt == 'cifti2' or (fmt == 'gifti' and comp not in ('', '.gz'))
                every = tier == 'thorough' or not (big and tier == 'quick')
                skip = (2,) if tier == 'quick' and fmt in ('nifti2pair', 'spm99', 'spm2') else ()
                sweep(rng, spec, every, 200, out, skip_modes=skip, thin_trk_header=(tier == 'quick'))
    # TRK: empty tractogram (header-only file; 998/999-byte prefixes load as the same empty tractogram)
    sweep(rng, {'fmt': 'trk', 'npts': [], 'seed': 1}, True, 0, out, 'trk-empty', thin_trk_header=(tier == 'quick'))
    # TRK: header count 0 = unknown (correspondence only; D is the documented behaviour)
    sweep(rng, {'fmt': 'trk', 'npts': [2, 1, 2], 'seed': 2, 'count0': 1}, tier != 'quick', 150, out, 'trk-count0')
    # TCK: empty tractogram
    sweep(rng, {'fmt': 'tck', 'npts': [], 'seed': 1}, True, 0, out, 'tck-empty')
    # a larger image (plaintext > 1024 bytes: the sniff of a strict stream can succeed)
    for fmt, comp in [('nifti1', '.bz2'), ('nifti1', '.gz'), ('nifti1', '.zst'), ('mgh', '.gz'), ('nifti1', ''),
                      ('analyze', '.bz2')]:
        if comp in compressions(fmt):
            spec = {'fmt': fmt, 'shape': [8, 8, 9], 'dtype': 'int16', 'seed': rng.randrange(1, 1000)}
            if comp:
                spec['comp'] = comp
            sweep(rng, spec, tier == 'thorough', 60 if tier == 'quick' else 300, out, 'large')
    # partial reads that fileslice splits into several segments (gaps > SKIP_THRESH): the last segment too
    # must be verified by read_segments.  Image member of single files and pairs, plain and .gz/.mgz.
    for fmt, comp in [('nifti1', ''), ('analyze', ''), ('mgh', ''), ('nifti1', '.gz'), ('mgh', '.gz'), ('nifti2', ''),
                      ('spm2', '.bz2')]:
        if comp not in compressions(fmt) or (tier == 'quick' and (fmt, comp) in (('nifti2', ''), ('spm2', '.bz2'))):
            continue
        spec = {'fmt': fmt, 'shape': [rng.choice([80, 72, 96]), 4, 3], 'dtype': rng.choice(['int16', 'int16', 'float32']),
                'seed': rng.randrange(1, 1000)}
        if comp:
            spec['comp'] = comp
        total = len(files_of(spec)['raw']['image'])
        L = vol_layout(spec)
        for si, sl in enumerate(SLICERS):
            if tier == 'quick' and si >= 4 and fmt != 'nifti1':
                continue
            if tier == 'thorough' and not comp:
                ks = range(total + 1)
            else:
                ks = {0, 1, total, total - 1, total - 2, total - 9}
                if not comp:
                    for o, e in slice_runs(spec, L['off'], [sl]):
                        ks.update(range(o - 2, o + 3))
                        ks.update(range(e - 2, e + 3))
                        ks.add((o + e) // 2)
                ks.update(rng.randrange(0, total + 1) for _ in range(40 if tier == 'quick' else 400))
                ks = sorted(k for k in ks if 0 <= k <= total)
            for k in ks:
                out.append(mk_case(spec, 'image', 3 + si % 2, k, 'multi-segment', sl))
    extra_streams(rng, tier, out)
    more_streams(rng, tier, out)
    return out


VOL_ACCESS = [(1, 'fdata'), (0, 'fdata32+kfo'), (1, 'mmr+asarray'), (0, 'unscaled+cls'), (1, 'kfo+plib'),
              (1, 'cls+fdata+kfo'), (0, 'plib+fdata'), (2, 'kfo+cls')]
PAIR_ACCESS = [(0, 'cross'), (1, 'cross+fdata+kfo')]
CIFTI_SLICERS = [[1, [None, None, None]], [[5, 70, None], [None, None, 2]]]


def bound_cuts(rng, spec, member, nrand, pm=1, extra=()):
    total = len(files_of(spec)['raw'][member])
    ks = {0, 1, total, total - 1, total - 2, total - 9}
    if not spec.get('comp'):
        for b in list(bounds_of(spec)) + list(extra):
            ks.update(range(b - pm, b + pm + 1))
    ks.update(rng.randrange(0, total + 1) for _ in range(nrand))
    return sorted(k for k in ks if 0 <= k <= total)


def extra_streams(rng, tier, out):
    """Dimensions beyond the default load + np.asanyarray(dataobj) of default-configured files."""
    quick = tier == 'quick'
    # --- access: how the data are obtained (get_fdata / get_unscaled / np.asarray, keep_file_open, mmap='r',
    #     Class.from_filename, pathlib, pair opened through the other member) x unusual-but-valid files
    #     (big-endian header, data offset beyond the minimum, 4D), cut at every structural boundary +-1.
    r1, r2, r3 = rng.randrange(2), rng.randrange(3), rng.randrange(2)
    vfmts = ['nifti1', 'nifti2', 'nifti1pair', 'nifti2pair', 'analyze', 'spm99', 'spm2', 'mgh', 'cifti2']
    for i, fmt in enumerate(vfmts):
        if fmt == 'cifti2':
            base = {'fmt': fmt, 'shape': [2, 3], 'seed': rng.randrange(1, 10 ** 6)}
        else:
            base = {'fmt': fmt, 'shape': [2, 2, 2, 3] if (i + r3) % 2 else [3, 2, 2],
                    'dtype': rng.choice(['int16', 'float32', 'uint8', 'int32']), 'seed': rng.randrange(1, 10 ** 6)}
            if fmt != 'mgh':
                base['endian'] = '>' if (i + r1) % 2 == 0 else '<'
                pad = [0, 16, 32][(i + r2) % 3]
                if pad:
                    base['pad'] = pad
            if fmt in NIFTI:
                base['exts'] = rng.choice([[5], [3, 20], [24]])
        comps = [''] + ([c for c in compressions(fmt) if c] if not quick
                        else (['.gz'] if fmt in ('nifti1', 'mgh', 'analyze') else []))
        for comp in comps:
            spec = dict(base, comp=comp) if comp else dict(base)
            acc = list(VOL_ACCESS) + (PAIR_ACCESS if fmt in PAIRS else [])
            if fmt == 'cifti2':
                acc = [(m_, h_) for m_, h_ in acc if m_ != 2]
            for member in members_of(fmt):
                ks = bound_cuts(rng, spec, member, 8 if quick else 30, 1)
                for j, (mode, how) in enumerate(acc):
                    for n_, k in enumerate(ks):
                        if comp and quick and (n_ + j) % 3:
                            continue          # compressed + quick: every cut with a third of the variants
                        out.append(mk_case(spec, member, mode, k, 'access', None, how))
    # --- partial multi-segment reads for the classes / members / access variants the main stream leaves out
    more = [('analyze', 'header', ''), ('nifti1pair', 'image', ''), ('nifti1pair', 'header', ''), ('spm99', 'image', ''),
            ('nifti2pair', 'image', '.gz'), ('cifti2', 'image', '')]
    for fmt, member, comp in more:
        if comp not in compressions(fmt):
            continue
        n0 = rng.choice([80, 72, 96])
        if fmt == 'cifti2':
            spec = {'fmt': fmt, 'shape': [n0, 3], 'seed': rng.randrange(1, 1000)}
            slicers = CIFTI_SLICERS
        else:
            spec = {'fmt': fmt, 'shape': [n0, 4, 3], 'dtype': rng.choice(['int16', 'float32']),
                    'seed': rng.randrange(1, 1000), 'endian': rng.choice('<>')}
            if rng.randrange(2):
                spec['pad'] = 16 * rng.choice([1, 2, 5])
            if fmt in NIFTI:
                spec['exts'] = [5]
            slicers = SLICERS[:2] if quick else SLICERS
        if comp:
            spec['comp'] = comp
        L = vol_layout(spec)
        for si, sl in enumerate(slicers):
            ext = []
            if member == 'image' and not comp:
                for o, e in slice_runs(spec, L['off'], [sl]):
                    ext += [o, e]
                if len(ext) > 24:
                    ext = ext[:8] + ext[-16:]
            ks = bound_cuts(rng, spec, member, 10 if quick else 200, 1 if quick else 2, ext)
            how = ['', 'kfo', 'cls+kfo', 'plib'][(si + rng.randrange(4)) % 4] if fmt != 'cifti2' else ''
            for k in ks:
                out.append(mk_case(spec, member, 3 + si % 2, k, 'multi-segment-more', sl, how))
    # --- TCK: the chunked loop of `_read` run with small buffers (a streamline / the terminator spans chunks)
    for v in range(1 if quick else 4):
        spec = {'fmt': 'tck', 'npts': [rng.choice([1, 2, 3, 4]) for _ in range(rng.choice([2, 3, 4]))],
                'seed': rng.randrange(1, 10 ** 6)}
        total = len(files_of(spec)['raw']['image'])
        off = tck_layout(spec)['off']
        hows = [('buf12', 1), ('buf12', 0), ('buf24+strm', 1), ('buf36+cls', 0), ('buf60+fobj', 1)]
        if not quick:
            hows += [('buf24', 0), ('buf36+cls', 1), ('buf60+fobj', 0), ('buf48', 1), ('buf48', 0), ('buf24', 1)]
        for how, mode in hows:
            if True:
                for k in range(max(0, off - (2 if quick else 8)), total + 1):
                    out.append(mk_case(spec, 'image', mode, k, 'tck-chunked', None, how))
    # --- TRK: per-streamline properties with / without per-point scalars, class loader / file object /
    #     `.streamlines` pass, cuts at every point-row and record boundary +-2
    for nsc, npr in [(0, 0), (2, 0), (1, 2), (0, 1)][:None if not quick else 4]:
        spec = {'fmt': 'trk', 'npts': [rng.choice([1, 2, 3]) for _ in range(rng.choice([2, 3]))],
                'seed': rng.randrange(1, 10 ** 6)}
        if nsc:
            spec['nsc'] = nsc
        if npr:
            spec['npr'] = npr
        ks = bound_cuts(rng, spec, 'image', 10 if quick else 200, 2)
        for mode, how in [(1, 'cls'), (0, 'fobj'), (1, 'strm'), (0, 'cls'), (1, 'fobj')][:3 if quick else 5]:
            for k in ks:
                if quick and k < 980 and k % 3:
                    continue
                out.append(mk_case(spec, 'image', mode, k, 'trk-access', None, how))


def entry_points(fmt):
    """every way to get an image object from the file name(s)"""
    if fmt in ('nifti1', 'nifti2', 'mgh'):
        return ['', 'cls', 'kload', 'modload', 'fmap', 'bytes']
    if fmt in ('nifti1pair', 'nifti2pair'):
        return ['', 'cls', 'kload', 'modload', 'fmap', 'cross+cls']
    return ['', 'cls', 'kload', 'modload', 'fmap', 'cross+kload']


def more_streams(rng, tier, out):
    """phase-4 dimensions: loader entry point x member file x cut; scaled storage; short-reading / raising file
    objects for the tractogram readers; the header-refusal decision table."""
    quick = tier == 'quick'
    # --- loader matrix
    fm = ['nifti1', 'nifti2', 'nifti1pair', 'nifti2pair', 'analyze', 'spm99', 'spm2', 'mgh']
    for i, fmt in enumerate(fm):
        spec = {'fmt': fmt, 'shape': rng.choice([[2, 2, 2], [3, 2, 2], [2, 3, 1]]), 'seed': rng.randrange(1, 10 ** 6)}
        if fmt in ('analyze', 'mgh'):
            spec['dtype'] = rng.choice(['int16', 'uint8', 'float32'])
        else:
            spec['dtype'] = 'int16' if fmt.startswith('spm') else rng.choice(['int16', 'uint8', 'int16'])
            spec['scaled'] = 1
        if fmt in NIFTI and rng.randrange(2):
            spec['exts'] = [rng.choice([5, 24])]
        ent = files_of(spec)
        eps = entry_points(fmt)
        r = rng.randrange(len(eps))
        for member in sorted(ent['files']):
            total = len(ent['raw'][member])
            bnds = set() if member == 'mat' else {b for b in bounds_of(spec) if 0 <= b <= total}
            key = {0, 1, total - 1, total} | bnds
            if member == 'header' or (member == 'mat' and not quick):
                ks = range(total + 1)
            elif member == 'mat':
                ks = sorted(set(range(0, total + 1, 3)) | key)
            else:
                ks = bound_cuts(rng, spec, member, 4 if quick else 40, 1)
            if quick and member == 'header' and fmt in ('nifti2pair',):
                ks = sorted(set(range(0, total + 1, 2)) | key)
            for k in ks:
                hows = eps if (k in key and (not quick or k in (0, total) or (k + r) % 2)) else [eps[(k + r) % len(eps)]]
                for j, how in enumerate(hows):
                    if 'bytes' in how and member != 'image':
                        continue
                    mode = 0 if 'bytes' in how else (k + j + r) % 2
                    if 'modload' in how and fmt in NIFTI:
                        mode = 1          # nifti1.load(filename): no mmap argument, the default (on) applies
                    out.append(mk_case(spec, member, mode, k, 'loader-matrix', None, how))
    # --- TCK `_read` over a short-reading file object (every chunking of the byte stream)
    for v in range(2 if quick else 8):
        spec = {'fmt': 'tck', 'npts': [rng.choice([1, 2, 3, 4]) for _ in range(rng.choice([2, 3, 4]))],
                'seed': rng.randrange(1, 10 ** 6)}
        total = len(files_of(spec)['raw']['image'])
        off = tck_layout(spec)['off']
        for bsz in ([12, 24] if quick else [12, 24, 36, 60]):
            nchunks = (total - off) // bsz + 2
            for rep_ in range(80 if quick else 200):
                k = total if rep_ % 3 else rng.randrange(off, total + 1)
                toks = ['f'] * nchunks
                for _ in range(rng.choice([1, 1, 2])):
                    toks[rng.randrange(nchunks)] = rng.choice(['r', '0', '4', '7', '12', str(bsz - 12), str(bsz - 1),
                                                               str(bsz), '11', '13'])
                while toks and toks[-1] == 'f':
                    toks.pop()
                how = f"buf{bsz}+sch{'.'.join(toks)}"
                out.append(mk_case(spec, 'image', rep_ % 2, k, 'tck-shortread', None, how))
            out.append(mk_case(spec, 'image', 0, total, 'tck-shortread', None, f'buf{bsz}+sch'))
    # --- TRK over a file object that raises beyond byte T
    for v in range(1 if quick else 4):
        spec = {'fmt': 'trk', 'npts': [rng.choice([1, 2, 3]) for _ in range(rng.choice([2, 3]))],
                'seed': rng.randrange(1, 10 ** 6)}
        if v % 2:
            spec['nsc'], spec['npr'] = 1, 2
        total = len(files_of(spec)['raw']['image'])
        bnds = [b for b in trk_layout(spec)['bounds'] if b >= 996]
        for T in sorted({total, total + 5, 999, 1000} | set(bnds) | {b + 1 for b in bnds} | {b - 1 for b in bnds}):
            for k in sorted({total, T, min(total, T + 4)} | ({rng.choice(bnds)} if bnds else set())):
                if 0 <= k <= total:
                    out.append(mk_case(spec, 'image', (T + k) % 2, k, 'trk-raise', None, f'thr{T}'))
    # --- header-refusal decision table (extension-less classes), real header prefix of every length
    for fmt in ['analyze', 'spm99', 'spm2', 'mgh']:
        spec = {'fmt': fmt, 'shape': [2, 2, 2], 'dtype': 'int16', 'seed': 1}
        ent = files_of(spec)
        total = len(ent['raw']['header' if fmt in PAIRS else 'image'])
        hs = vol_layout(spec)['hs']
        ns = range(0, min(total, hs + 3) + 1)
        if quick and fmt in ('spm99', 'spm2'):
            ns = sorted(set(range(0, hs + 3, 3)) | {hs - 1, hs, hs + 1} & set(range(total + 1)))
        for n in ns:
            if n <= total:
                out.append(mk_hdrtab(fmt, n))


# ------------------------------------------------------------------ generated constants

def _ast_int_expr(node, names):
    """a pure-integer Python expression over the variables `names` -> Lean `Int` term (anything else: ValueError)"""
    import ast
    if isinstance(node, ast.Constant) and type(node.value) is int:
        return f'({node.value} : Int)'
    if isinstance(node, ast.Name) and node.id in names:
        return names[node.id]
    if isinstance(node, ast.Attribute) and ast.unparse(node) in names:
        return names[ast.unparse(node)]
    if isinstance(node, ast.BinOp):
        op = {ast.Add: '+', ast.Sub: '-', ast.Mult: '*', ast.Mod: '%', ast.FloorDiv: '/'}.get(type(node.op))
        if op is None:
            raise ValueError(ast.dump(node.op))
        return f'({_ast_int_expr(node.left, names)} {op} {_ast_int_expr(node.right, names)})'
    if isinstance(node, ast.UnaryOp) and isinstance(node.op, ast.USub):
        return f'(-{_ast_int_expr(node.operand, names)})'
    raise ValueError(ast.dump(node))


def tck_buffer_ast(tck):
    """The statements of `TckFile._read` that turn the `buffer_size` argument into the number of bytes per
    `readinto`, taken from the AST of the working tree.  Untranslatable source -> the definitions become 0 and
    the obligations about them fail."""
    import ast
    import inspect
    import textwrap
    out = dict(coord='0', coord_src='?', adjust='0', adjust_src=['UNTRANSLATABLE'], default=None, mega=0,
               requested=0, itemsize=0)
    try:
        fn = ast.parse(textwrap.dedent(inspect.getsource(tck.TckFile._read.__func__))).body[0]
        default = inspect.signature(tck.TckFile._read).parameters['buffer_size'].default
        out['default'], out['mega'] = default, tck.MEGABYTE
        cur = 'buffer_size'
        srcs, seen_int = [], False
        for st in fn.body:
            if isinstance(st, ast.Assign) and len(st.targets) == 1 and isinstance(st.targets[0], ast.Name):
                tgt = st.targets[0].id
                if tgt == 'coordinate_size':
                    out['coord'] = _ast_int_expr(st.value, {'dtype.itemsize': 'itemsize'})
                    out['coord_src'] = ast.unparse(st.value)
                elif tgt == 'buffer_size':
                    if not seen_int:
                        if ast.unparse(st.value) != 'int(buffer_size * MEGABYTE)':
                            raise ValueError(ast.unparse(st))
                        seen_int = True
                        out['requested'] = int(default * tck.MEGABYTE)
                    else:
                        cur = _ast_int_expr(st.value, {'buffer_size': cur, 'coordinate_size': 'coordinate_size'})
                        srcs.append(ast.unparse(st))
            elif isinstance(st, ast.AugAssign) and isinstance(st.target, ast.Name) and st.target.id == 'buffer_size':
                if not seen_int:
                    raise ValueError(ast.unparse(st))
                op = {ast.Add: '+', ast.Sub: '-', ast.Mult: '*'}[type(st.op)]
                rhs = _ast_int_expr(st.value, {'buffer_size': cur, 'coordinate_size': 'coordinate_size'})
                cur = f'({cur} {op} {rhs})'
                srcs.append(ast.unparse(st))
        if not seen_int or not srcs:
            raise ValueError('buffer_size statements not found')
        out['adjust'], out['adjust_src'] = cur, ['`' + x + '`' for x in srcs]
        out['itemsize'] = np.dtype('<f4').itemsize
    except Exception as e:  # noqa: BLE001
        out['adjust'], out['adjust_src'] = '0', ['UNTRANSLATABLE: ' + repr(e)[:80].replace('-/', '')]
    return out


def regen():
    nib = _nib()
    from nibabel.freesurfer import mghformat as mg
    from nibabel.streamlines import tck, trk
    import inspect
    dt = trk.header_2_dtype
    fmts = []
    for name, K in [('nifti1', nib.Nifti1Image), ('nifti2', nib.Nifti2Image), ('nifti1pair', nib.Nifti1Pair),
                    ('nifti2pair', nib.Nifti2Pair), ('analyze', nib.AnalyzeImage),
                    ('spm99', nib.Spm99AnalyzeImage), ('spm2', nib.Spm2AnalyzeImage)]:
        hs = K.header_class.template_dtype.itemsize
        exts = 'true' if name.startswith('nifti') else 'false'
        fmts.append(f'  ⟨{hs}, {K._meta_sniff_len}, {exts}, none, 0⟩')
    fmts.append(f'  ⟨{mg.MGHHeader._hdrdtype.itemsize}, {nib.MGHImage._meta_sniff_len}, false, some {mg.DATA_OFFSET}, '
                f'{mg.MGHHeader._ftrdtype.itemsize}⟩')
    # the chunk size `TckFile._read` really requests with its default `buffer_size` (measured: a recording file object)
    import io
    sizes = []

    class _Rec(io.BytesIO):
        def readinto(self, b):
            sizes.append(len(b))
            return super().readinto(b)
    list(tck.TckFile._read(_Rec(tck.TckFile.EOF_DELIMITER.astype('<f4').tobytes()),
                           {'_dtype': np.dtype('<f4'), '_offset_data': 0}))
    tck_buf = sizes[0] if sizes else 0
    sig = inspect.signature(nib.filebasedimages.FileBasedImage.path_maybe_image)
    sniff_max = sig.parameters['sniff_max'].default
    buf = tck_buffer_ast(tck)
    body = f'''import NibabelModel.Model.C08
/-! GENERATED by harness/props/c08.py from the working tree of nibabel — do not edit. -/
namespace Nb.C08.Gen

/-- (hdrSize, sniffLen, exts, fixedOff, footer) of every writable volume class -/
def volFmts : List VolFmt := [
{(",\n").join(fmts)}
]

def sniffMax : Nat := {sniff_max}
def trkHdrSize : Nat := {trk.TrkFile.HEADER_SIZE}
def trkDtypeSize : Nat := {dt.itemsize}
def trkOffNsc : Nat := {dt.fields['nb_scalars_per_point'][1]}
def trkOffNpr : Nat := {dt.fields['nb_properties_per_streamline'][1]}
def trkOffCount : Nat := {dt.fields['nb_streamlines'][1]}
def trkOffVersion : Nat := {dt.fields['version'][1]}
def trkOffHdrSize : Nat := {dt.fields['hdr_size'][1]}
def trkWidths : List Nat := {[dt.fields[f][0].itemsize for f in ('nb_scalars_per_point', 'nb_properties_per_streamline', 'nb_streamlines', 'version', 'hdr_size')]}
def tckMagic : List Nat := {list(tck.TckFile.MAGIC_NUMBER)}
def tckFiberDelim : List Nat := {list(tck.TckFile.FIBER_DELIMITER.astype('<f4').tobytes())}
def tckEofDelim : List Nat := {list(tck.TckFile.EOF_DELIMITER.astype('<f4').tobytes())}
def skipThresh : Nat := {nib.fileslice.SKIP_THRESH}
/-- bytes per `readinto` of `TckFile._read` with its default `buffer_size` (measured on the running code) -/
def tckBufferBytes : Nat := {tck_buf}

/-! `buffer_size` arithmetic of `TckFile._read`, translated from the AST of the working tree
    (Python ints -> `Int`; `%` with a positive divisor is `Int.emod`): -/
/-- `coordinate_size = {buf['coord_src']}` -/
def tckCoordSize (itemsize : Int) : Int := {buf['coord']}
/-- {'; '.join(buf['adjust_src'])} -/
def tckBufAdjust (buffer_size coordinate_size : Int) : Int := {buf['adjust']}
/-- `int(buffer_size * MEGABYTE)` for the default `buffer_size={buf['default']!r}`, `MEGABYTE = {buf['mega']}` -/
def tckBufRequested : Nat := {buf['requested']}
/-- item size of the dtypes `_read_header` accepts (`Float32LE` / `Float32BE`) -/
def tckItemSize : Nat := {buf['itemsize']}

end Nb.C08.Gen
'''
    write_if_changed(os.path.join(LEAN, 'NibabelModel', 'Generated', 'C08.lean'), body)
    return []
