"""C09 — any load / modify / save history leaves correct files and a live process.

Histories over {load(p, mmap), re-wrap (a NEW array image built from the live image's data: view of the memmap, the memmap,
the proxy, a copy, the get_fdata() array), get_fdata, uncache, edit header field, set affine (image API), edit the header affine fields, set_data_dtype, save(p),
to_bytes} with p in {a.nii, a.nii.gz, b.nii, a.img(+a.hdr), a.mgh, a.mgz, s.img(+.hdr,.mat: SPM2 Analyze), n.nii (NIfTI-2),
c.img.gz(+c.hdr.gz), a.nii.bz2, b.nii.zst}.  Every history runs in a CHILD
process (batched; a dying child is an observable, not an infrastructure failure).  The observable line is compared
string-equal with the Lean model (Model/C09.lean via Driver/C09.lean); the oracle is computed in the child from the
real objects only (pre-save snapshot of the live image versus a fresh `mmap=False` load of the written file).
"""
import os
import sys

_HERE = os.path.dirname(os.path.abspath(__file__))
if os.path.dirname(_HERE) not in sys.path:
    sys.path.insert(0, os.path.dirname(_HERE))

import itertools  # noqa: E402
import json  # noqa: E402
import re  # noqa: E402
import shutil  # noqa: E402
import signal  # noqa: E402
import subprocess  # noqa: E402
import tempfile  # noqa: E402
from concurrent.futures import ThreadPoolExecutor  # noqa: E402

from common import REPO, Case  # noqa: E402

PID = 'C09'
LEAN_TARGETS = ['NibabelModel.Props.C09']
THEOREMS = [
    'Nb.C09.step_safe',
    'Nb.C09.history_safe_partial',
    'Nb.C09.run_never_bad',
    'Nb.C09.save_writes_image_state',
    'Nb.C09.orig_self_overwrite_crashes',
    'Nb.C09.orig_self_overwrite_crashes_all_plain',
    'Nb.C09.current_self_overwrite_ok',
    'Nb.C09.current_stale_source_counterexample',
    'Nb.C09.current_stale_fdata_alias_counterexample',
    'Nb.C09.orig_safe_off_source',
    'Nb.C09.guard_is_tight',
    'Nb.C09.save_ignores_header_affine_edit',
    'Nb.C09.generated_tables_agree',
    'Nb.C09.update_header_affine_close',
    'Nb.C09.best_affine_precedence',
    'Nb.C09.save_ignores_header_affine_edits',
    'Nb.C09.header_edit_kept_when_affine_agrees',
    'Nb.C09.save_class_by_extension',
    'Nb.C09.outCls_valid',
    'Nb.C09.step_clsWF',
    'Nb.C09.self_save_keeps_class',
    'Nb.C09.run_clsWF',
    'Nb.C09.current_stale_fdata_alias_f32_counterexample',
    'Nb.C09.generated_outCls_agree',
    'Nb.C09.saved_affine_close',
    'Nb.C09.generated_transform_rules_agree',
    'Nb.C09.wrap_of_mapped_proxy',
    'Nb.C09.guard_view_overwrite_crashes',
    'Nb.C09.orig_view_overwrite_crashes',
    'Nb.C09.baseNd_view_overwrite_crashes',
    'Nb.C09.current_view_kinds_ok',
    'Nb.C09.guard_safe_off_uncopied_views',
    'Nb.C09.baseNd_guard_safe_off_hidden',
    'Nb.C09.orig_view_overwrite_crashes_witness',
    'Nb.C09.current_view_overwrite_ok',
    'Nb.C09.inst_guard_safe_off_views',
    'Nb.C09.generated_guard_agrees',
    'Nb.C09.fs0_wf',
    'Nb.C09.fs0_clsWF',
    'Nb.C09.hdrEdits_spec',
]
ASSUMPTIONS = [
    'hand-written Lean model of save()/to_filename/to_file_map/ArrayProxy/get_fdata cache over an ABSTRACT file '
    'system (Model/C09.lean); tied to the code by the differential run of every generated history (per-op tokens incl. '
    'class, byte order, scaling and sform/qform codes+affines of every written file, final live image with its own '
    'header transform fields, final decode of all eleven paths) in this run',
    'np.allclose on affines is identity of affine ids in the executable model (the test affines are pairwise far '
    'apart); the decision rule of update_header is proved for any reflexive closeness predicate',
    'load returns the class that wrote the file (header sniffing, .mat side file of SPM images): compared, not proved',
    'keep_file_open=True is a harness-only variant of load (same model op); its persistent handle (BufferedReader / '
    'indexed gzip) may serve buffered OLD content after a layout-changing self-save (region of the open findings), '
    'which the model calls BAD: random histories with keep_file_open never leave the guard',
    'np.memmap(mode="c") / kernel page cache: modelled as a REFERENCE to the current content of the file; reading it '
    'after truncation or after the file was re-laid-out (other dtype/scaling) = outcome BAD (SIGBUS, zeros, garbage '
    'or OSError are not distinguished: all are violations) — partial: the OS behaviour itself is not verified',
    'data / affine / header tag are abstract identifiers; NumPy casts and array-writer scaling of the small-integer '
    'test data are value preserving within 0.5 (C02 covers the arithmetic)',
    'ONE live image per history (a load replaces it) plus fresh verification loads; histories with several live '
    'images sharing a file are outside the model',
    'OPEN finding (guard of history_safe_partial): after a save onto the live image\'s own source path that changes '
    'the on-disk layout (dtype/scaling) the live image reads through a stale proxy / stale float64 memmap cache',
]
RULE = ('A14 = the affine an SPM Analyze header itself expresses (its .mat must still be rewritten over a stale one); streams: wrap (load p, re-wrap the data as a NEW array image — plain view / np.memmap / proxy / [::1] / .T.T / '
        '.view(ndarray) / asfortranarray / [..., :] / copy / get_fdata() —, save onto the same path, another path, another '
        'spelling, for every mmap-able path x mmap mode x small/big); hdraffine (header sform/qform edited directly — to another affine or to the image\'s own affine with a '
        'different code — or via the image API, then first/second save to same- and other-flavour targets, for NIfTI-1/2 '
        'single and pair, MGH, SPM2); exh3x (suffixes over the ops on the SPM2 pair, NIfTI-2, compressed pair, .bz2, .zst '
        'names incl. get_fdata(float32)); W10-W13 = views that reach the map only through a memoryview / array-interface '
        'holder (as_strided, memoryview, sliding_window_view, np.frombuffer(mmap.mmap(file))); exh3w/exh4w (suffixes over re-wrap ops, loads and saves of the mmap-able '
        'names); selfsave (the repaired defect: load p, [ops], save p ... for every path x mmap x dtype x small/big '
        'shape); spelling (self-overwrite where load and save name the same file differently: absolute, relative, ./, '
        'sub/../, symlink, hard link, pair header name — all pairs of spellings, every path); exh3/exh4/exh5: first op load(p, mmap) then ALL suffixes over the op alphabet (27 ops: 12 loads, 6 '
        'saves, 3 set_data_dtype, get_fdata, uncache, edit, set affine, header-affine edit, to_bytes; exh5 / quick exh4 over a 16-op '
        'sub-alphabet); random: length 4-12, random initial dtypes, absent files, 10% big (multi-page) arrays. '
        'A case is non-trivial when it contains a load and a save; distinct by (init, ops, big).')

PATHS = ['a.nii', 'a.nii.gz', 'b.nii', 'a.img', 'a.mgh', 'a.mgz', 's.img', 'n.nii', 'c.img.gz', 'a.nii.bz2', 'b.nii.zst']
NP = len(PATHS)
PCH = '0123456789a'
IMG_PATHS = (3, 6, 8)          # two-/three-file names
MGH_PATHS = (4, 5)
COMPRESSED = (1, 5, 8, 9, 10)
HDR_NAME = {3: 'a.hdr', 6: 's.hdr', 8: 'c.hdr.gz'}
INIT_CLS = {3: 'Nifti1Pair', 4: 'MGHImage', 5: 'MGHImage', 6: 'Spm2AnalyzeImage', 7: 'Nifti2Image', 8: 'Nifti1Pair'}
OTHER_A, OTHER_B = 12, 13      # affine ids that no file starts with (even / odd: the two kinds of header edit)
EXPR = 14                      # the affine an SPM Analyze HEADER itself expresses for the shape (x-flipped zooms (2,3,4),
                               # origin at the volume centre): update_header finds it allclose to the header's own best affine


def pidx(ch):
    return PCH.index(ch)


def side_names(p):
    """all file names that belong to path p"""
    if p not in IMG_PATHS:
        return [PATHS[p]]
    stem, comp = PATHS[p].split('.img')
    return [stem + e + comp for e in ('.img', '.hdr', '.mat')]


def parse_init(tok):
    """'[>]dt[s]' -> (dt, big-endian, scaled)"""
    be = tok.startswith('>')
    t = tok[1:] if be else tok
    sc = t.endswith('s')
    return (t[:-1] if sc else t), be, sc


DTS = ['u8', 'i16', 'i32', 'f32', 'f64']
MGH_DTS = ['u8', 'i16', 'i32', 'f32']
NP_DT = {'u8': 'uint8', 'i16': 'int16', 'i32': 'int32', 'f32': 'float32', 'f64': 'float64'}
SMALL, BIG = (3, 4, 5), (17, 16, 16)

SIG_PROXY = 'stale-proxy-after-layout-changing-self-save'
SIG_FDATA = 'stale-fdata-memmap-after-layout-changing-self-save'
PENDING_FINDINGS = [
    {'property': 'C09', 'signature': SIG_PROXY, 'status': 'open',
     'what': 'after set_data_dtype + save onto the image\'s own source file the live image reads the re-laid-out '
             'file through its old ArrayProxy spec (wrong data or OSError); the written file itself is correct: '
             'load a.nii(int16); set_data_dtype(int32); save a.nii; get_fdata()',
     'input': {'init': ['i16'] * NP, 'ops': ['L00', 'Di32', 'S0', 'F'], 'big': False}},
    {'property': 'C09', 'signature': SIG_FDATA, 'status': 'open',
     'what': 'cached get_fdata() of a float64 memory-mapped image IS the memmap of the source file; after '
             'set_data_dtype + save onto that file it extends past EOF (SIGBUS / garbage): load a.nii(float64, mmap); '
             'get_fdata(); set_data_dtype(int16); save a.nii; get_fdata()',
     'input': {'init': ['f64'] + ['i16'] * (NP - 1), 'ops': ['L01', 'F', 'Di16', 'S0', 'F'],
               'big': True}},
]

# ------------------------------------------------------------------------------------------- generated tables

def regen():
    """Generated/C09.lean: for the eleven path names the class `save()`/`load()` pick by extension and whether the name
    is a compressed stream (never memory mapped); the dtypes an MGH header accepts; whether the two `to_file_map`
    bodies still copy a memmap before the first `get_prepare_fileobj` (statement order read from the AST);
    `all_image_classes` with the extension families of every `valid_exts`; the special cases of `nibabel.save`
    (`type(img) == X and lext in (...)` -> `Y.from_image(img)`) read from its AST; the classes with `to_bytes`."""
    import ast
    import inspect
    import textwrap

    import numpy as np
    import common
    import nibabel as nib
    import nibabel.loadsave
    from nibabel.filename_parser import splitext_addext
    from nibabel.imageclasses import all_image_classes
    from nibabel.loadsave import _compressed_suffixes
    from nibabel.openers import ImageOpener
    code = {'Nifti1Image': 0, 'Nifti1Pair': 1, 'MGHImage': 2, 'Spm2AnalyzeImage': 3, 'Nifti2Image': 4, 'Nifti2Pair': 5}
    fam = {'.nii': 0, '.img': 1, '.hdr': 1, '.mgh': 2, '.mgz': 2}
    rows = []
    for name in PATHS:
        froot, ext, trailing = splitext_addext(name, _compressed_suffixes)
        kl = [k for k in all_image_classes if ext.lower() in k.valid_exts]
        # Nifti1Image saved to .img/.hdr: special-cased to Nifti1Pair in save(); otherwise first valid class
        cls = code.get(kl[0].__name__, 9) if kl else 9
        last = os.path.splitext(name)[1].lower()
        comp = last in ImageOpener.compress_ext_map and last is not None
        rows.append((cls, comp))
    mgh = []
    for i, dt in enumerate(DTS):
        try:
            nib.MGHImage.header_class().set_data_dtype(np.dtype(NP_DT[dt]))
            mgh.append(i)
        except Exception:
            pass

    def maps_file_ok():
        """`volumeutils.maps_file` (the guard since fix ae98171b) is true for a np.memmap and for a base-class view of
        one, false for an array that owns its memory"""
        import tempfile
        from nibabel import volumeutils
        f = getattr(volumeutils, 'maps_file', None)
        if f is None:
            return False
        with tempfile.TemporaryDirectory() as td:
            fn = os.path.join(td, 'm.bin')
            np.arange(16, dtype=np.int16).tofile(fn)
            mm = np.memmap(fn, dtype=np.int16, mode='c')
            try:
                return bool(f(mm)) and bool(f(np.asarray(mm))) and bool(f(mm[2:5])) and not f(np.array(mm)) and \
                    not f(np.arange(4))
            finally:
                del mm

    def copies_before_open(fn):
        """in the body of to_file_map: an `if <guard>(data): data = np.array(data)` statement — guard
        `isinstance(data, np.memmap)` or `maps_file(data)` (checked behaviourally above) — precedes the first
        get_prepare_fileobj"""
        tree = ast.parse(textwrap.dedent(inspect.getsource(fn)))
        first_copy = first_open = None
        for node in ast.walk(tree):
            if isinstance(node, ast.If) and isinstance(node.test, ast.Call) and not node.orelse:
                t = node.test
                is_mm = getattr(t.func, 'id', None) == 'isinstance' and 'memmap' in ast.dump(t) and \
                    [getattr(a, 'id', None) for a in t.args[:1]] == ['data']
                is_mf = getattr(t.func, 'id', None) == 'maps_file' and \
                    [getattr(a, 'id', None) for a in t.args] == ['data'] and maps_file_ok()
                copies = any(isinstance(st, ast.Assign) and [getattr(x, 'id', None) for x in st.targets] == ['data'] and
                             isinstance(st.value, ast.Call) and getattr(st.value.func, 'attr', None) == 'array' and
                             [getattr(a, 'id', None) for a in st.value.args] == ['data'] for st in node.body)
                if (is_mm or is_mf) and copies and first_copy is None:
                    first_copy = node.lineno
            if isinstance(node, ast.Call) and getattr(node.func, 'attr', None) == 'get_prepare_fileobj':
                first_open = node.lineno if first_open is None else min(first_open, node.lineno)
        return first_copy is not None and first_open is not None and first_copy < first_open

    def guard_kind(fn):
        """the copy guard of a to_file_map body: 0 none / 1 `isinstance(data, np.memmap)` / `maps_file(data)`: the kind of
        maps_file (2 ndarray-base chain, 3 owner chain, 9 unknown shape)"""
        tree = ast.parse(textwrap.dedent(inspect.getsource(fn)))
        kinds = []
        for node in ast.walk(tree):
            if isinstance(node, ast.If) and isinstance(node.test, ast.Call) and not node.orelse:
                t = node.test
                copies = any(isinstance(st, ast.Assign) and [getattr(x, 'id', None) for x in st.targets] == ['data'] and
                             isinstance(st.value, ast.Call) and getattr(st.value.func, 'attr', None) == 'array' and
                             [getattr(a, 'id', None) for a in st.value.args] == ['data'] for st in node.body)
                if not copies:
                    continue
                if getattr(t.func, 'id', None) == 'maps_file' and [getattr(a, 'id', None) for a in t.args] == ['data']:
                    kinds.append(maps_file_shape())
                elif getattr(t.func, 'id', None) == 'isinstance' and 'memmap' in ast.dump(t):
                    kinds.append(1)
        return kinds[0] if len(kinds) == 1 else 0

    def maps_file_shape():
        """AST of volumeutils.maps_file -> 2: `while isinstance(arr, np.ndarray):` returning True on
        `isinstance(arr, np.memmap)`, stepping `arr = arr.base`, then `return isinstance(arr, mmap.mmap)` (ae98171b: ndarray
        `.base` links only);  3: `while arr is not None:` returning True on `isinstance(arr, (np.memmap, mmap.mmap))`,
        stepping `arr = arr.obj` for a memoryview else `arr = getattr(arr, 'base', None)`, then `return False` (8d96c629:
        chain of owners);  9: anything else"""
        from nibabel import volumeutils
        f = getattr(volumeutils, 'maps_file', None)
        if f is None:
            return 9
        fn = ast.parse(textwrap.dedent(inspect.getsource(f))).body[0]
        body = [st for st in fn.body if not (isinstance(st, ast.Expr) and isinstance(st.value, ast.Constant))]
        if len(body) != 2 or not isinstance(body[0], ast.While) or not isinstance(body[1], ast.Return) or body[0].orelse:
            return 9
        arg = fn.args.args[0].arg
        w, ret = body

        def attr(e, mod, name):
            return isinstance(e, ast.Attribute) and e.attr == name and getattr(e.value, 'id', None) == mod

        def is_inst(e, classes):
            """isinstance(<arg>, X) / isinstance(<arg>, (X, Y)) with exactly the classes given as (module, name)"""
            if not (isinstance(e, ast.Call) and getattr(e.func, 'id', None) == 'isinstance' and len(e.args) == 2 and
                    getattr(e.args[0], 'id', None) == arg and not e.keywords):
                return False
            c = e.args[1]
            elts = c.elts if isinstance(c, ast.Tuple) else [c]
            got = sorted((getattr(getattr(x, 'value', None), 'id', None), getattr(x, 'attr', getattr(x, 'id', None)))
                         for x in elts)
            return got == sorted(classes)

        def ret_true(st):
            return (isinstance(st, ast.If) and not st.orelse and len(st.body) == 1 and isinstance(st.body[0], ast.Return) and
                    isinstance(st.body[0].value, ast.Constant) and st.body[0].value.value is True)

        def assign_to_arg(st):
            return isinstance(st, ast.Assign) and [getattr(x, 'id', None) for x in st.targets] == [arg]
        # ae98171b
        if is_inst(w.test, [('np', 'ndarray')]) and len(w.body) == 2 and ret_true(w.body[0]) and \
                is_inst(w.body[0].test, [('np', 'memmap')]) and assign_to_arg(w.body[1]) and \
                attr(w.body[1].value, arg, 'base') and is_inst(ret.value, [('mmap', 'mmap')]):
            return 2
        # 8d96c629
        t = w.test
        not_none = (isinstance(t, ast.Compare) and getattr(t.left, 'id', None) == arg and len(t.ops) == 1 and
                    isinstance(t.ops[0], ast.IsNot) and isinstance(t.comparators[0], ast.Constant) and
                    t.comparators[0].value is None)
        if not_none and len(w.body) == 2 and ret_true(w.body[0]) and \
                is_inst(w.body[0].test, [('np', 'memmap'), ('mmap', 'mmap')]) and \
                isinstance(ret.value, ast.Constant) and ret.value.value is False:
            st = w.body[1]
            if isinstance(st, ast.If) and is_inst(st.test, [(None, 'memoryview')]) and len(st.body) == 1 and \
                    len(st.orelse) == 1 and assign_to_arg(st.body[0]) and attr(st.body[0].value, arg, 'obj') and \
                    assign_to_arg(st.orelse[0]):
                v = st.orelse[0].value
                if isinstance(v, ast.Call) and getattr(v.func, 'id', None) == 'getattr' and len(v.args) == 3 and \
                        getattr(v.args[0], 'id', None) == arg and getattr(v.args[1], 'value', None) == 'base' and \
                        isinstance(v.args[2], ast.Constant) and v.args[2].value is None:
                    return 3
        return 9

    def maps_file_probe():
        """the REAL maps_file on one array of each kind -> rows (kind 0 np.memmap instance / 1 view through ndarray `.base`
        links / 2 view through a memoryview or array-interface holder / 3 owns its memory; ground truth: shares memory
        with the map; answer of maps_file)"""
        import mmap
        import tempfile
        from numpy.lib.stride_tricks import as_strided, sliding_window_view
        from nibabel import volumeutils
        f = getattr(volumeutils, 'maps_file', None)
        rows = []
        if f is None:
            return rows
        with tempfile.TemporaryDirectory() as td:
            fn = os.path.join(td, 'm.bin')
            np.arange(4 * 3 * 2, dtype='<i2').tofile(fn)
            m = np.memmap(fn, dtype='<i2', mode='c', shape=(4, 3, 2), order='F')
            fh = open(fn, 'rb')
            raw = mmap.mmap(fh.fileno(), 0, access=mmap.ACCESS_READ)
            ref_raw = np.frombuffer(raw, dtype=np.uint8)
            probes = [(0, m, m), (1, np.asarray(m), m), (1, np.asarray(m)[::1].T.T, m),
                      (2, np.frombuffer(raw, dtype='<i2', count=24).reshape((4, 3, 2), order='F'), ref_raw),
                      (2, np.asarray(memoryview(m)), m), (2, as_strided(m, shape=m.shape, strides=m.strides), m),
                      (2, sliding_window_view(m, (1, 1, 1))[..., 0, 0, 0], m),
                      (3, np.array(m), m), (3, np.arange(24, dtype='<i2'), m)]
            for kind, arr, ref in probes:
                try:
                    ans = bool(f(arr))
                except Exception:
                    ans = not np.shares_memory(arr, ref)      # an exception counts as a wrong answer
                rows.append((kind, bool(np.shares_memory(arr, ref)), ans))
            del probes, arr, ref, ref_raw, m
            try:
                raw.close()
            except BufferError:
                pass
            fh.close()
        return rows

    class_table = []
    for k in all_image_classes:
        class_table.append((code.get(k.__name__, 9), sorted({fam[e] for e in k.valid_exts if e in fam})))

    def save_special():
        """`if type(img) == X and lext in ('.img', '.hdr'): converted = Y.from_image(img)` chains of nibabel.save"""
        tree = ast.parse(textwrap.dedent(inspect.getsource(nibabel.loadsave.save)))
        found = []
        for node in ast.walk(tree):
            if not isinstance(node, ast.If):
                continue
            t = node.test
            if not (isinstance(t, ast.BoolOp) and isinstance(t.op, ast.And) and len(t.values) == 2):
                continue
            a, b = t.values
            if not (isinstance(a, ast.Compare) and isinstance(a.left, ast.Call) and
                    getattr(a.left.func, 'id', None) == 'type' and
                    [getattr(x, 'id', None) for x in a.left.args] == ['img'] and len(a.ops) == 1 and
                    isinstance(a.ops[0], ast.Eq) and isinstance(a.comparators[0], ast.Name)):
                continue
            exts = []
            if isinstance(b, ast.Compare) and getattr(b.left, 'id', None) == 'lext' and len(b.ops) == 1:
                c = b.comparators[0]
                if isinstance(b.ops[0], ast.In) and isinstance(c, (ast.Tuple, ast.List)):
                    exts = [getattr(e, 'value', None) for e in c.elts]
                elif isinstance(b.ops[0], ast.Eq) and isinstance(c, ast.Constant):
                    exts = [c.value]
            st = node.body[0] if len(node.body) == 1 else None
            if not (isinstance(st, ast.Assign) and isinstance(st.value, ast.Call) and
                    isinstance(st.value.func, ast.Attribute) and st.value.func.attr == 'from_image' and
                    isinstance(st.value.func.value, ast.Name) and
                    [getattr(x, 'id', None) for x in st.value.args] == ['img'] and not st.value.keywords and
                    [getattr(x, 'id', None) for x in st.targets] == ['converted']):
                continue
            for e in exts:
                row = (node.lineno, code.get(a.comparators[0].id, 9), fam.get(e, 9), code.get(st.value.func.value.id, 9))
                if row[1:] not in [r[1:] for r in found]:
                    found.append(row)
        return [r[1:] for r in sorted(found)]
    has_to_bytes = sorted(c for n, c in code.items() if hasattr(getattr(nib, n), 'to_bytes'))

    def a2h_codes():
        """`Nifti1Pair._affine2header`: the `code=` constants of its `set_sform(self._affine, …)` / `set_qform(…)` calls,
        as integers of `xform_codes` (99 = not found / not a constant / other first argument)"""
        from nibabel.nifti1 import xform_codes
        tree = ast.parse(textwrap.dedent(inspect.getsource(nib.Nifti1Pair._affine2header)))
        got = {'set_sform': [], 'set_qform': []}
        for node in ast.walk(tree):
            if isinstance(node, ast.Call) and getattr(node.func, 'attr', None) in got:
                arg0 = node.args[0] if node.args else None
                own = isinstance(arg0, ast.Attribute) and arg0.attr == '_affine' and getattr(arg0.value, 'id', None) == 'self'
                kw = {k.arg: k.value for k in node.keywords}
                cv = kw.get('code', node.args[1] if len(node.args) > 1 else None)
                try:
                    c = int(xform_codes[cv.value]) if own and isinstance(cv, ast.Constant) else 99
                except Exception:
                    c = 99
                got[node.func.attr].append(c)
        one = lambda l: l[0] if len(l) == 1 else 99
        return one(got['set_sform']), one(got['set_qform'])

    def best_order():
        """`Nifti1Header.get_best_affine`: the order in which `sform_code` (0) / `qform_code` (1) are tested `!= 0`
        and which getter each test returns (0 get_sform / 1 get_qform); then the fallback (2 = get_base_affine)"""
        from nibabel.nifti1 import Nifti1Header
        tree = ast.parse(textwrap.dedent(inspect.getsource(Nifti1Header.get_best_affine)))
        fn = tree.body[0]
        fields = {'sform_code': 0, 'qform_code': 1}
        getters = {'get_sform': 0, 'get_qform': 1, 'get_base_affine': 2}
        rows, fallback = [], 9
        for st in fn.body:
            if isinstance(st, ast.If) and isinstance(st.test, ast.Compare) and len(st.test.ops) == 1 and \
                    isinstance(st.test.ops[0], ast.NotEq) and isinstance(st.test.left, ast.Subscript) and \
                    isinstance(st.test.left.slice, ast.Constant) and st.test.left.slice.value in fields and \
                    isinstance(st.test.comparators[0], ast.Constant) and st.test.comparators[0].value == 0 and \
                    len(st.body) == 1 and isinstance(st.body[0], ast.Return) and not st.orelse and \
                    isinstance(st.body[0].value, ast.Call) and not st.body[0].value.args:
                rows.append((fields[st.test.left.slice.value], getters.get(getattr(st.body[0].value.func, 'attr', None), 9)))
            elif isinstance(st, ast.Return) and isinstance(st.value, ast.Call):
                fallback = getters.get(getattr(st.value.func, 'attr', None), 9)
            elif isinstance(st, ast.If):
                rows.append((9, 9))
        return rows, fallback
    b = lambda x: 'true' if x else 'false'
    src = ['/-! GENERATED by harness/props/c09.py `regen()` from the nibabel working tree — do not edit. -/',
           'namespace Nb.C09.Gen', '',
           '/-- per path (' + ' '.join(PATHS) + '): (class code of the',
           '    first class of `all_image_classes` whose `valid_exts` has the extension — 0 Nifti1Image / 1 Nifti1Pair /',
           '    2 MGHImage / 3 Spm2AnalyzeImage / 4 Nifti2Image / 5 Nifti2Pair / 9 other —, name is a compressed stream) -/',
           'def pathTable : List (Nat × Bool) := [' + ', '.join(f'({c}, {b(k)})' for c, k in rows) + ']', '',
           '/-- indices into [u8, i16, i32, f32, f64] of the dtypes `MGHHeader.set_data_dtype` accepts -/',
           'def mghDtypes : List Nat := [' + ', '.join(map(str, mgh)) + ']', '',
           '/-- `AnalyzeImage.to_file_map` / `MGHImage.to_file_map`: the memmap copy guard precedes the first',
           '    `get_prepare_fileobj` (source order) -/',
           f'def analyzeCopiesBeforeOpen : Bool := {b(copies_before_open(nib.AnalyzeImage.to_file_map))}',
           f'def mghCopiesBeforeOpen : Bool := {b(copies_before_open(nib.MGHImage.to_file_map))}', '',
           '/-- `all_image_classes` in order: (class code, extension families 0 .nii / 1 .img,.hdr / 2 .mgh,.mgz in',
           '    `valid_exts`) -/',
           'def classTable : List (Nat × List Nat) := [' +
           ', '.join('(%d, [%s])' % (c, ', '.join(map(str, e))) for c, e in class_table) + ']', '',
           '/-- the special cases of `nibabel.save` read from its AST: (type(img) code, extension family, class',
           '    converted to by `from_image`) -/',
           'def saveSpecial : List (Nat × Nat × Nat) := [' + ', '.join('(%d, %d, %d)' % r for r in save_special()) + ']', '',
           '/-- classes with a `to_bytes` method -/',
           'def hasToBytes : List Nat := [' + ', '.join(map(str, has_to_bytes)) + ']', '',
           '/-- `Nifti1Pair._affine2header`: integer xform codes given to `set_sform(self._affine, code=…)` and',
           '    `set_qform(self._affine, code=…)` (AST) -/',
           'def affine2headerCodes : Nat × Nat := (%d, %d)' % a2h_codes(), '',
           '/-- `Nifti1Header.get_best_affine` (AST): in source order, (code field tested `!= 0` — 0 sform_code /',
           '    1 qform_code —, transform returned — 0 get_sform / 1 get_qform); then the fallback (2 = get_base_affine) -/',
           'def bestAffineOrder : List (Nat × Nat) := [' + ', '.join('(%d, %d)' % r for r in best_order()[0]) + ']',
           'def bestAffineFallback : Nat := %d' % best_order()[1], '',
           '/-- copy guard of `AnalyzeImage.to_file_map` / `MGHImage.to_file_map` (AST): 0 none / 1 `isinstance(data,',
           '    np.memmap)` / `maps_file(data)` with `volumeutils.maps_file` (AST) 2 the loop over ndarray `.base` links',
           '    (ae98171b) / 3 the loop over owners: memmap|mmap test, memoryview -> .obj, else getattr(arr, "base", None)',
           '    (8d96c629) / 9 another shape -/',
           'def analyzeGuard : Nat := %d' % guard_kind(nib.AnalyzeImage.to_file_map),
           'def mghGuard : Nat := %d' % guard_kind(nib.MGHImage.to_file_map), '',
           '/-- the real `maps_file` probed on: a memmap; asarray(m); asarray(m)[::1].T.T; frombuffer(mmap.mmap);',
           '    asarray(memoryview(m)); as_strided(m); sliding_window_view(m)[..., 0, 0, 0]; np.array(m); a fresh array —',
           '    (kind 0 np.memmap instance / 1 ndarray-base view / 2 view through memoryview or array-interface holder /',
           '    3 owns its memory, np.shares_memory with the map, answer of maps_file) -/',
           'def mapsFileProbe : List (Nat × Bool × Bool) := [' +
           ', '.join('(%d, %s, %s)' % (k, b(t), b(a)) for k, t, a in maps_file_probe()) + ']', '',
           'end Nb.C09.Gen', '']
    common.write_if_changed(os.path.join(common.LEAN, 'NibabelModel', 'Generated', 'C09.lean'), '\n'.join(src))
    return ['Generated.C09.pathTable', 'Generated.C09.mghDtypes', 'Generated.C09.copiesBeforeOpen',
            'Generated.C09.classTable', 'Generated.C09.saveSpecial', 'Generated.C09.hasToBytes',
            'Generated.C09.affine2headerCodes', 'Generated.C09.bestAffineOrder', 'Generated.C09.copyGuard', 'Generated.C09.mapsFileProbe']


# ------------------------------------------------------------------------------------------- cases

_REG = {}       # key -> Case     (every case ever built in this process)
_RES = {}       # key -> (line, problems)


def _key(d):
    return (tuple(d['init']), tuple(d['ops']), bool(d.get('big')))


def mk_case(init, ops, big=False, stream='main'):
    init = list(init) + ['i16'] * (NP - len(init))     # inputs stored before the path alphabet grew name six files
    d = {'init': init, 'ops': list(ops), 'big': bool(big)}
    line = 'C09 hist 0 ' + ','.join(init) + ' ' + (','.join(ops) if ops else '-')
    nontriv = any(o[0] == 'L' for o in ops) and any(o[0] == 'S' for o in ops)
    k = _key(d)
    c = Case(line, d, k if nontriv else None, stream)
    _REG.setdefault(k, c)
    return c


def case_from_data(d):
    return mk_case(d['init'], d['ops'], d.get('big', False), d.get('stream', 'corpus'))


HA, HB = 'H%d' % OTHER_A, 'H%d' % OTHER_B      # header edit: sform (code 3) / sform cleared + qform
AA, AB = 'A%d' % OTHER_A, 'A%d' % OTHER_B
AE = 'A%d' % EXPR
FULL_ALPHA = ([f'L{p}{m}' for p in range(6) for m in (1, 0)] + [f'S{p}' for p in range(6)] +
              ['Di16', 'Df32', 'Df64', 'F', 'U', 'E1', AA, HB, 'B'])
# re-wrap ops among loads / saves of the mmap-able single-file, pair and MGH names
W_ALPHA = ['W0', 'W1', 'W9', 'W10', 'W13', 'S0', 'S2', 'S3', 'S4', 'F', 'U', 'Df32', 'L01', 'L31', 'L41', HB]
SMALL_ALPHA = [f'L{p}1' for p in (0, 3, 4, 5)] + [f'S{p}' for p in range(6)] + ['Df32', 'F', 'U', HB]
# the names added to the alphabet: SPM2 pair, NIfTI-2, compressed pair, .bz2, .zst (+ a.img for Nifti2Pair, a.nii)
X_ALPHA = ([f'L{c}1' for c in '36789a'] + [f'S{c}' for c in '0346789a'] +
           ['Di16', 'Df64', 'F', 'F4', 'U', HA, AB, 'E1', 'B'])
INIT_MIXED = ['i16', 'f32', 'f64', 'u8', 'i32', 'f32', 'f64', 'f32', 'i16', 'f64', 'i32']
INIT_I16 = ['i16'] * NP
INIT_X = ['f32', 'i16', 'i16', 'f64', 'f32', 'i16', 'f32', 'f64', 'f32', 'i16', 'f64']


def _dts_for(p):
    return MGH_DTS if p in MGH_PATHS else DTS


def selfsave_cases():
    out = []
    hist = [['L', 'S'], ['L', 'S', 'S'], ['L', 'F', 'S'], ['L', 'S', 'F'], ['L', 'S', 'L', 'S'], ['L', AB, 'S', 'F'],
            ['L', 'E2', 'S', 'U', 'F'], ['L', 'Sq', 'S', 'Sq'], ['L', 'F', 'S', 'U', 'F', 'S'], ['L', 'B', 'S'],
            ['L', 'F4', 'S', 'F4'], ['L', 'F4', 'Sq', 'F', 'S', 'F4', 'F']]
    for p in range(NP):
        variants = [(dt, m) for m in (1, 2, 0, 3, 4) for dt in _dts_for(p)]
        if p not in MGH_PATHS:
            # big-endian files and files stored with scale factors
            variants += [(dt, m) for m in (1, 0) for dt in ('>i16', '>f64', '>f32', 'i16s', '>u8s')]
        for dt, m in variants:
            for big in ((False, True) if (m == 1 and p not in COMPRESSED and dt in DTS) else (False,)):
                init = list(INIT_I16)
                init[p] = dt
                for h in (hist if m in (0, 1) else hist[:4] + hist[10:]):
                    ops = []
                    for o in h:
                        if o == 'L':
                            ops.append(f'L{PCH[p]}{m}')
                        elif o == 'S':
                            ops.append(f'S{PCH[p]}')
                        elif o == 'Sq':
                            ops.append(f'S{PCH[(p + 2) % NP]}')
                        else:
                            ops.append(o)
                    out.append(mk_case(init, ops, big, 'selfsave'))
    return out


def spelling_cases():
    """self-overwrite with the source and the target named by DIFFERENT spellings of the same file
    (0 absolute, 1 cwd-relative, 2 ./name, 3 sub/../name, 4 symbolic link, 5 hard link, 6 header name of the pair)
    or through different ENTRY POINTS (7 img.to_filename(name), 8 img.to_file_map() on the image's own file map)"""
    out = []
    for p in range(NP):
        lsp = list(range(6)) + ([6] if p in IMG_PATHS else [])
        ssp = lsp + [7, 8]
        full = p in (0, 3, 6)
        for ls in lsp:
            for ss in ssp:
                if not full and not (ls == 0 or ss == 0 or ls == ss or (ls, ss) in ((4, 5), (6, 1), (1, 6), (3, 8))):
                    continue
                for big in ((False, True) if full and p not in COMPRESSED else (False,)):
                    init = list(INIT_I16)
                    init[p] = 'f32' if (ls + ss) % 2 and p not in MGH_PATHS else ('f64' if (ls + ss) % 3 == 0 and
                                                                                  p not in MGH_PATHS else 'i16')
                    c, q = PCH[p], PCH[(p + 2) % NP]
                    out.append(mk_case(init, [f'L{c}1@{ls}', 'F', f'S{c}@{ss}', 'F'], big, 'spelling'))
                    out.append(mk_case(init, [f'L{c}1@{ls}', f'S{q}@{ss}', f'S{c}@{ss}', AA, f'S{c}@{ls}'], big,
                                       'spelling'))
    return out


PLAIN = [p for p in range(NP) if p not in COMPRESSED]     # names whose file can be memory mapped
NW = 14                        # re-wrap variants W0 … W13


def wrap_cases():
    """load p, re-wrap (variant k), save: onto the same path (by several spellings / entry points), onto another path
    first, after get_fdata, twice re-wrapped; every plain path, mmap True / 'r' / False, small and multi-page arrays"""
    out = []
    for p in PLAIN:
        c, q = PCH[p], PCH[(p + 2) % NP]
        for m in (1, 2, 0):
            for k in range(NW):
                for big in ((False, True) if m == 1 else (False,)):
                    init = list(INIT_I16)
                    init[p] = 'f64' if (k == 9 or (k + p) % 4 == 0) and p not in MGH_PATHS else \
                        ('f32' if (k + p) % 4 == 1 else 'i16')
                    hs = [[f'L{c}{m}', f'W{k}', f'S{c}'],
                          [f'L{c}{m}', f'W{k}', f'S{q}', f'S{c}', 'F'],
                          [f'L{c}{m}', 'F', f'W{k}', f'S{c}@{1 + (k + p) % 4}', 'F', f'S{c}'],
                          [f'L{c}{m}', f'W{k}', f'W{(k + 3) % NW}', f'S{c}@8', 'B']]
                    if p in IMG_PATHS:
                        hs.append([f'L{c}{m}@6', f'W{k}', f'S{c}@6'])
                    if m == 1 and not big:
                        hs.append([f'L{c}1', f'W{k}', HA, f'S{q}', f'L{q}1', f'W{(k + 1) % NW}', f'S{c}', f'S{q}'])
                    for h in (hs if not big else hs[:2]):
                        out.append(mk_case(init, h, big, 'wrap'))
    return out


def spmmat_cases():
    """two saves onto the SAME SPM pair name: the .mat side file of the first must not survive the second — the second
    image has the affine the SPM header itself expresses (A14), so nothing but the .mat distinguishes the affines.
    Only s.img is loaded and saved to (the image stays an SPM image: A14 is the base affine of a fresh NIfTI header
    too, which the model's affine ids do not express)"""
    out = []
    for m in (1, 0, 2):
        for dt in ('i16', 'f32'):
            init = list(INIT_I16)
            init[6] = dt
            L = f'L6{m}'
            for h in ([L, AE, 'S6'], [L, AE, 'S6', 'F', 'S6'], [L, AB, 'S6', AE, 'S6', 'F'], [L, AE, 'S6', AA, 'S6', L, AE, 'S6@6'],
                      [L, 'W0', AE, 'S6'], [L, AE, 'S6@4', L, 'F', AB, 'S6@1'], [L, 'E2', AE, 'S6', 'U', 'F', HA, 'S6']):
                out.append(mk_case(init, h, False, 'spmmat'))
    return out


def hdraffine_cases():
    """header affine fields edited directly (H: header only, img.affine unchanged; sform with another code, or sform
    cleared + qform — to ANOTHER affine, or to the image's OWN affine so that update_header keeps the edited header)
    or through the image API (A: img.affine changes), then a FIRST save to every target (same and other flavour /
    format) and a second save"""
    out = []
    srcs = (0, 1, 3, 4, 6, 7, 8)       # NIfTI-1 single (plain, gz), pair, MGH, SPM2, NIfTI-2, compressed pair
    for p in srcs:
        own = 'H%d' % p                 # the image loaded from path p has affine id p
        c = PCH[p]
        for e in (HA, HB, AA, AB, own):
            for q in range(NP):
                out.append(mk_case(INIT_I16, [f'L{c}1', e, f'S{PCH[q]}'], False, 'hdraffine'))
            for q in (0, 3, 4, 6, 7):
                for r in (0, 3, 4, 7):
                    out.append(mk_case(INIT_I16, [f'L{c}0', e, f'S{PCH[q]}', f'S{PCH[r]}'], False, 'hdraffine'))
                    out.append(mk_case(INIT_I16, [f'L{c}1', e, f'S{PCH[q]}', HA if e != HA else HB, f'S{PCH[r]}', 'B'],
                                       False, 'hdraffine'))
        # both kinds of edit in a row, and an edit after the image API moved the affine
        for q in (p, 0, 3, 7):
            out.append(mk_case(INIT_I16, [f'L{c}1', AB, 'H%d' % OTHER_B, f'S{PCH[q]}', f'S{PCH[p]}'], False, 'hdraffine'))
            out.append(mk_case(INIT_I16, [f'L{c}1', HA, HB, f'S{PCH[q]}', own, f'S{PCH[q]}'], False, 'hdraffine'))
            out.append(mk_case(INIT_I16, [f'L{c}1', AA, HA, f'S{PCH[q]}', f'L{PCH[q]}1', HB, f'S{c}'], False, 'hdraffine'))
    return out


def exhaustive(init, first, alpha, n, stream):
    out = []
    for f in first:
        for suf in itertools.product(alpha, repeat=n):
            out.append(mk_case(init, [f] + list(suf), False, stream))
    return out


def rand_init(rng):
    init = []
    for p in range(NP):
        if rng.random() < 0.08:
            init.append('-')
        else:
            dt = rng.choice(_dts_for(p))
            if p not in MGH_PATHS:
                r = rng.random()
                if r < 0.15:
                    dt = '>' + dt
                elif r < 0.25 and dt in ('u8', 'i16', 'i32'):
                    dt = dt + 's'
            init.append(dt)
    return init


LOAD_MODES = [1] * 7 + [2] * 2 + [0] * 5 + [3, 4]     # mmap True / 'r' / False / keep_file_open with, without mmap


def rand_spell(rng):
    return '' if rng.random() < 0.7 else '@%d' % rng.randrange(1, 9)


def rand_path(rng):
    return PCH[rng.randrange(NP)]


def rand_op(rng):
    r = rng.random()
    if r < 0.22:
        return f'L{rand_path(rng)}{rng.choice(LOAD_MODES)}' + rand_spell(rng)
    if r < 0.55:
        return f'S{rand_path(rng)}' + rand_spell(rng)
    if r < 0.68:
        return 'D' + rng.choice(DTS)
    if r < 0.78:
        return rng.choice(['F', 'F', 'F4'])
    if r < 0.84:
        return 'U'
    if r < 0.89:
        return 'E%d' % rng.choice([1, 2, 3])
    if r < 0.92:
        return 'A%d' % rng.choice([OTHER_A, OTHER_B, 3])
    if r < 0.95:
        return 'H%d' % rng.choice([OTHER_A, OTHER_B, 0, 3, 7])
    if r < 0.98:
        return 'W%d' % rng.randrange(NW)
    return 'B'


def random_cases(rng, n, safe_bias=0.7):
    out = []
    pool = [rand_init(rng) for _ in range(max(4, min(24, n // 150)))]   # few distinct initial file systems: the
    for _ in range(n):                                                   # child builds each template only once
        init = rng.choice(pool)
        ln = rng.randrange(4, 13)
        ops = [f'L{rand_path(rng)}{rng.choice(LOAD_MODES)}']
        # most random histories avoid the open finding (dtype change followed by a save onto the source) so that
        # long histories stay informative; the rest are unconstrained
        avoid = rng.random() < safe_bias
        # keep_file_open=True: the persistent handle (BufferedReader, indexed gzip) may keep serving BUFFERED old content
        # after the file was re-laid-out (observed: small .mgh / .mgz read back "correctly" through the stale buffer) —
        # what the live image then reads is outside the modelled contract, so such histories always stay inside the guard
        # (sticky and conservative: a load may fail — absent file — and leave the previous image live)
        src, dirty = ops[0][1], False
        kfo, loaded, dirty_any = ops[0][2] in '34', {ops[0][1]}, False
        while len(ops) < ln:
            o = rand_op(rng)
            if o[0] == 'D':
                dirty = dirty_any = True
            if o[0] == 'S' and o[1] == src and dirty and avoid:
                continue
            if o[0] == 'S' and kfo and dirty_any and o[1] in loaded:
                continue
            if o[0] == 'L':
                src, dirty = o[1], False
                kfo = kfo or o[2] in '34'
                loaded.add(o[1])
            ops.append(o)
        out.append(mk_case(init, ops, rng.random() < 0.1, 'random'))
    return out


def cases(rng, tier):
    out = selfsave_cases() + spelling_cases() + hdraffine_cases() + wrap_cases() + spmmat_cases()
    first_all = [f'L{p}{m}' for p in range(6) for m in (1, 0)]
    first_q = [f'L{p}1' for p in range(6)] + ['L00', 'L30', 'L40']
    first_mm = [f'L{p}1' for p in range(6)]
    first_x = ['L61', 'L71', 'L81', 'L91', 'La1', 'L60', 'L72', 'L01']
    if tier == 'quick':
        out += exhaustive(INIT_MIXED, first_q, FULL_ALPHA, 2, 'exh3')
        out += exhaustive(INIT_MIXED, [first_mm[0], first_mm[4]], SMALL_ALPHA, 3, 'exh4')
        out += exhaustive(INIT_X, first_x, X_ALPHA, 2, 'exh3x')
        out += exhaustive(INIT_MIXED, ['L01', 'L21', 'L31', 'L41', 'L02'], W_ALPHA, 2, 'exh3w')
        out += random_cases(rng, 1500)
    elif tier == 'thorough':
        out += exhaustive(INIT_MIXED, first_all, FULL_ALPHA, 2, 'exh3')
        out += exhaustive(INIT_I16, first_all, FULL_ALPHA, 2, 'exh3')
        out += exhaustive(INIT_MIXED, first_all, FULL_ALPHA, 3, 'exh4')
        out += exhaustive(INIT_MIXED, [first_mm[0], first_mm[4]], SMALL_ALPHA, 4, 'exh5')
        out += exhaustive(INIT_X, first_x + ['L31', 'L80', 'L70'], X_ALPHA, 2, 'exh3x')
        out += exhaustive(INIT_I16, first_x, X_ALPHA, 2, 'exh3x')
        out += exhaustive(INIT_X, ['L61', 'L71', 'L81'], X_ALPHA, 3, 'exh4x')
        out += exhaustive(INIT_MIXED, ['L01', 'L21', 'L31', 'L41', 'L02', 'L00'], W_ALPHA, 2, 'exh3w')
        out += exhaustive(INIT_MIXED, ['L01', 'L31', 'L41'], W_ALPHA, 3, 'exh4w')
        out += random_cases(rng, 20000)
    else:   # search
        out += exhaustive(INIT_MIXED, first_all, FULL_ALPHA, 2, 'exh3')
        out += exhaustive(INIT_X, first_x, X_ALPHA, 2, 'exh3x')
        out += exhaustive(INIT_MIXED, ['L01', 'L21', 'L31', 'L41', 'L02'], W_ALPHA, 2, 'exh3w')
        out += random_cases(rng, 6000, safe_bias=0.9)
    return out


# ------------------------------------------------------------------------------------------- running children

CHUNK = 250
MAX_CRASHES = 120       # beyond this the tree is plainly broken; stop paying a process start per crash
_NCRASH = [0]


def _parse_out(path, jobs):
    """-> {idx: (tokens, problems, ended, cur_op)}"""
    res = {}
    try:
        raw = open(path, 'rb').read().decode('utf8', 'replace')
    except FileNotFoundError:
        raw = ''
    for ln in raw.split('\n'):
        if not ln:
            continue
        try:
            rec = json.loads(ln)
        except ValueError:
            continue   # torn last line of a killed child
        i = rec['i']
        r = res.setdefault(i, {'tok': [], 'prob': [], 'end': False, 'cur': None})
        if 'op' in rec:
            r['cur'] = rec['op']
        if 'tok' in rec:
            r['tok'].append(rec['tok'])
        if 'prob' in rec:
            r['prob'].append(rec['prob'])
        if rec.get('end'):
            r['end'] = True
    return res


def _run_chunk(jobs, workroot):
    """jobs: list of (key, data).  Runs them in child processes, restarting after a crash."""
    results = {}
    todo = list(jobs)
    rounds = 0
    while todo:
        rounds += 1
        jd = tempfile.mkdtemp(dir=workroot)
        jobfile, outfile = os.path.join(jd, 'jobs.json'), os.path.join(jd, 'out.jsonl')
        with open(jobfile, 'w') as f:
            json.dump([d for _, d in todo], f)
        env = dict(os.environ)
        env['NIBABEL_REPO'] = REPO
        env['PYTHONDONTWRITEBYTECODE'] = '1'
        proc = subprocess.run([sys.executable, '-W', 'ignore', os.path.abspath(__file__), '--child', jobfile, outfile, jd],
                              stdout=subprocess.DEVNULL, stderr=subprocess.PIPE, env=env,
                              timeout=60 + 2 * len(todo))
        parsed = _parse_out(outfile, todo)
        done = 0
        for i, (k, d) in enumerate(todo):
            r = parsed.get(i)
            if r is None:
                break
            if r['end']:
                results[k] = (' '.join(r['tok']), r['prob'])
                done = i + 1
                continue
            # the child died inside history i
            rc = proc.returncode
            how = ('killed by ' + signal.Signals(-rc).name) if rc < 0 else f'exited {rc}: {proc.stderr.decode()[-300:]}'
            cur = r['cur']
            tok = list(r['tok'])
            if cur is None or cur[0] == 'final':
                tok.append('live=BAD')
                where = 'op#%d final usability probe' % len(d['ops'])
            else:
                tok.append(cur[1][0] + ':BAD')
                where = 'op#%d %s' % (cur[0], cur[1])
            results[k] = (' '.join(tok), r['prob'] + [f'{where}: child process {how}'])
            done = i + 1
            break
        shutil.rmtree(jd, ignore_errors=True)
        if done == 0:
            # not a statement about nibabel: the child could not even start (surfaces as a broken correspondence)
            msg = 'ERR:infrastructure child made no progress rc=%s %s' % (
                proc.returncode, proc.stderr.decode()[-200:].replace('\n', ' '))
            for k, d in todo:
                results[k] = (msg, [])
            break
        todo = todo[done:]
        if todo and len(todo) < len(jobs):
            _NCRASH[0] += 1
            if _NCRASH[0] > MAX_CRASHES:
                for k, d in todo:
                    results[k] = ('SKIPPED:more-than-%d-child-crashes-in-this-run' % MAX_CRASHES, [])
                break
    return results


def _ensure(keys):
    need = [k for k in keys if k not in _RES]
    if not need:
        return
    # run every registered, not yet run case too: batching is what makes child processes affordable
    pend = [k for k in _REG if k not in _RES]
    pend.sort(key=lambda k: (k[2], k[0]))      # same initial file system together: templates are reused
    jobs = [(k, _REG[k].data) for k in pend]
    chunks = [jobs[i:i + CHUNK] for i in range(0, len(jobs), CHUNK)]
    nw = max(1, min(int(os.environ.get('C09_WORKERS', '0') or 0) or 16, os.cpu_count() or 2, len(chunks)))
    shm = '/dev/shm' if os.path.isdir('/dev/shm') and os.access('/dev/shm', os.W_OK) else None
    with tempfile.TemporaryDirectory(prefix='c09_', dir=shm) as workroot:
        if nw == 1:
            for ch in chunks:
                _RES.update(_run_chunk(ch, workroot))
        else:
            with ThreadPoolExecutor(nw) as ex:
                for r in ex.map(lambda ch: _run_chunk(ch, workroot), chunks):
                    _RES.update(r)


def impl(case):
    k = _key(case.data)
    _REG.setdefault(k, case)
    _ensure([k])
    line, probs = _RES[k]
    case.extra = {'problems': probs}
    return line


def oracle(case, out):
    k = _key(case.data)
    if k not in _RES or _RES[k][0] != out:
        return None if not out.startswith('ERR') else 'harness error ' + out
    probs = _RES[k][1]
    return probs[0] if probs else None


# ------------------------------------------------------------------------------------------- classification

def _layout_track(d, line):
    """From the OBSERVED tokens: index of the first op at which the live image's source file had been re-laid-out by
    a save onto it (None if never), and whether an fdata memmap alias could be cached at that moment."""
    toks = line.split(' ')
    lay = {}
    for p, tok in enumerate(d['init']):
        if tok != '-':
            dt, be, sc = parse_init(tok)
            lay[p] = (dt, sc, be or p in MGH_PATHS)
    src = src_lay = None
    mm = False
    cached = set()
    stale_at = alias = None
    for k, (op, tok) in enumerate(zip(d['ops'], toks)):
        if op[0] == 'L' and tok == 'L:ok':
            src, mm = pidx(op[1]), op[2] in '123'
            src_lay = lay.get(src)
            cached = set()
            stale_at = alias = None
        elif op.partition('@')[0] in ('F', 'F4') and tok.startswith('F:') and tok != 'F:BAD':
            cached = {'f32' if op.startswith('F4') else 'f64'}     # one cache, of the dtype asked for last
        elif op == 'U':
            cached = set()
        elif op[0] == 'W' and tok == 'ok':
            # the new image reads the source file only through a view of the map / the proxy
            mapped = mm and src is not None and src not in COMPRESSED and src_lay is not None and not src_lay[1]
            k = int(op[1:])
            rawmap = (k == 13 and src is not None and src not in COMPRESSED and src_lay is not None and not src_lay[1])
            if k == 2 or rawmap:
                pass                              # still reads the source file (proxy / a map built from the path)
            elif k == 8 or not mapped or (k == 9 and not (src_lay[0] == 'f64' and not src_lay[2])):
                src = src_lay = None          # owns its memory: nothing can go stale
            cached = set()
        elif op[0] == 'S' and tok.startswith('S:') and tok.count('/') == 5:
            q = pidx(op[1])
            dts = tok.split('/')[2]
            newlay = (dts.lstrip('>').rstrip('s'), dts.endswith('s'), dts.startswith('>'))
            lay[q] = newlay
            if q == src and newlay != src_lay and stale_at is None:
                stale_at = k
                alias = (mm and src not in COMPRESSED and src_lay is not None and not src_lay[1] and not src_lay[2] and
                         src_lay[0] in cached)
    return stale_at, alias


def signature(case, what):
    d = case.data
    k = _key(d)
    m = re.match(r'op#(\d+) ([A-Za-z0-9]+)', what or '')
    if k in _RES and m:
        at, opname = int(m.group(1)), m.group(2)
        stale_at, alias = _layout_track(d, _RES[k][0])
        reads_live = opname in ('F', 'F4', 'B', 'final') or opname[0] in 'SW'
        wrote_wrong = 'written file' in what
        if stale_at is not None and at > stale_at and reads_live and not wrote_wrong:
            if alias and opname in ('F', 'F4', 'final'):
                return SIG_FDATA
            return SIG_PROXY
        return 'history:' + opname[0] + (':crash' if 'child process' in what else '')
    return 'history:?'


def shrink_candidates(case):
    d = case.data
    ops = d['ops']
    cand = []          # built (= registered) up front: the first impl() call runs them all in ONE child
    for i in range(len(ops) - 1, -1, -1):
        cand.append(mk_case(d['init'], ops[:i] + ops[i + 1:], d['big'], case.stream))
    if d['big']:
        cand.append(mk_case(d['init'], ops, False, case.stream))
    for p in range(NP):
        if d['init'][p] not in ('i16',):
            init = list(d['init'])
            init[p] = 'i16'
            cand.append(mk_case(init, ops, d['big'], case.stream))
    yield from cand


# ------------------------------------------------------------------------------------------- the child

def _child(jobfile, outfile, workdir):
    import warnings

    import numpy as np
    repo = os.environ.get('NIBABEL_REPO', '/repo')
    if repo in sys.path:
        sys.path.remove(repo)
    sys.path.insert(0, repo)
    import nibabel as nib
    warnings.simplefilter('ignore')
    np.seterr(all='ignore')
    fd = os.open(outfile, os.O_WRONLY | os.O_CREAT | os.O_APPEND, 0o644)

    def emit(**kw):
        os.write(fd, (json.dumps(kw) + '\n').encode())

    def data_for(i, shape):
        n = int(np.prod(shape))
        return ((np.arange(n).reshape(shape) * 7) % 13 + 1 + 20 * i).astype('int32')

    def aff_for(k):
        if k == EXPR:       # what an SPM Analyze header with these zooms and the current shape expresses by itself
            h = nib.Spm2AnalyzeImage.header_class()
            h.set_data_shape(shape)
            h.set_zooms((2.0, 3.0, 4.0))
            return np.array(h.get_best_affine())
        a = np.diag([2.0, 3.0, 4.0, 1.0])
        if k % 2:
            a[0, 0] = -2.0
        a[:3, 3] = [-10.0 - 8 * k, -20.0 + 4 * k, -30.0 - 2 * k]
        return a

    def data_id(arr, shape):
        arr = np.asarray(arr)
        if arr.shape != tuple(shape):
            return 'X'
        for i in range(NP):
            if np.allclose(arr, data_for(i, shape), atol=3, rtol=0):
                return str(i)
        return 'X'

    def aff_id(a):
        for k in range(EXPR + 1):
            if a.shape == (4, 4) and np.allclose(a, aff_for(k), atol=1e-3, rtol=0):
                return str(k)
        return 'X'

    DTN = {'uint8': 'u8', 'int16': 'i16', 'int32': 'i32', 'float32': 'f32', 'float64': 'f64'}
    CLS = {'Nifti1Image': 'N1', 'Nifti1Pair': 'NP', 'MGHImage': 'MG', 'Spm2AnalyzeImage': 'S2', 'Nifti2Image': 'N2',
           'Nifti2Pair': 'P2'}
    MMAP = {'0': (False, None), '1': (True, None), '2': ('r', None), '3': (True, True), '4': (False, True)}
    from nibabel.filebasedimages import ImageFileError
    from nibabel.volumeutils import native_code

    def dtname(img):
        """header dtype, prefixed with '>' when the header is not in native byte order (MGH: always big-endian)"""
        be = True if isinstance(img, nib.MGHImage) else img.header.endianness != native_code
        dt = img.get_data_dtype()
        return ('>' if be else '') + DTN.get(np.dtype(dt).newbyteorder('=').name, str(dt))

    def xf_of(img):
        """transform fields of a NIfTI header: codes and the affines sform / qform encode"""
        if not isinstance(img, nib.Nifti1Pair):
            return '-'
        h = img.header
        return 's%d.%sq%d.%s' % (int(h['sform_code']), aff_id(h.get_sform()), int(h['qform_code']),
                                 aff_id(h.get_qform()))

    def tag_of(img):
        h = img.header
        if isinstance(img, nib.MGHImage):
            return str(int(round(float(h['tr']))))
        s = bytes(h['descrip'].item()).rstrip(b'\x00').decode('latin1')
        return s[1:] if s.startswith('v') else ('0' if s == '' else '?' + s)

    def describe(img, shape):
        """content token of an image object + its (array, affine)"""
        arr = np.asanyarray(img.dataobj)
        sl, it = getattr(img.dataobj, 'slope', 1.0), getattr(img.dataobj, 'inter', 0.0)
        scaled = 's' if (sl, it) != (1.0, 0.0) else ''
        tok = '/'.join([data_id(arr, shape), aff_id(img.affine), dtname(img) + scaled, tag_of(img),
                        CLS.get(type(img).__name__, type(img).__name__), xf_of(img)])
        return tok, np.array(arr), np.array(img.affine)

    def fresh(path, shape):
        if not os.path.exists(path):
            return '-', None, None
        try:
            return describe(nib.load(path, mmap=False), shape)
        except Exception:
            return 'T', None, None

    def same_bytes(a, b):
        ea, eb = os.path.exists(a), os.path.exists(b)
        if not ea or not eb:
            return ea == eb
        with open(a, 'rb') as fa, open(b, 'rb') as fb:
            return fa.read() == fb.read()

    templates = {}

    def template(init, big):
        key = (tuple(init), big)
        if key not in templates:
            shape = BIG if big else SMALL
            td = tempfile.mkdtemp(dir=workdir)
            for p, tok in enumerate(init):
                if tok == '-':
                    continue
                dt, be, sc = parse_init(tok)
                kl = getattr(nib, INIT_CLS.get(p, 'Nifti1Image'))
                hdr = kl.header_class(endianness='>') if be else None
                if sc:          # float data into an integer file: the array writer stores scale factors
                    im0 = kl(data_for(p, shape).astype('float32') + 0.25, aff_for(p), hdr)
                    im0.set_data_dtype(np.dtype(NP_DT[dt]))
                else:
                    im0 = kl(data_for(p, shape).astype(NP_DT[dt]), aff_for(p), hdr)
                    im0.set_data_dtype(np.dtype(NP_DT[dt]))       # a given header brings its own (default) dtype
                im0.to_filename(os.path.join(td, PATHS[p]))
            toks = [fresh(os.path.join(td, PATHS[p]), shape)[0] for p in range(NP)]
            templates[key] = (td, toks)
        return templates[key]

    def close(a, b, tol):
        return a is not None and b is not None and a.shape == b.shape and np.allclose(a, b, atol=tol, rtol=0)

    jobs = json.load(open(jobfile))
    for i, job in enumerate(jobs):
        init, ops, big = job['init'], job['ops'], bool(job.get('big'))
        shape = BIG if big else SMALL
        emit(i=i, op=None)
        try:
            td, init_toks = template(init, big)
        except Exception as e:      # the plain `Class(arr, affine).to_filename(name)` of the set-up failed
            emit(i=i, prob='op#0 setup: creating the initial files raised ' + repr(e)[:200])
            emit(i=i, tok='ERR:setup')
            emit(i=i, end=True)
            continue
        d = tempfile.mkdtemp(dir=workdir)
        for fn in os.listdir(td):
            shutil.copyfile(os.path.join(td, fn), os.path.join(d, fn))
        P = [os.path.join(d, n) for n in PATHS]
        os.chdir(d)
        if any('@' in o for o in ops):
            os.mkdir('sub')
            for fn in os.listdir(td):
                os.link(fn, 'hl_' + fn)
            for p_ in range(NP):     # symbolic links for every name of every path; dangling ones (absent file, .mat of
                for fn in side_names(p_):        # a pair that is not an SPM image yet) create the file when written through
                    os.symlink(fn, 'ln_' + fn)

        def hl_ok(p, saving):
            """the hard-link spelling names the same FILES only if every file of the path has its link (a .mat file
            that appears later has none)"""
            names = side_names(p)
            if any(os.path.lexists(n) and not os.path.lexists('hl_' + n) for n in names):
                return False
            if not os.path.lexists('hl_' + PATHS[p]):
                return False
            if saving and p in IMG_PATHS and isinstance(img, nib.Spm99AnalyzeImage) and \
                    not os.path.lexists('hl_' + names[2]):
                return False
            return True

        def spelled(op):
            """file name to hand to nibabel for `L<p><m>[@k]` / `S<p>[@k]`"""
            body, _, k = op.partition('@')
            p, k = pidx(body[1]), int(k or 0)
            name = PATHS[p]
            if k == 1:
                return name
            if k == 2:
                return './' + name
            if k == 3:
                return 'sub/../' + name
            if k == 4:
                return 'ln_' + name
            if k == 5 and hl_ok(p, body[0] == 'S'):
                return 'hl_' + name
            if k == 6 and p in IMG_PATHS:
                return HDR_NAME[p]
            return P[p]

        def do_save(op):
            """nib.save, or one of the other entry points of the same save"""
            k = int(op.partition('@')[2] or 0)
            target = spelled(op)
            if k == 7:
                try:
                    img.to_filename(target)
                except ImageFileError:
                    nib.save(img, target)
            elif k == 8:
                cur = img.get_filename()
                if cur is not None and os.path.exists(cur) and os.path.exists(target) and os.path.samefile(cur, target):
                    img.to_file_map()
                else:
                    nib.save(img, target)
            else:
                nib.save(img, target)
        img = None
        mview = None
        live = None            # snapshot of the data the live image had when loaded
        last_tok = {}          # path index -> content token right after the last save onto it
        dead = False
        for k, op in enumerate(ops):
            emit(i=i, op=[k, op])
            c = op[0]
            tok, prob = None, None
            if c == 'L':
                try:
                    new = nib.load(spelled(op), mmap=MMAP[op[2]][0], keep_file_open=MMAP[op[2]][1])
                    snap = np.array(new.dataobj)
                    img, live = new, snap
                    tok = 'L:ok'
                except Exception:
                    tok = 'L:ERR'
                    if init[pidx(op[1])] != '-' and pidx(op[1]) not in last_tok:
                        prob = 'load of an existing file raised'
            elif img is None:
                tok = '-'
            elif c == 'F':
                try:
                    a = np.array(img.get_fdata(dtype=np.float32) if op.startswith('F4') else img.get_fdata())
                    di = data_id(a, shape)
                except Exception as e:
                    a, di = None, 'X'
                    prob = 'get_fdata raised ' + repr(e)[:120]
                if di == 'X':
                    tok, dead = 'F:BAD', True
                    prob = prob or 'get_fdata returned data that are not the image data'
                else:
                    tok = 'F:' + di
                    if not close(a, live, 0.5):
                        prob = 'get_fdata differs from the data the image had when loaded'
            elif c == 'U':
                img.uncache()
                tok = 'ok'
            elif c == 'E':
                kk = int(op[1:])
                if isinstance(img, nib.MGHImage):
                    img.header['tr'] = float(kk)
                else:
                    img.header['descrip'] = b'v%d' % kk
                tok = 'ok'
            elif c == 'A':
                A = aff_for(int(op[1:]))
                if not hasattr(img, 'set_sform'):       # MGH, SPM2 Analyze: no transform API on the image
                    img.affine[:] = A
                else:
                    img.set_sform(A, code=2)
                    img.set_qform(A, code=2)
                tok = 'ok'
            elif c == 'H':
                # edit the HEADER's affine fields directly; img.affine is untouched
                kk = int(op[1:])
                B = aff_for(kk)
                if isinstance(img, nib.MGHImage):
                    tmp = nib.MGHImage(np.zeros(shape, np.float32), B)
                    for f in ('delta', 'Mdc', 'Pxyz_c'):
                        img.header[f] = tmp.header[f]
                elif not isinstance(img, nib.Nifti1Pair):
                    img.header['origin'][:3] = (kk % 7 + 1, 2, 3)     # SPM: the affine itself lives in the .mat file
                elif kk % 2:
                    img.header.set_sform(None, code=0)
                    img.header.set_qform(B, code=2)
                else:
                    img.header.set_sform(B, code=3)
                tok = 'ok'
            elif c == 'W':
                # replace the live image by a NEW array image of the same class built from its data
                kk = int(op[1:])
                try:
                    do = img.dataobj
                    if kk >= 10:
                        from numpy.lib.stride_tricks import as_strided, sliding_window_view
                        mview = np.asanyarray(do)
                    raw_ok = (kk == 13 and isinstance(do, nib.arrayproxy.ArrayProxy) and isinstance(do.file_like, str) and
                              not do.file_like.endswith(('.gz', '.bz2', '.zst', '.mgz')) and
                              (do.slope, do.inter) == (1.0, 0.0))

                    def from_raw_map():
                        """np.frombuffer over a fresh mmap.mmap of the proxy's file (no np.memmap anywhere)"""
                        import mmap
                        with open(do.file_like, 'rb') as fh:
                            mm_ = mmap.mmap(fh.fileno(), 0, access=mmap.ACCESS_READ)
                        return np.frombuffer(mm_, dtype=do.dtype, count=int(np.prod(do.shape)),
                                             offset=do.offset).reshape(do.shape, order=do.order)
                    arr = {0: lambda: np.asarray(do), 1: lambda: np.asanyarray(do), 2: lambda: do,
                           3: lambda: np.asarray(do)[::1], 4: lambda: np.asarray(do).T.T,
                           5: lambda: np.asanyarray(do).view(np.ndarray), 6: lambda: np.asfortranarray(np.asanyarray(do)),
                           7: lambda: np.asanyarray(do)[..., :], 8: lambda: np.array(do), 9: lambda: img.get_fdata(),
                           10: lambda: as_strided(mview, shape=mview.shape, strides=mview.strides),
                           11: lambda: np.asarray(memoryview(mview)),
                           12: lambda: sliding_window_view(mview, (1, 1, 1))[..., 0, 0, 0],
                           13: lambda: from_raw_map() if raw_ok else
                           as_strided(mview, shape=mview.shape, strides=mview.strides)}[kk]()
                    new = type(img)(arr, img.affine, img.header)
                    wok = new.get_filename() is None and data_id(np.array(new.dataobj), shape) != 'X'
                except Exception as e:
                    wok = False
                    prob = 're-wrapping the live image raised ' + repr(e)[:120]
                if wok:
                    img, tok = new, 'ok'
                    del do, arr, new
                    mview = None
                else:
                    tok, dead = 'W:BAD', True
                    prob = prob or 'the re-wrapped image does not yield the image data'
            elif c == 'D':
                try:
                    img.set_data_dtype(np.dtype(NP_DT[op[1:]]))
                    tok = 'D:ok'
                except Exception:
                    tok = 'D:ERR'
            elif c == 'B' and not hasattr(img, 'to_bytes'):
                tok = 'B:ERR'       # pair images are not serialisable to one byte string; nothing is read
            elif c in 'SB':
                try:
                    pre = np.array(img.dataobj)
                    pre_aff = np.array(img.affine)
                    pre_ok = data_id(pre, shape) != 'X'
                except Exception as e:
                    pre_ok = False
                    prob = 'reading the live image raised ' + repr(e)[:120]
                if not pre_ok:
                    tok, dead = c + ':BAD', True
                    prob = prob or 'the live image no longer yields its data'
                elif c == 'S':
                    q = pidx(op[1])
                    try:
                        do_save(op)
                        ftok, farr, faff = fresh(P[q], shape)
                        tok = 'S:' + ftok
                        last_tok[q] = ftok
                        exact = not ftok.split('/')[2].endswith('s') if ftok.count('/') == 5 else True
                        if farr is None:
                            prob = 'written file cannot be loaded'
                        elif not close(farr, pre, 0.0 if exact and pre.dtype.kind != 'f' else 0.5):
                            prob = ('written file decodes to data different from the image data at that save '
                                    '(nonzero %d/%d)' % (int(np.count_nonzero(farr)), farr.size))
                        elif not close(faff, pre_aff, 1e-4):
                            prob = 'written file decodes to an affine different from the image affine at that save'
                    except Exception as e:
                        tok = 'S:ERR:' + type(e).__name__
                        prob = 'save raised ' + repr(e)[:160]
                else:
                    try:
                        by = img.to_bytes()
                        btok, barr, baff = describe(type(img).from_bytes(by), shape)
                        tok = 'B:' + btok
                        if not close(barr, pre, 0.5) or not close(baff, pre_aff, 1e-4):
                            prob = 'to_bytes decodes to data/affine different from the image'
                    except AttributeError:
                        tok = 'B:ERR'
                    except Exception as e:
                        tok = 'B:ERR:' + type(e).__name__
                        prob = 'to_bytes raised ' + repr(e)[:160]
            else:
                tok = 'bad-op'
            if prob:
                emit(i=i, prob='op#%d %s: %s' % (k, op, prob))
            emit(i=i, tok=tok)
            if dead:
                break
        if not dead:
            emit(i=i, op=['final', 'final'])
            n = len(ops)
            if img is None:
                emit(i=i, tok='live=none')
            else:
                try:
                    a1 = np.array(img.get_fdata())
                    a2 = np.array(img.dataobj)
                    d1, d2 = data_id(a1, shape), data_id(a2, shape)
                    err = None
                except Exception as e:
                    d1 = d2 = 'X'
                    a1 = a2 = None
                    err = repr(e)[:120]
                if 'X' in (d1, d2):
                    emit(i=i, prob='op#%d final: the live image is no longer usable (%s)' %
                         (n, err or 'it yields data that are not its data'))
                    emit(i=i, tok='live=BAD')
                    dead = True
                else:
                    if not close(a1, live, 0.5) or not close(a2, live, 0.5):
                        emit(i=i, prob='op#%d final: the live image yields data different from when it was loaded' % n)
                    fn = os.path.basename(img.get_filename() or '')
                    fn = fn[3:] if fn[:3] in ('ln_', 'hl_') else fn
                    fi = PCH[PATHS.index(fn)] if fn in PATHS else '-'
                    emit(i=i, tok='live=' + '/'.join([CLS.get(type(img).__name__, type(img).__name__),
                                                      dtname(img), tag_of(img), aff_id(img.affine),
                                                      ('hX' if isinstance(img, nib.Spm99AnalyzeImage) else     # SPM: the affine lives in the .mat file
                                                       'h' + aff_id(img.header.get_best_affine())), xf_of(img), fi, d1, d2]))
        if not dead:
            fin = []
            for p in range(NP):
                # an untouched file (byte-identical to the template, pair: all its files) decodes as it did initially
                names = side_names(p)
                if p not in last_tok and all(same_bytes(os.path.join(d, n), os.path.join(td, n)) for n in names):
                    fin.append(init_toks[p])
                else:
                    fin.append(fresh(P[p], shape)[0])
            for p in range(NP):
                if p in last_tok:
                    if fin[p] != last_tok[p]:
                        emit(i=i, prob='op#%d fs: written file %s changed after its last save: %s -> %s' %
                             (n, PATHS[p], last_tok[p], fin[p]))
                elif fin[p] != init_toks[p]:
                    emit(i=i, prob='op#%d fs: written file %s was never saved to but changed: %s -> %s' %
                         (n, PATHS[p], init_toks[p], fin[p]))
            emit(i=i, tok='fs=' + ';'.join(fin))
        img = live = None
        emit(i=i, end=True)
        os.chdir(workdir)
        shutil.rmtree(d, ignore_errors=True)
    os.close(fd)


if __name__ == '__main__':
    if len(sys.argv) == 5 and sys.argv[1] == '--child':
        _child(sys.argv[2], sys.argv[3], sys.argv[4])
        sys.exit(0)
    sys.exit(2)
