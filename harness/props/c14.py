"""C14 — concurrent reads through a shared file handle never mix up data.

Real code under test: nibabel/arrayproxy.py (`_lock`, `copy()`, `_get_fileobj`, `_get_unscaled`),
nibabel/fileslice.py (`read_segments`: per segment `with lock: seek; read`), nibabel/volumeutils.py
(`array_from_file`).

Real Python threads run under a deterministic scheduler: exactly one managed thread is runnable at a time;
every instrumented operation (lock acquire/release, seek, read, readinto, tell, opening the persistent
opener, reading/writing the `_opener` slot) is a yield point at which the thread parks until the controller
grants it ONE operation.  Instrumentation needs no change to /repo: the module global
`nibabel.arrayproxy.RLock` is rebound to a tracing lock class, `nibabel.arrayproxy.openers` to a shim whose
`ImageOpener` wraps the real file in a tracing wrapper, the file object is a tracing `io.BytesIO`, and the
`_opener` attribute is observed through a data descriptor on a harness subclass of ArrayProxy.

A schedule is a list of thread ids (one granted operation each); after the explicit list both sides continue
with the same non-pre-emptive default policy (keep running the last thread while it is enabled, else the
lowest enabled id).  The same configuration + schedule goes to the Lean driver, which runs the small-step
model; the event traces `(thread, op, lock/handle, offset/len, data hash)` and per-thread results must be
string-equal.
"""
import _thread
import ast
import atexit
import io
import os
import shutil
import sys
import tempfile
import threading
import types

import numpy as np

from common import Case, errname
from props.c06 import fmt_idx, item_from_data, item_to_data

PID = 'C14'
LEAN_TARGETS = ['NibabelModel.Props.C14']
THEOREMS = [
    'Nb.C14.inv_step',
    'Nb.C14.step_frame',
    'Nb.C14.inv_reachable',
    'Nb.C14.file_op_holds_lock',
    'Nb.C14.mutex_invariant',
    'Nb.C14.reads_decompose',
    'Nb.C14.reads_correct',
    'Nb.C14.reads_complete',
    'Nb.C14.concurrent_eq_single_threaded',
    'Nb.C14.wf_lockedSegs',
    'Nb.C14.wf_lockedWhole',
    'Nb.C14.wf_getFileobjPersist',
    'Nb.C14.solo_lockedSegs',
    'Nb.C14.solo_lockedWhole',
    'Nb.C14.nibabel_reads_correct',
    'Nb.C14.copy_shares_lock',
    'Nb.C14.pinv_step',
    'Nb.C14.progress',
    'Nb.C14.no_deadlock',
    'Nb.C14.fair_completes',
    'Nb.C14.all_threads_complete',
    'Nb.C14.round_robin_completes',
    'Nb.C14.fair_run_correct',
    'Nb.C14.good_pieces',
    'Nb.C14.nibabel_all_complete',
    'Nb.C14.results_eq_single_threaded',
    'Nb.C14.slicedJob_plan',
    'Nb.C14.sliced_result_eq_numpy_partial',
    'Nb.C14.thread_results_eq_numpy_partial',
    'Nb.C14.reshape_new_lock_counterexample',
    'Nb.C14.no_lock_counterexample',
    'Nb.C14.split_lock_counterexample',
    'Nb.C14.copy_new_lock_counterexample',
    # phase 3: lock topology of derivation histories
    'Nb.C14.copyLock_cases',
    'Nb.C14.edge_same_lock',
    'Nb.C14.conn_to_lock',
    'Nb.C14.copy_only_lock_zero',
    'Nb.C14.path_locks_private',
    'Nb.C14.same_lock_iff_copy_connected',
    'Nb.C14.noncopy_takes_new_lock',
    'Nb.C14.family_reads_correct',
    'Nb.C14.copy_family_reads_correct',
    'Nb.C14.setstate_new_lock_counterexample',
    # phase 3: skeletons regenerated from the source (Generated/C14Src.lean) proved equal to the model
    'Nb.C14.gen_readSegments_eq',
    'Nb.C14.gen_readSegments_nolock_eq',
    'Nb.C14.gen_lock_rules_eq',
    'Nb.C14.gen_getUnscaled_eq',
    'Nb.C14.lock_discipline_record',
    # phase 3: byte layer, length half
    'Nb.C14.mkFile_length',
    'Nb.C14.hbytes_mkFile',
    'Nb.C14.thread_results_eq_numpy_mkFile_partial',
    # wave 3: handle / lock topology of families (any root, any history) and its run-time counterpart
    'Nb.C14.finv_step',
    'Nb.C14.shared_handle_implies_shared_lock_family',
    'Nb.C14.shared_handle_implies_shared_lock',
    'Nb.C14.name_family_handles_private',
    'Nb.C14.setstate_used_shares_handle_counterexample',
    'Nb.C14.fam_eq_proxyLocks',
    'Nb.C14.family_iff_copy_connected',
    'Nb.C14.setOk_pieces',
    'Nb.C14.hinv_step',
    'Nb.C14.no_new_handle_sharing',
    'Nb.C14.family_openers_stay_private',
    'Nb.C14.handle_discipline_record',
    # wave 3: one handle per read (file name, keep_file_open=False): correct whatever the locks
    'Nb.C14.oinv_step',
    'Nb.C14.private_handle_reads_correct',
    'Nb.C14.name_family_reads_correct',
    'Nb.C14.plan_perRead_sliced',
]
ASSUMPTIONS = [
    'hand-written small-step Lean model (Model/C14.lean) of the lock/seek/read/opener-slot steps of '
    'arrayproxy._get_unscaled/_get_fileobj/copy, fileslice.read_segments and volumeutils.array_from_file; tied '
    'to the code by comparing event traces and per-thread results of REAL threads under a deterministic '
    'scheduler with the model on every enumerated schedule of this run',
    'CPython threads are abstracted as an arbitrary interleaving of the instrumented operations, each taken '
    'as atomic (seek/read/readinto/tell of the file object, RLock acquire/release, the attribute test/assignment '
    'of `_opener`); pre-emption inside such an operation is not modelled (GIL / file-object internals)',
    'threading.RLock semantics (owner + recursion count, acquire blocks while another thread owns it) are those '
    'of the tracing lock class the harness substitutes for `nibabel.arrayproxy.RLock`',
    'np.memmap: its own `seek(0,2); tell()` on the handle are modelled (they happen under the lock); the data '
    'of a successfully memory-mapped real file are taken from the file contents (OS mmap contract)',
    'segments of a sliced read come from the C06 model (calcSlicedefs with the default threshold heuristic); '
    'NumPy basic indexing is the reference for the expected per-thread result',
    'ArrayProxy.reshape and copy.copy()/unpickling (__setstate__) create a new lock over the same handle: outside '
    'the property (copy() only) - the oracle does not demand correct data for reads mixing copy()-families, but the '
    'correspondence streams topo/random-topo run them on the real code and the model predicts the observed '
    'interference exactly (observation theorems reshape_new_lock_counterexample, setstate_new_lock_counterexample; '
    'general statement noncopy_takes_new_lock)',
    'source tie: Generated/C14Src.lean (lock/seek/read skeletons of read_segments, _get_unscaled, fileslice and the '
    'lock rules of copy/__setstate__/reshape) and Generated/C14Lock.lean (lexical lock-discipline record of '
    'fileslice.py and arrayproxy.py) are extracted from the AST of the working tree on every run by a purely '
    'syntactic walk that fails loudly on shapes it does not understand; trusted: that walk (c14.py), and that '
    'volumeutils.array_from_file touches the file only through the seek/readinto/read it is observed to perform '
    '(array_from_file itself is not translated; its memmap attempt is the np.memmap contract)',
    'wave 3 - handle topology: the family model `Fam` (per proxy: lock, copy()-family, handle kind = caller-supplied '
    'object / persistent opener / one handle per read, opener object already created) is hand-written from copy(), '
    'reshape(), __getstate__/__setstate__, _should_keep_file_open and _get_fileobj; tied to the code by the '
    '`topology` stream (identities of the REAL lock and handle objects of every generated family, compared with the '
    'model and judged directly) and by Generated/C14Handle.lean (lexical record of every `_opener` store/load, '
    '`__dict__` use, `__getstate__` pop, constructor-call arguments, keep-open rule, `_get_fileobj` body; '
    'handle_discipline_record); KEEP_FILE_OPEN_DEFAULT is taken to be False and indexed_gzip to be importable (as in '
    'this environment: `.gz` names always persist their opener)',
    'the exclusion theorems (Inv, reads_correct, ...) are about threads whose file operations are all under ONE '
    'lock; for families over a file NAME (one lock and one handle per proxy) what is PROVED is that no two proxies '
    'of a copy()-family ever hold the same handle - statically (shared_handle_implies_shared_lock, '
    'name_family_handles_private) and in every reachable state of the small-step model (no_new_handle_sharing, '
    'family_openers_stay_private); that reads through different proxies with different handles do not disturb each '
    'other is covered by the small-step model being RUN against the real threads (streams name-topo, '
    'random-name-topo), not by a theorem about multi-lock runs',
    'closing of per-read handles and `__del__` of proxies are not modelled; in the model `opn` binds the thread\'s '
    '`fileobj` to the new handle at once (in the persistent path the real code binds it at the following `yield '
    'self._opener`, modelled by `getSlot`; no file operation happens in between)',
    'end-to-end theorems (*_partial): of the byte layer the LENGTH of the bytes read is proved on the driver file '
    '(hbytes_mkFile); that decodeLE reads the little-endian element bytes back (hypothesis SReq.OKd.hdec / '
    'SReq.OK.hdec) is still assumed (checked by `decide` on the example and by the correspondence stream on every '
    'case); whole-array requests are covered up to '
    '"result = decoder(single-threaded bytes)" (results_eq_single_threaded), not composed with NumPy',
]
RULE = ('cases = (scenario in {proxy over an open BytesIO handle, over a minimal file-like without fileno/readinto, '
        'over a real OS file object (np.memmap succeeds), over an Opener object; proxy on a file NAME with '
        'keep_file_open=True / False, plain and .gz (indexed gzip)} '
        'x derivation history of further proxies over the same handle (copy(), two copies, copy of a copy, chains, '
        'reshape() then copy(), copy() then reshape(), copy.copy() = __setstate__) with reads through any 2-3 of them '
        'x mmap in {True,False} x array layout (F and C order) x per-thread read lists (1-2 reads: multi-segment '
        'slice, single-segment slice, one segment covering all data, segment at the data offset, zero segments, '
        'whole array via np.asarray / all-full index, optionally inside a caller-held `with proxy._lock`) for 2-3 '
        'threads) x schedules enumerated '
        'systematically by stateless DFS with a bounded number of pre-emptions (quick <=2, thorough <=3/4), plus '
        'seeded random schedules incl. grants to blocked/finished threads, plus raw `read_segments` calls with '
        'arbitrary segment lists sharing one lock; families over a file NAME (copy() before / after the source was '
        'read from, copy of a copy, second construction on the same name, reshape(), copy.copy() of a fresh / used '
        'proxy) with reads through DIFFERENT proxies; and, without threads, the handle/lock TOPOLOGY of every '
        'scenario x every history of <= 2 steps over {copy, copy.copy, reshape, further construction, completed read} + '
        'random longer histories (pickle round trips included), on plain ArrayProxy objects and on the dataobj of '
        'images loaded with nibabel.load: identities of the real lock / handle objects vs the family model, and '
        '"same handle => same lock" inside every copy()-family. Reads through proxies of ONE copy()-family are checked by the '
        'oracle and the model; reads mixing families (reshape()/copy.copy() take a new lock: outside the property) '
        'are compared with the model only, which predicts the interference exactly. A case is non-trivial when its '
        'completed schedule switches '
        'between two unfinished threads at least once; distinct by (configuration, completed schedule).')



# ------------------------------------------------------------------ source skeletons (regen)
# A syntactic walk over the AST of the CURRENT nibabel sources that extracts the lock/seek/read skeleton of
# read_segments, the lock rules of copy()/__setstate__/reshape() and the lock placement in _get_unscaled, and
# writes them as Lean definitions (Generated/C14Src.lean).  Props/C14 proves them equal to the model
# (gen_readSegments_eq, gen_lock_rules_eq, gen_getUnscaled_eq), so a change of the lock discipline in the
# source breaks a PROOF, independently of the schedules the run happens to explore.  Anything the walk does
# not understand raises SkelError (reported as proof-broken), never a silent default.

class SkelError(Exception):
    pass


def _src(node):
    return ast.unparse(node)


def _is_name(n, name):
    return isinstance(n, ast.Name) and n.id == name


def _is_self_attr(n, attr):
    return isinstance(n, ast.Attribute) and _is_name(n.value, 'self') and n.attr == attr


def _func(module, qual):
    """FunctionDef node of `qual` ('name' or 'Class.name') in the SOURCE FILE of `module`"""
    tree = ast.parse(open(module.__file__).read())
    parts = qual.split('.')
    body = tree.body
    node = None
    for p in parts:
        node = next((n for n in body if isinstance(n, (ast.FunctionDef, ast.ClassDef)) and n.name == p), None)
        if node is None:
            raise SkelError('cannot find %s in %s' % (qual, module.__file__))
        body = node.body
    return node


# ---------------------------------------------------------------- read_segments

def _mentions(node, names):
    return any(isinstance(n, ast.Name) and n.id in names for n in ast.walk(node))


def _file_calls(node, fobj):
    """calls `<fobj>.<method>(...)` inside node"""
    return [n for n in ast.walk(node)
            if isinstance(n, ast.Call) and isinstance(n.func, ast.Attribute) and _is_name(n.func.value, fobj)]


def _arg(call):
    if len(call.args) != 1 or call.keywords or not isinstance(call.args[0], ast.Name):
        raise SkelError('unsupported file call ' + _src(call))
    return call.args[0].id


def _events_of_simple(stmt, fobj):
    calls = _file_calls(stmt, fobj)
    out = []
    for c in calls:
        if c.func.attr == 'seek':
            out.append('[Action.seek %s]' % _arg(c))
        elif c.func.attr == 'read':
            out.append('[Action.read %s]' % _arg(c))
        else:
            raise SkelError('unsupported file operation ' + _src(c))
    return out


def _seg_test(test, segs):
    """`len(segments) == K` → Lean Bool"""
    if (isinstance(test, ast.Compare) and len(test.ops) == 1 and isinstance(test.ops[0], (ast.Eq, ast.NotEq))
            and isinstance(test.left, ast.Call) and _is_name(test.left.func, 'len')
            and len(test.left.args) == 1 and _is_name(test.left.args[0], segs)
            and isinstance(test.comparators[0], ast.Constant) and isinstance(test.comparators[0].value, int)):
        op = '==' if isinstance(test.ops[0], ast.Eq) else '!='
        return '(%s.length %s %d)' % (segs, op, test.comparators[0].value)
    return None


def tr_block(stmts, fobj, lock, segs):
    """(Lean expression : List Action, terminates)"""
    if not stmts:
        return '[]', False
    st, rest = stmts[0], stmts[1:]

    def cont(e, term):
        if term:
            return e, True
        r, rt = tr_block(rest, fobj, lock, segs)
        return ('(%s ++ %s)' % (e, r) if e != '[]' else r), rt

    if isinstance(st, (ast.Return, ast.Raise)):
        if _file_calls(st, fobj):
            raise SkelError('file operation inside return/raise: ' + _src(st))
        return '[]', True
    if isinstance(st, ast.Expr) and isinstance(st.value, ast.Constant):
        return tr_block(rest, fobj, lock, segs)           # docstring
    if isinstance(st, ast.If):
        # `if lock is None: lock = _NullLock()`  — the lock parameter is modelled as `Option Nat`
        t = st.test
        if (isinstance(t, ast.Compare) and _is_name(t.left, lock) and len(t.ops) == 1 and isinstance(t.ops[0], ast.Is)
                and isinstance(t.comparators[0], ast.Constant) and t.comparators[0].value is None
                and len(st.body) == 1 and isinstance(st.body[0], ast.Assign) and _is_name(st.body[0].targets[0], lock)
                and isinstance(st.body[0].value, ast.Call) and _is_name(st.body[0].value.func, '_NullLock')
                and not st.orelse):
            return tr_block(rest, fobj, lock, segs)
        c = _seg_test(t, segs)
        b, bt = tr_block(st.body, fobj, lock, segs)
        o, ot = tr_block(st.orelse, fobj, lock, segs)
        if c is None:
            if b == '[]' and o == '[]' and not _mentions(st, {lock}):
                # a consistency check without file/lock effects (its branches may raise: error paths are
                # outside the model)
                return tr_block(rest, fobj, lock, segs)
            raise SkelError('unsupported condition guarding file/lock operations: ' + _src(t))
        r, rt = tr_block(rest, fobj, lock, segs)
        be = b if bt else ('(%s ++ %s)' % (b, r) if b != '[]' else r)
        oe = o if ot else ('(%s ++ %s)' % (o, r) if o != '[]' else r)
        return '(if %s then %s else %s)' % (c, be, oe), (bt or rt) and (ot or rt)
    if isinstance(st, ast.With):
        if len(st.items) != 1 or not _is_name(st.items[0].context_expr, lock) or st.items[0].optional_vars:
            raise SkelError('unsupported with statement: ' + _src(st.items[0]))
        b, bt = tr_block(st.body, fobj, lock, segs)
        e = '(lockAcq %s ++ %s ++ lockRel %s)' % (lock, b, lock)
        return cont(e, bt)
    if isinstance(st, ast.For):
        if not (_is_name(st.iter, segs) and isinstance(st.target, ast.Tuple) and len(st.target.elts) == 2
                and all(isinstance(e, ast.Name) for e in st.target.elts) and not st.orelse):
            raise SkelError('unsupported loop: ' + _src(st)[:80])
        b, bt = tr_block(st.body, fobj, lock, segs)
        if bt:
            raise SkelError('loop body returns')
        a, l = (e.id for e in st.target.elts)
        return cont('(%s.flatMap (fun (%s, %s) => %s))' % (segs, a, l, b), False)
    if isinstance(st, ast.Assign) and isinstance(st.targets[0], ast.Tuple) and isinstance(st.value, ast.Subscript) \
            and _is_name(st.value.value, segs):
        if not (isinstance(st.value.slice, ast.Constant) and st.value.slice.value == 0 and len(st.targets[0].elts) == 2):
            raise SkelError('unsupported segment access: ' + _src(st))
        a, l = (e.id for e in st.targets[0].elts)
        r, rt = tr_block(rest, fobj, lock, segs)
        return '(match %s.head? with | some (%s, %s) => %s | none => [])' % (segs, a, l, r), rt
    if isinstance(st, (ast.Assign, ast.Expr, ast.AugAssign, ast.AnnAssign)):
        if _mentions(st, {lock}) :
            raise SkelError('unsupported use of the lock: ' + _src(st))
        ev = _events_of_simple(st, fobj)
        return cont('(' + ' ++ '.join(ev) + ')' if ev else '[]', False)
    raise SkelError('unsupported statement: ' + _src(st)[:80])


def gen_read_segments(fs_module):
    f = _func(fs_module, 'read_segments')
    args = [a.arg for a in f.args.args]
    if args != ['fileobj', 'segments', 'n_bytes', 'lock']:
        raise SkelError('read_segments signature changed: %r' % args)
    e, term = tr_block(f.body, 'fileobj', 'lock', 'segments')
    return ('/-- lock/seek/read skeleton of `nibabel.fileslice.read_segments(fileobj, segments, n_bytes, lock)` -/\n'
            'def readSegments (lock : Option Nat) (segments : List (Nat × Nat)) : List Action :=\n  %s\n' % e)


# ---------------------------------------------------------------- lock rules of copy / __setstate__ / reshape

def _cond(test):
    if isinstance(test, ast.Call) and _is_self_attr(test.func, '_has_fh') and not test.args:
        return 'hasFh'
    if isinstance(test, ast.UnaryOp) and isinstance(test.op, ast.Not):
        return '(!%s)' % _cond(test.operand)
    raise SkelError('unsupported condition in lock rule: ' + _src(test))


def _lock_value(v):
    if _is_self_attr(v, '_lock'):
        return 'src'
    if isinstance(v, ast.Call) and _is_name(v.func, 'RLock') and not v.args:
        return 'fresh'
    raise SkelError('unsupported lock value: ' + _src(v))


def _lock_rule(stmts, cur, newnames):
    """symbolic value of the NEW proxy's `_lock` after `stmts`"""
    for st in stmts:
        if isinstance(st, ast.If):
            touches = any(isinstance(n, ast.Attribute) and n.attr == '_lock' and isinstance(n.ctx, ast.Store)
                          for n in ast.walk(st))
            if not touches:
                continue
            a = _lock_rule(st.body, cur, newnames)
            b = _lock_rule(st.orelse, cur, newnames)
            cur = '(if %s then %s else %s)' % (_cond(st.test), a, b)
        elif isinstance(st, ast.Assign):
            for tg in st.targets:
                if isinstance(tg, ast.Attribute) and tg.attr == '_lock':
                    if not (isinstance(tg.value, ast.Name) and tg.value.id in newnames):
                        raise SkelError('assignment to the lock of another object: ' + _src(st))
                    cur = _lock_value(st.value)
        else:
            if any(isinstance(n, ast.Attribute) and n.attr == '_lock' and isinstance(n.ctx, ast.Store)
                   for n in ast.walk(st)):
                raise SkelError('unsupported statement assigning a lock: ' + _src(st)[:80])
    return cur


def gen_lock_rules(ap_module):
    cp = _func(ap_module, 'ArrayProxy.copy')
    ss = _func(ap_module, 'ArrayProxy.__setstate__')
    gs = _func(ap_module, 'ArrayProxy.__getstate__')
    rs = _func(ap_module, 'ArrayProxy.reshape')
    init = _func(ap_module, 'ArrayProxy.__init__')
    # the constructor creates a fresh lock
    if _lock_rule(init.body, 'none', {'self'}) != 'fresh':
        raise SkelError('ArrayProxy.__init__ does not create a fresh RLock')
    # copy(): `new = self.__class__(...)` then the lock rule
    newn = [st.targets[0].id for st in cp.body if isinstance(st, ast.Assign) and isinstance(st.targets[0], ast.Name)
            and isinstance(st.value, ast.Call) and _is_self_attr(st.value.func, '__class__')]
    if len(newn) != 1:
        raise SkelError('copy(): constructor call not found')
    copy_e = _lock_rule(cp.body, 'fresh', set(newn))
    # __setstate__: the pickled state carries no lock (popped by __getstate__) …
    popped = any(isinstance(n, ast.Call) and isinstance(n.func, ast.Attribute) and n.func.attr == 'pop'
                 and n.args and isinstance(n.args[0], ast.Constant) and n.args[0].value == '_lock'
                 for n in ast.walk(gs))
    ss_e = _lock_rule(ss.body, 'none' if popped else 'src', {'self'})
    if ss_e == 'none':
        raise SkelError('__setstate__ leaves the proxy without a lock')
    # reshape(): returns a newly constructed proxy; no lock assignment → the constructor's fresh lock
    ret = [st for st in rs.body if isinstance(st, ast.Return)]
    if not (ret and isinstance(ret[-1].value, ast.Call) and _is_self_attr(ret[-1].value.func, '__class__')):
        newr = [st.targets[0].id for st in rs.body if isinstance(st, ast.Assign) and isinstance(st.targets[0], ast.Name)
                and isinstance(st.value, ast.Call) and _is_self_attr(st.value.func, '__class__')]
        if len(newr) != 1:
            raise SkelError('reshape(): constructor call not found')
        rs_e = _lock_rule(rs.body, 'fresh', set(newr))
    else:
        rs_e = _lock_rule(rs.body, 'fresh', set())
    return ('/-- lock of the proxy returned by `ArrayProxy.copy()` -/\n'
            'def copyLock (hasFh : Bool) (src fresh : Nat) : Nat := %s\n'
            '/-- lock of a proxy after `ArrayProxy.__setstate__` -/\n'
            'def setstateLock (src fresh : Nat) : Nat := %s\n'
            '/-- lock of the proxy returned by `ArrayProxy.reshape()` -/\n'
            'def reshapeLock (src fresh : Nat) : Nat := %s\n' % (copy_e, ss_e, rs_e)).replace('(src fresh : Nat) : Nat := fresh', '(_src fresh : Nat) : Nat := fresh')


# ---------------------------------------------------------------- _get_unscaled / fileslice

def gen_get_unscaled(ap_module, fs_module):
    f = _func(ap_module, 'ArrayProxy._get_unscaled')
    stmts = [s for s in f.body if not (isinstance(s, ast.Expr) and isinstance(s.value, ast.Constant))]
    if not (len(stmts) == 2 and isinstance(stmts[0], ast.If) and isinstance(stmts[1], ast.With)
            and not stmts[0].orelse and len(stmts[0].body) == 1 and isinstance(stmts[0].body[0], ast.With)):
        raise SkelError('_get_unscaled has an unexpected shape')

    def with_expr(w, callee, inner):
        pre, post = [], []
        for it in w.items:
            ce = it.context_expr
            if isinstance(ce, ast.Call) and _is_self_attr(ce.func, '_get_fileobj'):
                pre.append('getFileobj')
            elif _is_self_attr(ce, '_lock'):
                pre.append('[Action.acquire lock]')
                post.insert(0, '[Action.release lock]')
            else:
                raise SkelError('unsupported context manager ' + _src(ce))
        if not (len(w.body) == 1 and isinstance(w.body[0], ast.Return) and isinstance(w.body[0].value, ast.Call)
                and _is_name(w.body[0].value.func, callee)):
            raise SkelError('_get_unscaled: expected `return %s(...)`' % callee)
        return ' ++ '.join(pre + [inner(w.body[0].value)] + post)

    whole = with_expr(stmts[0].body[0], 'array_from_file', lambda call: 'arrayFromFile')

    def lock_kw(call):
        kw = [k for k in call.keywords if k.arg == 'lock']
        if not kw:
            return 'fileslice none'
        if _is_self_attr(kw[0].value, '_lock'):
            return 'fileslice (some lock)'
        if isinstance(kw[0].value, ast.Constant) and kw[0].value.value is None:
            return 'fileslice none'
        raise SkelError('unsupported lock argument ' + _src(kw[0].value))
    sliced = with_expr(stmts[1], 'fileslice', lock_kw)
    # fileslice hands its `lock` parameter to read_segments
    fsl = _func(fs_module, 'fileslice')
    calls = [n for n in ast.walk(fsl) if isinstance(n, ast.Call) and _is_name(n.func, 'read_segments')]
    if len(calls) != 1:
        raise SkelError('fileslice: expected exactly one read_segments call')
    c = calls[0]
    la = c.args[3] if len(c.args) > 3 else next((k.value for k in c.keywords if k.arg == 'lock'), None)
    if la is None or (isinstance(la, ast.Constant) and la.value is None):
        passed = 'none'
    elif _is_name(la, 'lock'):
        passed = 'lock'
    else:
        raise SkelError('fileslice: unsupported lock argument ' + _src(la))
    return ('/-- whole-array branch of `ArrayProxy._get_unscaled` (context managers entered left to right, left in\n'
            '    reverse; `getFileobj` / `arrayFromFile` = the actions of `_get_fileobj()` / `array_from_file`) -/\n'
            'def getUnscaledWhole (lock : Nat) (getFileobj arrayFromFile : List Action) : List Action :=\n  %s\n'
            '/-- sliced branch of `ArrayProxy._get_unscaled`: which lock `fileslice` is given -/\n'
            'def getUnscaledSliced (lock : Nat) (getFileobj : List Action) (fileslice : Option Nat → List Action) : List Action :=\n  %s\n'
            '/-- the lock `fileslice(..., lock)` passes on to `read_segments` -/\n'
            'def filesliceLock (lock : Option Nat) : Option Nat := %s\n' % (whole, sliced, passed))


SKEL_HEADER = '''import NibabelModel.Model.C14
/-! GENERATED by harness/props/c14.py regen() from the nibabel working tree
    (nibabel/fileslice.py `read_segments`, `fileslice`; nibabel/arrayproxy.py `copy`, `__getstate__`,
    `__setstate__`, `reshape`, `_get_unscaled`) - do not edit.  The lock/seek/read SKELETON of each function,
    obtained by a syntactic walk over its AST.  Props/C14 proves these equal to the hand-written model. -/
namespace Nb.C14.Gen
open Nb.C14
/-- `with lock:` entry / exit for an optional lock (`None` → `_NullLock`: nothing happens) -/
def lockAcq : Option Nat → List Action | some l => [Action.acquire l] | none => []
def lockRel : Option Nat → List Action | some l => [Action.release l] | none => []
'''


def skel_generate(ap_module, fs_module):
    return (SKEL_HEADER + gen_read_segments(fs_module) + gen_lock_rules(ap_module)
            + gen_get_unscaled(ap_module, fs_module) + 'end Nb.C14.Gen\n')



# ------------------------------------------------------------------ lexical lock-discipline record (regen)

FILE_METHODS = ('seek', 'read', 'readinto', 'tell', 'readline', 'readlines', 'readall', 'peek', 'write')
READ_FUNCS = ('array_from_file', 'fileslice', 'read_segments', '_simple_fileslice')


def _lockish(e):
    return _is_name(e, 'lock') or _is_self_attr(e, '_lock')


def _walk_sites(node, func, locked, sites, calls):
    """source-order walk: `sites` += (function, receiver, method, lexically inside a `with <lock>` block) for every
    file-method call; `calls` += (function, callee, inside `with <lock>`, lock argument) for every call of one of
    the reading functions"""
    if isinstance(node, (ast.FunctionDef, ast.AsyncFunctionDef, ast.ClassDef)):
        name = node.name if not func else func + '.' + node.name
        for ch in node.body:
            _walk_sites(ch, name, False if not isinstance(node, ast.ClassDef) else locked, sites, calls)
        return
    if isinstance(node, (ast.With, ast.AsyncWith)):
        inner = locked
        for it in node.items:
            _walk_sites(it.context_expr, func, inner, sites, calls)
            if _lockish(it.context_expr):
                inner = True
            elif not isinstance(it.context_expr, (ast.Call, ast.Name, ast.Attribute)):
                raise SkelError('context manager expression not understood: ' + _src(it.context_expr))
        for ch in node.body:
            _walk_sites(ch, func, inner, sites, calls)
        return
    if isinstance(node, ast.Lambda) and any(isinstance(n, ast.Attribute) and n.attr in FILE_METHODS
                                            for n in ast.walk(node)):
        raise SkelError('file method used inside a lambda: ' + _src(node)[:60])
    if isinstance(node, ast.Call):
        f = node.func
        if isinstance(f, ast.Attribute) and f.attr in FILE_METHODS:
            sites.append((func or '<module>', _src(f.value), f.attr, locked))
        if isinstance(f, ast.Name) and f.id in READ_FUNCS:
            kw = [k for k in node.keywords if k.arg == 'lock']
            if f.id == 'read_segments' and len(node.args) > 3:
                la = _src(node.args[3])
            else:
                la = _src(kw[0].value) if kw else '-'
            calls.append((func or '<module>', f.id, locked, la))
        if isinstance(f, ast.Name) and f.id == 'getattr' and len(node.args) >= 2 and \
                isinstance(node.args[1], ast.Constant) and node.args[1].value in FILE_METHODS:
            raise SkelError('file method fetched with getattr: ' + _src(node))
    for ch in ast.iter_child_nodes(node):
        _walk_sites(ch, func, locked, sites, calls)


def _module_record(module):
    tree = ast.parse(open(module.__file__).read())
    sites, calls = [], []
    for n in tree.body:
        _walk_sites(n, '', False, sites, calls)
    return sites, calls


def _rs_blocks(fs_module):
    """read_segments: per `with lock:` block the fileobj operations inside it (in order); fileobj operations
    outside every such block"""
    f = _func(fs_module, 'read_segments')
    blocks, outside = [], []

    def ops_in(node):
        return [c.func.attr for c in sorted(_file_calls(node, 'fileobj'), key=lambda c: (c.lineno, c.col_offset))]

    def walk(node, inside):
        if isinstance(node, ast.With) and any(_lockish(it.context_expr) for it in node.items):
            if inside:
                raise SkelError('nested lock blocks in read_segments')
            blocks.append([op for st in node.body for op in ops_in(st)])
            return
        if isinstance(node, ast.Call) and isinstance(node.func, ast.Attribute) and _is_name(node.func.value, 'fileobj'):
            outside.append(node.func.attr)
        for ch in ast.iter_child_nodes(node):
            walk(ch, inside)
    for st in f.body:
        walk(st, False)
    return blocks, outside


def _derived(ap_module):
    """methods of ArrayProxy that build a proxy (`self.__class__(...)`) or (re)assign a `_lock`:
    (method, file_like argument of the construction or '-', symbolic lock of the resulting proxy)"""
    cls = _func(ap_module, 'ArrayProxy')
    out = []
    for m in cls.body:
        if not isinstance(m, ast.FunctionDef):
            continue
        ctor = [n for n in ast.walk(m) if isinstance(n, ast.Call) and _is_self_attr(n.func, '__class__')]
        stores = [n for n in ast.walk(m) if isinstance(n, ast.Attribute) and n.attr == '_lock'
                  and isinstance(n.ctx, ast.Store)]
        if not ctor and not stores:
            continue
        if len(ctor) > 1:
            raise SkelError('%s constructs several proxies' % m.name)
        if ctor:
            c = ctor[0]
            fl = _src(c.args[0]) if c.args else next((_src(k.value) for k in c.keywords if k.arg == 'file_like'), '?')
            names = {st.targets[0].id for st in m.body if isinstance(st, ast.Assign) and st.value is c
                     and isinstance(st.targets[0], ast.Name)}
            rule = _lock_rule(m.body, 'fresh', names)
        else:
            fl = '-'
            rule = _lock_rule(m.body, 'none', {'self'})
        out.append((m.name, fl, rule))
    return out


def _lean_str(x):
    import json
    return json.dumps(x)


def _lean_list(rows):
    def one(r):
        if isinstance(r, (list,)):
            return '[' + ', '.join(one(x) for x in r) + ']'
        if isinstance(r, tuple):
            return '(' + ', '.join(one(x) for x in r) + ')'
        if isinstance(r, bool):
            return 'true' if r else 'false'
        return _lean_str(r)
    return '[' + ',\n   '.join(one(r) for r in rows) + ']'


LOCK_HEADER = '''/-! GENERATED by harness/props/c14.py regen() from the nibabel working tree (nibabel/fileslice.py,
    nibabel/arrayproxy.py) - do not edit.  A purely LEXICAL record of the lock discipline: where file methods
    are called and whether the call sits inside a `with lock:` / `with self._lock:` block, which lock the
    reading functions are handed, which methods derive a proxy and with which lock.  Props/C14
    (`lock_discipline_record`) states the expected record; any new file access (an unlocked fast path, a new
    helper), a dropped or split lock block, or a reversed lock assignment changes the record and breaks it. -/
namespace Nb.C14.GenLock
'''


def lock_record_generate(ap_module, fs_module):
    fs_sites, fs_calls = _module_record(fs_module)
    ap_sites, ap_calls = _module_record(ap_module)
    blocks, outside = _rs_blocks(fs_module)
    derived = _derived(ap_module)
    T4 = 'List (String × String × String × Bool)'
    C4 = 'List (String × String × Bool × String)'
    return (LOCK_HEADER +
            '/-- every file-method call in fileslice.py: (function, receiver, method, inside a lock block) -/\n'
            'def filesliceSites : %s :=\n  %s\n' % (T4, _lean_list(fs_sites)) +
            '/-- every file-method call in arrayproxy.py -/\n'
            'def arrayproxySites : %s :=\n  %s\n' % (T4, _lean_list(ap_sites)) +
            '/-- read_segments: the fileobj operations inside each `with lock:` block, in order -/\n'
            'def readSegmentsBlocks : List (List String) :=\n  %s\n' % _lean_list(blocks) +
            '/-- read_segments: fileobj operations outside every lock block -/\n'
            'def readSegmentsOutside : List String :=\n  %s\n' % _lean_list(outside) +
            '/-- calls of the reading functions in fileslice.py: (caller, callee, inside a lock block, lock argument) -/\n'
            'def filesliceCalls : %s :=\n  %s\n' % (C4, _lean_list(fs_calls)) +
            '/-- calls of the reading functions in arrayproxy.py -/\n'
            'def arrayproxyCalls : %s :=\n  %s\n' % (C4, _lean_list(ap_calls)) +
            '/-- ArrayProxy methods that construct a proxy or assign a lock: (method, file_like of the new proxy,\n'
            '    lock of the resulting proxy in terms of hasFh / src (= self._lock) / fresh (= a new RLock)) -/\n'
            'def lockAssigners : List (String × String × String) :=\n  %s\n' % _lean_list(derived) +
            'end Nb.C14.GenLock\n')


HANDLE_HEADER = '''/-! GENERATED by harness/props/c14.py regen() from the nibabel working tree (nibabel/arrayproxy.py) - do not
    edit.  A purely LEXICAL record of how an ArrayProxy comes by its file handle: every store to / load of an
    `_opener` attribute, every use of `__dict__`, the keys `__getstate__` drops, the arguments of every
    `self.__class__(...)` construction, the decision part of `_should_keep_file_open` and the body of
    `_get_fileobj`.  Props/C14 (`handle_discipline_record`) states the expected record - the rules of the family
    model (`Fam.step`: what copy() / reshape() / __setstate__ / a read do to lock, handle kind and opener) are read
    off these lines; a copy() that hands its opener on, a reshape() that starts passing keep_file_open, a
    __getstate__ that drops more, a second place creating openers ... change the record and break it. -/
namespace Nb.C14.GenHandle
'''


def _qual_walk(tree):
    """(qualified function name, FunctionDef) for every function / method of the module, in source order"""
    out = []

    def rec(body, prefix):
        for n in body:
            if isinstance(n, ast.ClassDef):
                rec(n.body, prefix + n.name + '.')
            elif isinstance(n, (ast.FunctionDef, ast.AsyncFunctionDef)):
                out.append((prefix + n.name, n))
                rec(n.body, prefix + n.name + '.')
    rec(tree.body, '')
    return out


def _own_nodes(fn):
    """AST nodes of a function excluding nested function / class definitions"""
    stack = list(fn.body)
    while stack:
        n = stack.pop(0)
        yield n
        for ch in ast.iter_child_nodes(n):
            if not isinstance(ch, (ast.FunctionDef, ast.AsyncFunctionDef, ast.ClassDef)):
                stack.append(ch)


def handle_record_generate(ap_module):
    tree = ast.parse(open(ap_module.__file__).read())
    stores, loads, dicts, attrfuncs = [], [], [], []
    for name, fn in _qual_walk(tree):
        for n in sorted((x for x in _own_nodes(fn) if hasattr(x, 'lineno')), key=lambda x: (x.lineno, x.col_offset)):
            if isinstance(n, (ast.Assign, ast.AnnAssign, ast.AugAssign)):
                tgs = n.targets if isinstance(n, ast.Assign) else [n.target]
                for tg in tgs:
                    for el in (tg.elts if isinstance(tg, (ast.Tuple, ast.List)) else [tg]):
                        if isinstance(el, ast.Attribute) and el.attr == '_opener':
                            stores.append((name, _src(el.value), _src(n.value) if n.value is not None else '-'))
            if isinstance(n, ast.Delete):
                for el in n.targets:
                    if isinstance(el, ast.Attribute) and el.attr == '_opener':
                        stores.append((name, _src(el.value), '<del>'))
            if isinstance(n, ast.Attribute) and n.attr == '_opener' and isinstance(n.ctx, ast.Load):
                loads.append((name, _src(n.value)))
            if isinstance(n, ast.Attribute) and n.attr == '__dict__':
                dicts.append((name, _src(n)))
            if isinstance(n, ast.Call) and isinstance(n.func, ast.Name) and n.func.id in ('setattr', 'getattr', 'delattr', 'hasattr', 'vars'):
                # attribute access by NAME: all setattr / delattr / vars, and getattr / hasattr unless the name is a
                # string constant other than the handle / lock attributes
                key = n.args[1] if len(n.args) > 1 else None
                if n.func.id in ('setattr', 'delattr', 'vars') or not isinstance(key, ast.Constant) \
                        or key.value in ('_opener', '_lock', '__dict__'):
                    attrfuncs.append((name, _src(n)))
    gs = _func(ap_module, 'ArrayProxy.__getstate__')
    pops = [n.args[0].value for n in ast.walk(gs) if isinstance(n, ast.Call) and isinstance(n.func, ast.Attribute)
            and n.func.attr == 'pop' and n.args and isinstance(n.args[0], ast.Constant)]
    dels = [_src(n) for n in ast.walk(gs) if isinstance(n, ast.Delete)]
    if dels:
        raise SkelError('__getstate__ deletes state entries: ' + '; '.join(dels))
    ctors = []
    for name, fn in _qual_walk(tree):
        for n in _own_nodes(fn):
            if isinstance(n, ast.Call) and (_is_self_attr(n.func, '__class__') or _is_name(n.func, 'ArrayProxy')
                                            or (isinstance(n.func, ast.Call) and _is_name(n.func.func, 'type'))):
                if any(k.arg is None for k in n.keywords) or any(isinstance(a, ast.Starred) for a in n.args):
                    raise SkelError('construction with * / ** arguments in ' + name)
                ctors.append((name, [_src(a) for a in n.args], [(k.arg, _src(k.value)) for k in n.keywords]))
    sk = _func(ap_module, 'ArrayProxy._should_keep_file_open')
    body = [st for st in sk.body if not (isinstance(st, ast.Expr) and isinstance(st.value, ast.Constant))]
    k0 = next((i for i, st in enumerate(body) if isinstance(st, ast.If) and isinstance(st.test, ast.Call)
               and _is_self_attr(st.test.func, '_has_fh')), None)
    if k0 is None:
        raise SkelError('_should_keep_file_open: `if self._has_fh():` not found')
    keep_rule = [' '.join(_src(st).split()) for st in body[k0:]]
    gf = _func(ap_module, 'ArrayProxy._get_fileobj')
    gf_body = [' '.join(_src(st).split()) for st in gf.body
               if not (isinstance(st, ast.Expr) and isinstance(st.value, ast.Constant))]
    init = _func(ap_module, 'ArrayProxy.__init__')
    flags = [' '.join(_src(st).split()) for st in init.body
             if any(isinstance(n, ast.Attribute) and n.attr in ('_persist_opener', '_keep_file_open', 'file_like')
                    and isinstance(n.ctx, ast.Store) for n in ast.walk(st))]
    S2, S3 = 'List (String × String)', 'List (String × String × String)'
    return (HANDLE_HEADER +
            '/-- every store to an `_opener` attribute in arrayproxy.py: (function, object, value) -/\n'
            'def openerStores : %s :=\n  %s\n' % (S3, _lean_list(stores)) +
            '/-- every load of an `_opener` attribute: (function, object) -/\n'
            'def openerLoads : %s :=\n  %s\n' % (S2, _lean_list(loads)) +
            '/-- every use of `__dict__`: (function, expression) -/\n'
            'def dictUses : %s :=\n  %s\n' % (S2, _lean_list(dicts)) +
            '/-- every call of setattr/delattr/vars, and of getattr/hasattr with a computed name or naming `_opener` /\n'
            '    `_lock` / `__dict__`: (function, call) -/\n'
            'def attrCalls : %s :=\n  %s\n' % (S2, _lean_list(attrfuncs)) +
            '/-- keys `__getstate__` removes from the pickled state -/\n'
            'def statePops : List String :=\n  %s\n' % _lean_list(pops) +
            '/-- every construction of a proxy: (function, positional arguments, keyword arguments) -/\n'
            'def ctorCalls : List (String × List String × List (String × String)) :=\n  %s\n' % _lean_list(ctors) +
            '/-- `_should_keep_file_open` from `if self._has_fh():` on -/\n'
            'def keepRule : List String :=\n  %s\n' % _lean_list(keep_rule) +
            '/-- the statements of `__init__` that set `file_like` / `_keep_file_open` / `_persist_opener` -/\n'
            'def initFlags : List String :=\n  %s\n' % _lean_list(flags) +
            '/-- the body of `_get_fileobj` -/\n'
            'def getFileobj : List String :=\n  %s\n' % _lean_list(gf_body) +
            'end Nb.C14.GenHandle\n')


def regen():
    """constants of the source the model depends on (re-read from the working tree on every run)"""
    import nibabel.fileslice as fs
    from common import LEAN, write_if_changed
    src = ('/-! GENERATED by harness/props/c14.py regen() from the nibabel working tree - do not edit. -/\n'
           'namespace Nb.C14.Gen\n'
           '/-- nibabel.fileslice.SKIP_THRESH (default threshold of `threshold_heuristic`) -/\n'
           'def skipThresh : Nat := %d\n'
           'end Nb.C14.Gen\n' % int(fs.SKIP_THRESH))
    write_if_changed(os.path.join(LEAN, 'NibabelModel', 'Generated', 'C14.lean'), src)
    import nibabel.arrayproxy as ap
    # (the generated definitions are not counted as obligations: the theorems about them are in THEOREMS)
    write_if_changed(os.path.join(LEAN, 'NibabelModel', 'Generated', 'C14Src.lean'), skel_generate(ap, fs))
    write_if_changed(os.path.join(LEAN, 'NibabelModel', 'Generated', 'C14Lock.lean'), lock_record_generate(ap, fs))
    write_if_changed(os.path.join(LEAN, 'NibabelModel', 'Generated', 'C14Handle.lean'), handle_record_generate(ap))
    return []


TIMEOUT = 30.0
MAXSTEPS = 2000


class _Abort(BaseException):
    pass


class Infra(BaseException):
    pass


def _infra(msg):
    print('INFRASTRUCTURE: C14 scheduler: ' + msg, flush=True)
    raise SystemExit(2)


def hash_list(l):
    h = 7
    for b in l:
        h = (h * 257 + int(b) + 1) % 1000000007
    return h


# ------------------------------------------------------------------ deterministic scheduler

_S = None     # the active scheduler (None: instrumented objects behave like plain ones)


class Sched:
    def __init__(self, n, prefix):
        self.n = n
        self.prefix = list(prefix)
        self.go = [_thread.allocate_lock() for _ in range(n)]
        for l in self.go:
            l.acquire()
        self.ctl = _thread.allocate_lock()
        self.ctl.acquire()
        self.pending = [None] * n
        self.done = [False] * n
        self.ident = {}
        self.events = []
        self.abort = False
        self.nlocks = 0
        self.nhandles = 0
        self.deadlock = False
        self.sched = []
        self.enabled = []

    # ---- called from managed threads
    def me(self):
        return self.ident.get(_thread.get_ident())

    def point(self, t, pend):
        self.pending[t] = pend
        self.ctl.release()
        if not self.go[t].acquire(timeout=TIMEOUT) or self.abort:
            raise _Abort()

    def log(self, t, s):
        self.events.append('%d.%s' % (t, s))

    def _body(self, t, fn):
        self.ident[_thread.get_ident()] = t
        try:
            fn()
        except _Abort:
            pass
        finally:
            self.done[t] = True
            self.pending[t] = None
            self.ctl.release()

    # ---- controller
    def _wait(self):
        if not self.ctl.acquire(timeout=TIMEOUT):
            self._kill()
            raise Infra('a managed thread neither parked nor finished within %.0fs' % TIMEOUT)

    def _kill(self):
        self.abort = True
        for t in range(self.n):
            if not self.done[t] and self.go[t].locked():
                try:
                    self.go[t].release()
                except RuntimeError:
                    pass

    def _blocked(self, t):
        p = self.pending[t]
        return p is not None and p[0] == 'acq' and p[1].owner is not None and p[1].owner != t

    def run(self, fns):
        ths = []
        for t, fn in enumerate(fns):
            th = threading.Thread(target=self._body, args=(t, fn), daemon=True)
            ths.append(th)
            th.start()
            self._wait()          # runs (alone) up to its first yield point
        last = None
        i = 0
        while True:
            alive = [t for t in range(self.n) if not self.done[t]]
            en = [t for t in alive if not self._blocked(t)]
            if i < len(self.prefix):
                t = self.prefix[i]
            else:
                if not alive:
                    break
                if not en:
                    self.deadlock = True
                    break
                t = last if last in en else en[0]
            self.enabled.append(en)
            self.sched.append(t)
            i += 1
            if i > MAXSTEPS:
                self._kill()
                raise Infra('more than %d steps' % MAXSTEPS)
            if t >= self.n or self.done[t]:
                self.log(t, 'i')
            else:
                self.go[t].release()
                self._wait()
            last = t
        if self.deadlock:
            self._kill()
        for th in ths:
            th.join(TIMEOUT)
            if th.is_alive():
                raise Infra('managed thread did not terminate')


def _cur():
    S = _S
    if S is None:
        return None, None
    return S, S.me()


class TLock:
    """Tracing replacement for threading.RLock (only one managed thread runs at a time, so plain fields)."""

    def __init__(self):
        S = _S
        self.id = S.nlocks if S else -1
        if S:
            S.nlocks += 1
        self.owner = None
        self.count = 0

    def acquire(self, blocking=True, timeout=-1):
        S, t = _cur()
        if t is None:
            self.count += 1
            return True
        while True:
            S.point(t, ('acq', self))
            if self.owner is None or self.owner == t:
                self.owner = t
                self.count += 1
                S.log(t, 'a%d' % self.id)
                return True
            S.log(t, 'b%d' % self.id)

    def release(self):
        S, t = _cur()
        if t is None:
            self.count -= 1
            return
        S.point(t, ('rel', self))
        if self.owner != t:
            S.log(t, 'x%d' % self.id)
            raise RuntimeError('cannot release un-acquired lock')
        self.count -= 1
        if self.count <= 0:
            self.count = 0
            self.owner = None
        S.log(t, 'r%d' % self.id)

    def __enter__(self):
        self.acquire()
        return self

    def __exit__(self, *a):
        self.release()


def _seek_tok(h, o, w):
    if w == 0:
        return 's%d@%d' % (h, o)
    if w == 2 and o == 0:
        return 'e%d' % h
    return 'seek?%d,%d,%d' % (h, o, w)


class TFile(io.BytesIO):
    """Tracing in-memory file: handle number `hid`."""
    hid = 0

    def seek(self, o, w=0):
        S, t = _cur()
        if t is None:
            return super().seek(o, w)
        S.point(t, ('seek',))
        r = super().seek(o, w)
        S.log(t, _seek_tok(self.hid, o, w))
        return r

    def read(self, n=-1):
        S, t = _cur()
        if t is None:
            return super().read(n)
        S.point(t, ('read',))
        d = super().read(n)
        S.log(t, 'R%d:%d:%d:%d' % (self.hid, n, len(d), hash_list(d)))
        return d

    def readinto(self, b):
        S, t = _cur()
        if t is None:
            return super().readinto(b)
        S.point(t, ('read',))
        k = super().readinto(b)
        S.log(t, 'R%d:%d:%d:%d' % (self.hid, len(b), k, hash_list(bytes(b[:k]))))
        return k

    def tell(self):
        S, t = _cur()
        if t is None:
            return super().tell()
        S.point(t, ('tell',))
        p = super().tell()
        S.log(t, 't%d=%d' % (self.hid, p))
        return p


class TRaw:
    """Tracing wrapper around a real (OS) file object."""

    def __init__(self, f, hid):
        self._f = f
        self.hid = hid

    def __getattr__(self, name):
        return getattr(self._f, name)

    @property
    def closed(self):
        return self._f.closed

    def seek(self, o, w=0):
        S, t = _cur()
        if t is None:
            return self._f.seek(o, w)
        S.point(t, ('seek',))
        r = self._f.seek(o, w)
        S.log(t, _seek_tok(self.hid, o, w))
        return r

    def read(self, n=-1):
        S, t = _cur()
        if t is None:
            return self._f.read(n)
        S.point(t, ('read',))
        d = self._f.read(n)
        S.log(t, 'R%d:%d:%d:%d' % (self.hid, n, len(d), hash_list(d)))
        return d

    def readinto(self, b):
        S, t = _cur()
        if t is None:
            return self._f.readinto(b)
        S.point(t, ('read',))
        k = self._f.readinto(b)
        S.log(t, 'R%d:%d:%d:%d' % (self.hid, len(b), k, hash_list(bytes(b[:k]))))
        return k

    def tell(self):
        S, t = _cur()
        if t is None:
            return self._f.tell()
        S.point(t, ('tell',))
        p = self._f.tell()
        S.log(t, 't%d=%d' % (self.hid, p))
        return p


class TRawW(TRaw):
    """Real OS file object handed to the proxy as `file_like` (np.memmap succeeds on it).  `write` is defined
    explicitly because `Opener` recognises file objects with a runtime-checkable protocol (read + write)."""

    def write(self, b):
        raise io.UnsupportedOperation('write')


class TMin:
    """Tracing minimal file-like: only read/write/seek/tell — no `fileno` (np.memmap raises AttributeError)
    and no `readinto` (array_from_file takes its `read` + copy branch)."""

    def __init__(self, buf, hid):
        self._b = io.BytesIO(buf)
        self.hid = hid

    def write(self, b):
        raise io.UnsupportedOperation('write')

    def seek(self, o, w=0):
        S, t = _cur()
        if t is None:
            return self._b.seek(o, w)
        S.point(t, ('seek',))
        r = self._b.seek(o, w)
        S.log(t, _seek_tok(self.hid, o, w))
        return r

    def read(self, n=-1):
        S, t = _cur()
        if t is None:
            return self._b.read(n)
        S.point(t, ('read',))
        d = self._b.read(n)
        S.log(t, 'R%d:%d:%d:%d' % (self.hid, n, len(d), hash_list(d)))
        return d

    def tell(self):
        S, t = _cur()
        if t is None:
            return self._b.tell()
        S.point(t, ('tell',))
        p = self._b.tell()
        S.log(t, 't%d=%d' % (self.hid, p))
        return p


class TRawGz(TRaw):
    """Tracing wrapper around a compressed-file object (GzipFile) opened by ImageOpener for a `.gz` path.
    `array_from_file` recognises compressed files with `isinstance(fobj, COMPRESSED_FILE_LIKES)`; isinstance
    falls back to `__class__`, so the wrapper reports the wrapped object's class (the instrumentation must not
    change which branch the code takes)."""

    @property
    def __class__(self):
        return self._f.__class__


def _make_instrumented():
    """Classes depending on nibabel (imported lazily so that NIBABEL_REPO is honoured)."""
    import nibabel.arrayproxy as ap
    from nibabel import openers as real_openers

    class TOpener(real_openers.ImageOpener):
        made = []

        def __init__(self, fileish, *a, **k):
            S, t = _cur()
            if isinstance(fileish, str) and t is not None:
                S.point(t, ('open',))
            super().__init__(fileish, *a, **k)
            if isinstance(fileish, str):
                hid = -1
                if S is not None:
                    hid = S.nhandles
                    S.nhandles += 1
                self.fobj = (TRawGz if fileish.endswith('.gz') else TRaw)(self.fobj, hid)
                TOpener.made.append(self)
                if t is not None:
                    S.log(t, 'o%d' % hid)

    class _Slot:
        """data descriptor observing `proxy._opener` (hasattr / read / assignment)"""

        def __get__(self, obj, typ=None):
            if obj is None:
                return self
            S, t = _cur()
            if t is not None:
                S.point(t, ('get',))
            if '_opener_v' not in obj.__dict__:
                if t is not None:
                    S.log(t, 'g-')
                raise AttributeError('_opener')
            v = obj.__dict__['_opener_v']
            if t is not None:
                S.log(t, 'g%s' % (getattr(getattr(v, 'fobj', None), 'hid', '?')))
            return v

        def __set__(self, obj, v):
            S, t = _cur()
            if t is not None:
                S.point(t, ('set',))
            obj.__dict__['_opener_v'] = v
            if t is not None:
                S.log(t, 'S%s' % (getattr(getattr(v, 'fobj', None), 'hid', '?')))

    class TProxy(ap.ArrayProxy):
        _opener = _Slot()

    shim = types.SimpleNamespace(ImageOpener=TOpener)
    # everything else of the openers module is reachable through the shim as well
    for k in dir(real_openers):
        if not hasattr(shim, k):
            setattr(shim, k, getattr(real_openers, k))
    return ap, real_openers, TOpener, TProxy, shim


_INSTR = None
_TMP = None


def _tmpdir():
    global _TMP
    if _TMP is None:
        _TMP = tempfile.mkdtemp(prefix='c14_')
        atexit.register(shutil.rmtree, _TMP, True)
    return _TMP


def file_bytes(d):
    """mirror of Lean `mkFile`"""
    shape, isz, off = d['shape'], d['isz'], d['off']
    n = int(np.prod(shape, dtype=object))
    hdr = bytes((37 * i + 11) % 251 for i in range(off))
    body = b''.join(int(q % (256 ** isz)).to_bytes(isz, 'little') for q in range(n))
    return hdr + body + bytes((91 * i + 7) % 253 for i in range(d.get('extra', 0)))


def dtype_of(isz):
    return {1: np.dtype('u1'), 2: np.dtype('<u2'), 4: np.dtype('<u4')}[isz]


def fmt_res(arr, order):
    arr = np.asarray(arr)
    el = [int(x) for x in arr.ravel(order=order)]
    return ('ok%s#%d:%d' % (list(arr.shape), len(el), hash_list(el))).replace(', ', ',')


def topo_of(d):
    """history of the family: ['c', src] copy(), ['u', src] copy.copy() (= __setstate__), ['k', src] pickle
    round trip (= __setstate__ as well), ['r', src, shape] reshape(), ['n'] a further construction on the same
    file_like (the same file loaded again), ['x', p] a completed single-threaded read through proxy p.
    Old-format data: one copy() of the original in the handle scenario."""
    if 'topo' in d:
        return d['topo']
    return [['c', 0]] if d['scn'].startswith('fh') else []


def derivations(d):
    """the steps of the history that create a proxy (proxy k+1 is made by the k-th of them)"""
    return [op for op in topo_of(d) if op[0] != 'x']


def who_of(r):
    w = r['who']
    return {'p': 0, 'c': 1}.get(w, w)


def proxy_shapes(d):
    shapes = [list(d.get('shape', [1]))]
    for op in derivations(d):
        shapes.append(list(op[2]) if op[0] == 'r' else shapes[0] if op[0] == 'n' else shapes[op[1]])
    return shapes


IGZ_SCN = ('keepgz', 'namegz')


def ref_topology(d):
    """Independent reference (plain Python, not the Lean model) for the HISTORY of a family:
    fam[i]  = copy()-family of proxy i (union-find over copy() edges - in every scenario),
    hcls[i] = token of the handle OBJECT proxy i is documented to read through when the threads start
              ('base' = the caller's file object; ('o', k) = the k-th persistent opener already created; None =
              a handle of its own: a persistent opener created later, or one handle per read)."""
    scn = d['scn']
    handle = scn.startswith('fh')
    root_kind = 'h' if handle else ('p' if scn in ('keep', 'keepgz', 'namegz') else 'r')
    kinds = [root_kind]
    opener = [None]
    par = [0]
    nopen = 0

    def find(x):
        while par[x] != x:
            x = par[x]
        return x
    for op in topo_of(d):
        if op[0] == 'x':
            if kinds[op[1]] == 'p' and opener[op[1]] is None:
                opener[op[1]] = ('o', nopen)
                nopen += 1
            continue
        k = len(kinds)
        par.append(k)
        if op[0] == 'c':
            par[k] = find(op[1])
            kinds.append(kinds[op[1]])
            opener.append(None)
        elif op[0] in ('u', 'k'):
            kinds.append(kinds[op[1]])
            opener.append(opener[op[1]])      # __dict__ is taken over, `_opener` included
        elif op[0] == 'r':
            # reshape() does not pass keep_file_open on: default False, unless indexed gzip persists anyway
            kinds.append('h' if handle else ('p' if scn in IGZ_SCN else 'r'))
            opener.append(None)
        elif op[0] == 'n':
            kinds.append(root_kind)
            opener.append(None)
        else:
            raise ValueError('unknown history step ' + str(op))
    fam = [find(i) for i in range(len(par))]
    hcls = ['base' if kinds[i] == 'h' else opener[i] for i in range(len(kinds))]
    return fam, hcls, kinds


def families(d):
    """proxies connected by copy() edges (independent of the model: union-find)"""
    return ref_topology(d)[0]


def _data_path(buf, gz):
    path = os.path.join(_tmpdir(), 'f_%d.img%s' % (hash_list(buf) ^ len(buf), '.gz' if gz else ''))
    if not os.path.exists(path):
        if gz:
            import gzip
            with gzip.open(path, 'wb') as fh:
                fh.write(buf)
        else:
            with open(path, 'wb') as fh:
                fh.write(buf)
    return path


NAME_SCN = {'keep': (False, True), 'keepgz': (True, True), 'name': (False, False), 'namegz': (True, False)}
FH_SCN = ('fh', 'fhmin', 'fhos', 'fhop')
ALL_SCN = FH_SCN + tuple(NAME_SCN)


def build_family(d, S, Proxy, opened):
    """Build the family of proxies of configuration `d` on the REAL code: the original proxy of scenario
    `d['scn']`, then the history `topo_of(d)`.  `S` = active scheduler (numbers the handles) or None.
    Returns (proxies, the caller-supplied handle object or None)."""
    import copy as _copy
    import pickle
    buf = file_bytes(d)
    order = d['order']
    spec = (tuple(d['shape']), dtype_of(d['isz']), d['off'])
    scn = d['scn']
    f = None
    if scn in FH_SCN:
        hid = -1
        if S is not None:
            hid = S.nhandles
            S.nhandles += 1
        if scn == 'fh':
            f = TFile(buf)
            f.hid = hid
        elif scn == 'fhop':
            # an `Opener` object as `file_like` (it has read and seek: `_has_fh()`), wrapping the traced file
            from nibabel.openers import Opener
            raw = TFile(buf)
            raw.hid = hid
            f = Opener(raw)
        elif scn == 'fhmin':
            f = TMin(buf, hid)
        else:
            raw = open(_data_path(buf, False), 'rb')
            opened.append(raw)
            f = TRawW(raw, hid)
        kw = {}
        file_like = f
    elif scn in NAME_SCN:
        gz, keep = NAME_SCN[scn]
        file_like = _data_path(buf, gz)
        kw = {'keep_file_open': keep}
    else:
        raise ValueError('unknown scenario ' + str(scn))
    mmap = (d.get('mmapv') or True) if d['mmap'] else False     # True, or one of the mode strings 'c' / 'r'
    proxies = [Proxy(file_like, spec, mmap=mmap, order=order, **kw)]
    for op in topo_of(d):
        if op[0] == 'n':
            proxies.append(Proxy(file_like, spec, mmap=mmap, order=order, **kw))
            continue
        src = proxies[op[1]]
        if op[0] == 'x':
            a = src[(0,)]         # a completed sliced read (never memory mapped)
            del a
            continue
        if op[0] == 'c':
            new = src.copy()
        elif op[0] == 'u':
            new = _copy.copy(src)
        elif op[0] == 'k':
            new = pickle.loads(pickle.dumps(src))
        elif op[0] == 'r':
            new = src.reshape(tuple(op[2]))
        else:
            raise ValueError('unknown derivation ' + str(op))
        proxies.append(new)
    return proxies, f


def _innermost(obj):
    """the object at the bottom of a chain of Opener / tracing wrappers"""
    seen = 0
    while seen < 10:
        seen += 1
        if isinstance(obj, TRaw):
            obj = obj._f
        elif hasattr(obj, 'fobj'):
            obj = obj.fobj
        else:
            break
    return obj


def _first_seen(objs):
    ids, out = [], []
    for o in objs:
        k = next((n for n, x in enumerate(ids) if x is o), None)
        if k is None:
            ids.append(o)
            k = len(ids) - 1
        out.append(k)
    return out


def observe_family(proxies, f, d):
    """side-effect free observation of the family before the threads start: per proxy the lock OBJECT and the
    handle OBJECT it already holds (the caller's file object / an already created persistent opener; None = a
    handle of its own later).  The invariant the exclusion theorem needs — same handle => same lock inside a
    copy()-family — is judged on these by the oracle."""
    info = {}
    fam = families(d)
    hobj = []
    for q in proxies:
        if q._has_fh():
            hobj.append(_innermost(q.file_like))
        else:
            o = q.__dict__.get('_opener_v', q.__dict__.get('_opener'))
            hobj.append(None if o is None else _innermost(o))
    locks = _first_seen([q._lock for q in proxies])
    info['lock_ids'] = locks
    bad = []
    for i in range(len(proxies)):
        for j in range(i + 1, len(proxies)):
            if fam[i] == fam[j] and hobj[i] is not None and hobj[i] is hobj[j] and locks[i] != locks[j]:
                bad.append((i, j))
    info['unlocked_sharing'] = bad
    if d['scn'] in FH_SCN:
        ops = derivations(d)
        info['shares'] = all(proxies[k + 1]._lock is proxies[op[1]]._lock for k, op in enumerate(ops) if op[0] == 'c')
        info['copy_fh_same'] = all(q.file_like is f for q in proxies)
    return info



def idx_of(r):
    return None if r['idx'] == 'W' else tuple(item_from_data(i) for i in r['idx'])


def run_real(d, prefix):
    """Run the real code of configuration `d` under schedule prefix `prefix`.
    Returns (observable line, completed schedule, enabled sets per step, info dict)."""
    global _S, _INSTR
    if _INSTR is None:
        _INSTR = _make_instrumented()
    ap, real_openers, TOpener, TProxy, shim = _INSTR
    if d['op'] == 'raw':
        return run_raw(d, prefix)
    n = len(d['progs'])
    S = Sched(n, prefix)
    buf = file_bytes(d)
    order = d['order']
    old = (ap.RLock, ap.openers)
    results = [[] for _ in range(n)]
    info = {}
    TOpener.made = []
    try:
        _S = S
        ap.RLock = TLock
        ap.openers = shim
        opened = []
        proxies, f = build_family(d, S, TProxy, opened)
        info.update(observe_family(proxies, f, d))

        def mk(t):
            def fn():
                for r in d['progs'][t]:
                    try:
                        p = proxies[who_of(r)]
                        idx = idx_of(r)
                        # whole array: np.asarray(proxy) or the public proxy.get_unscaled()
                        whole = p.get_unscaled if r.get('via') == 'U' else (lambda: np.asarray(p))
                        if r.get('outer'):
                            with p._lock:
                                a = whole() if idx is None else p[idx]
                        else:
                            a = whole() if idx is None else p[idx]
                        results[t].append(fmt_res(a, order))
                        del a
                    except _Abort:
                        raise
                    except Exception as e:
                        results[t].append('ERR')
                        info.setdefault('errors', []).append(errname(e) + ': ' + str(e)[:80])
            return fn
        S.run([mk(t) for t in range(n)])
    except Infra as e:
        _S = None
        ap.RLock, ap.openers = old
        _infra(str(e) + ' in case ' + repr(d)[:300])
    finally:
        _S = None
        ap.RLock, ap.openers = old
        for o in TOpener.made + locals().get('opened', []):
            try:
                o.close()
            except Exception:
                pass
        TOpener.made = []
    res = ';'.join('/'.join(r) if r or not d['progs'][t] else 'INCOMPLETE' for t, r in enumerate(results))
    if S.deadlock:
        res += ' DEADLOCK'
    info['deadlock'] = S.deadlock
    return ' '.join(S.events) + ' | ' + res, S.sched, S.enabled, info


def raw_prog_tokens(d, t):
    """mirror of Lean `lockedSegs`"""
    toks = []
    for segs in d['calls'][t]:
        for o, n in segs:
            toks += ['a0', 's%d' % o, 'R%d' % n, 'r0']
    return toks


def run_raw(d, prefix):
    """threads call fileslice.read_segments(fobj, segments, n_bytes, lock) with one shared lock"""
    global _S
    from nibabel import fileslice as fs
    n = len(d['calls'])
    S = Sched(n, prefix)
    buf = bytes((7 * i + 3) % 251 for i in range(d['flen']))
    results = [[] for _ in range(n)]
    info = {}
    try:
        _S = S
        f = TFile(buf)
        f.hid = S.nhandles
        S.nhandles += 1
        lock = TLock()

        def mk(t):
            def fn():
                for segs in d['calls'][t]:
                    try:
                        nb = sum(min(ln, max(0, len(buf) - o)) for o, ln in segs)
                        out = fs.read_segments(f, [tuple(s) for s in segs], nb, lock)
                        results[t].append(bytes(out[:]) if not isinstance(out, bytes) else out)
                    except _Abort:
                        raise
                    except Exception as e:
                        results[t].append(None)
                        info.setdefault('errors', []).append(errname(e) + ': ' + str(e)[:80])
            return fn
        S.run([mk(t) for t in range(n)])
    except Infra as e:
        _S = None
        _infra(str(e) + ' in case ' + repr(d)[:300])
    finally:
        _S = None
    info['raw_results'] = results
    info['deadlock'] = S.deadlock
    return ' '.join(S.events) + (' DEADLOCK' if S.deadlock else ''), S.sched, S.enabled, info


TOPO_LAYOUT = {'shape': [4, 3, 2], 'isz': 2, 'off': 8, 'order': 'F', 'extra': 0}
TOPO_RESHAPES = [[12, 2], [24], [4, 6], [2, 2, 6]]


def _nifti_path(gz):
    import nibabel as nib
    path = os.path.join(_tmpdir(), 'topo.nii' + ('.gz' if gz else ''))
    if not os.path.exists(path):
        nib.Nifti1Image(np.arange(24, dtype=np.int16).reshape((4, 3, 2)), np.eye(4)).to_filename(path)
    return path


def run_topology(d):
    """Handle / lock topology of a family as an observable of the REAL objects (plain ArrayProxy, or the
    `dataobj` of images loaded with nibabel.load): build the family, then ask every proxy for its file object
    (all of them held at the same time) and record which proxies yield the same OS-level handle object, which
    hold the same lock object, and where the handle comes from."""
    import contextlib
    import nibabel.arrayproxy as ap
    opened = []
    full = dict(TOPO_LAYOUT, **d)
    try:
        if d.get('via') == 'load':
            import nibabel as nib
            if d['scn'] not in NAME_SCN:
                raise ValueError('images are loaded from file names')
            gz, keep = NAME_SCN[d['scn']]
            path = _nifti_path(gz)
            mm = bool(d['mmap'])

            def Proxy(file_like, spec, mmap=True, order=None, keep_file_open=None):
                return nib.load(path, mmap=mm, keep_file_open=keep).dataobj
            proxies, f = build_family(full, None, Proxy, opened)
        else:
            proxies, f = build_family(full, None, ap.ArrayProxy, opened)
        with contextlib.ExitStack() as st:
            fos = [st.enter_context(q._get_fileobj()) for q in proxies]
            hcl = _first_seen([_innermost(o) for o in fos])
        lcl = _first_seen([q._lock for q in proxies])
        kinds = ''.join('h' if q._has_fh() else ('p' if q._persist_opener else 'r') for q in proxies)
        return 'L%s H%s K%s' % (','.join(map(str, lcl)), ','.join(map(str, hcl)), kinds)
    finally:
        for o in opened:
            try:
                o.close()
            except Exception:
                pass


# ------------------------------------------------------------------ cases

def fmt_topo(d):
    def one(op):
        if op[0] == 'n':
            return 'n'
        if op[0] == 'r':
            return 'r%d:%s' % (op[1], 'x'.join(map(str, op[2])))
        return {'k': 'u'}.get(op[0], op[0]) + str(op[1])     # a pickle round trip is __setstate__ as well
    return ','.join(one(op) for op in topo_of(d)) or '-'


def fmt_read(r):
    return 'p%d%s=%s' % (who_of(r), 'L' if r.get('outer') else '',
                        'W' if r['idx'] == 'W' else fmt_idx(tuple(item_from_data(i) for i in r['idx'])))


def mk_case(d, stream='dfs', completed=None):
    if d['op'] == 'topo':
        return Case('C14 topo %s %s' % (d['scn'], fmt_topo(d)), d,
                    (d['scn'], d.get('via', 'ctor'), d['mmap'], json_key(topo_of(d))), stream)
    sched = ','.join(map(str, d['sched'])) if d['sched'] else '-'
    if d['op'] == 'raw':
        progs = '|'.join(','.join(raw_prog_tokens(d, t)) or '-' for t in range(len(d['calls'])))
        line = 'C14 raw %d 1 %s %s' % (d['flen'], progs, sched)
        cfgkey = ('raw', d['flen'], progs)
    else:
        n = int(np.prod(d['shape'], dtype=object))
        flen = d['off'] + n * d['isz'] + d.get('extra', 0)
        progs = '|'.join('/'.join(fmt_read(r) for r in th) or '-' for th in d['progs'])
        line = 'C14 run %s %d %s %d %d %d %s %s %s %s' % (
            d['scn'], d['mmap'], d['order'], d['isz'], d['off'], flen, ','.join(map(str, d['shape'])),
            fmt_topo(d), progs, sched)
        cfgkey = (d['scn'], d['mmap'], d['order'], d['isz'], tuple(d['shape']), fmt_topo(d), progs)
    key = None
    if completed is not None and _switches(completed[0], completed[1]):
        key = (cfgkey, tuple(completed[0]))
    return Case(line, d, key, stream)


def json_key(x):
    return tuple(json_key(i) for i in x) if isinstance(x, (list, tuple)) else x


def _switches(sched, enabled):
    """does the completed schedule switch away from a thread that could have continued?"""
    for i in range(1, len(sched)):
        if sched[i] != sched[i - 1] and sched[i - 1] in enabled[i]:
            return True
    return False


def case_from_data(d):
    return mk_case(d, d.get('stream', 'corpus'))


def rd(who, idx, outer=False):
    r = {'who': who, 'idx': 'W' if idx == 'W' else [item_to_data(i) for i in idx]}
    if outer:
        r['outer'] = True
    return r


def explore(cfg, max_pre, limit, rng=None):
    """Stateless search over schedules of configuration `cfg` with at most `max_pre` pre-emptions, fewest
    pre-emptions first (every schedule with k pre-emptions is visited before any with k+1), at most `limit`
    executions.  Yields (prefix, completed schedule, enabled sets)."""
    buckets = [[] for _ in range(max_pre + 1)]
    buckets[0].append([])
    count = 0
    for pc in range(max_pre + 1):
        stack = buckets[pc]
        if rng is not None:
            rng.shuffle(stack)
        while stack and count < limit:
            prefix = stack.pop()
            d = dict(cfg, sched=prefix)
            _, sched, enabled, _ = run_real(d, prefix)
            count += 1
            yield prefix, sched, enabled
            for i in range(len(prefix), len(sched)):
                prev = sched[i - 1] if i > 0 else None
                for alt in enabled[i]:
                    if alt == sched[i]:
                        continue
                    cost = 1 if (prev is not None and prev in enabled[i] and alt != prev) else 0
                    if pc + cost <= max_pre:
                        buckets[pc + cost].append(sched[:i] + [alt])


def random_prefix(rng, n, length, wild):
    out = []
    t = rng.randrange(n)
    for _ in range(length):
        if rng.random() < 0.35:
            t = rng.randrange(n + (1 if wild and rng.random() < 0.1 else 0))
        out.append(t)
    return out


S_ = slice
LAYOUTS = {
    # name: (shape, isz, off, order, extra, reads{kind: [indices]}, reshape targets)
    # kinds: multi = several segments; single = one segment inside the data; whole = the whole-array path of
    # _get_unscaled; full1 = NOT the whole-array path but ONE segment covering all the data (read_segments'
    # single-segment branch); single0 = one segment starting exactly at the data offset; empty = no segment
    'F45': ((45, 4, 3), 2, 16, 'F', 0, {
        'multi': [(S_(None), 2, S_(None)), (S_(None), 1, S_(1, 3)), (S_(None), -1, S_(None, None, -1))],
        'single': [(Ellipsis, 1), (S_(None), S_(None), 2), (S_(2, 9), 1, 0), (3, 2, 1)],
        'whole': ['W', (Ellipsis,), (S_(None), S_(None), S_(None)), ()],
        'full1': [(None,), (None, Ellipsis), (S_(None, None, -1),), (Ellipsis, None)],
        'single0': [(Ellipsis, 0), (S_(0, 9), 0, 0), (0, 0, 0)],
        'empty': [(S_(0, 0),), (Ellipsis, S_(2, 2))],
    }, [(45, 12), (180, 3), (540,)]),
    'C90': ((3, 4, 90), 1, 0, 'C', 5, {
        'multi': [(S_(None), 2, S_(None)), (S_(0, 2), 3, S_(None)), (S_(None, None, 2), 0)],
        'single': [(1,), (2, S_(None), S_(None)), (0, 1, S_(10, 20))],
        'whole': ['W', (Ellipsis,), (S_(None),)],
        'full1': [(None,), (Ellipsis, S_(None, None, -1)), (Ellipsis, None)],
        'single0': [(0,), (0, 0, S_(0, 20))],
        'empty': [(S_(1, 1),)],
    }, [(12, 90), (3, 360)]),
    'F90': ((90, 4, 3), 1, 0, 'F', 5, {
        'multi': [(S_(None), 2, S_(None)), (S_(None), 3, S_(0, 2)), (S_(None), 0, S_(None, None, 2))],
        'single': [(Ellipsis, 1), (S_(None), S_(None), 2), (S_(10, 20), 1, 0)],
        'whole': ['W', (Ellipsis,), (S_(None),)],
        'full1': [(None,), (S_(None, None, -1),), (Ellipsis, None)],
        'single0': [(Ellipsis, 0), (S_(0, 20), 0, 0)],
        'empty': [(S_(3, 3),)],
    }, [(90, 12), (360, 3)]),
    'tiny': ((2, 3, 4), 2, 7, 'F', 0, {
        'multi': [(1, S_(None), 2), (S_(None), 1)],
        'single': [(0,), (S_(None), S_(None), 1)],
        'whole': ['W', (Ellipsis,)],
        'full1': [(None,), (S_(None, None, -1),)],
        'single0': [(Ellipsis, 0), (0, 0, 0)],
        'empty': [(S_(0, 0),)],
    }, [(6, 4), (2, 12), (24,)]),
}
# reads valid for ANY shape (used through reshaped proxies, whose shape differs from the layout's)
ANYSHAPE = {
    'multi': [(S_(None, None, 2),), (S_(1, None, 3),)],
    'single': [(S_(1, 3),), (1,), (Ellipsis, 1)],
    'whole': ['W', (Ellipsis,), ()],
    'full1': [(None,), (S_(None, None, -1),), (Ellipsis, None)],
    'single0': [(S_(0, 2),), (Ellipsis, 0)],
    'empty': [(S_(0, 0),)],
}


def base_cfg(layout, scn, mmap, progs, rng=None):
    shape, isz, off, order, extra = LAYOUTS[layout][:5]
    cfg = {'op': 'run', 'scn': scn, 'mmap': int(mmap), 'order': order, 'isz': isz, 'off': off, 'extra': extra,
           'shape': list(shape), 'progs': progs}
    if rng is not None and mmap and rng.random() < 0.4:
        cfg['mmapv'] = rng.choice(['c', 'r'])         # the documented mode strings instead of True
    return cfg


def pick(rng, layout, kind):
    return rng.choice(LAYOUTS[layout][5][kind])


def entry(rng, r):
    """which public entry point performs a whole-array read"""
    if r['idx'] == 'W' and rng.random() < 0.35:
        r['via'] = 'U'
    return r


def gen_progs(rng, layout, kinds_per_thread, scn, outer_p=0.0):
    progs = []
    for ti, kinds in enumerate(kinds_per_thread):
        th = []
        for k in kinds:
            who = 'p'
            if scn.startswith('fh') and rng.random() < 0.5:
                who = 'c'
            th.append(entry(rng, rd(who, pick(rng, layout, k), outer=rng.random() < outer_p)))
        progs.append(th)
    if scn.startswith('fh') and len(progs) > 1 and all(r['who'] == progs[0][0]['who'] for th in progs for r in th):
        progs[-1][0]['who'] = 'c' if progs[0][0]['who'] == 'p' else 'p'    # always mix proxy and copy
    return progs


def gen_topo_progs(rng, layout, topo, readers_per_thread, kinds=None, outer_p=0.0):
    """reads through explicitly chosen proxies of a derivation history (`readers_per_thread`: per thread the
    list of proxy numbers it reads through); indices fit the shape of the proxy used"""
    reshaped = set()
    for k, op in enumerate([o for o in topo if o[0] != 'x']):
        if op[0] == 'r' or (op[0] != 'n' and op[1] in reshaped):
            reshaped.add(k + 1)
    progs = []
    for readers in readers_per_thread:
        th = []
        for who in readers:
            kind = rng.choice(kinds or KINDS2)
            pool = ANYSHAPE[kind] if who in reshaped else LAYOUTS[layout][5][kind]
            th.append(entry(rng, rd(who, rng.choice(pool), outer=rng.random() < outer_p)))
        progs.append(th)
    return progs


# derivation histories: (history builder given the layout's reshape targets, reader sets worth racing)
def topologies(rng, layout):
    rs = LAYOUTS[layout][6]
    r = lambda src: ['r', src, list(rng.choice(rs))]
    return [
        # two copies of one proxy
        ([['c', 0], ['c', 0]], [(1, 2), (0, 2), (0, 1, 2)]),
        # a copy of a copy
        ([['c', 0], ['c', 1]], [(0, 2), (1, 2), (0, 1, 2)]),
        # a chain of three copies, and copies of different generations
        ([['c', 0], ['c', 1], ['c', 2], ['c', 0]], [(0, 3), (3, 4), (2, 4)]),
        # reshape, then copies of the reshaped proxy: {1, 2, 3} is a family of its own
        ([r(0), ['c', 1], ['c', 2]], [(1, 2), (2, 3), (1, 3)]),
        # copy then reshape of the copy: {0, 1} share, 2 has a new lock (cross-family: correspondence only)
        ([['c', 0], r(1)], [(0, 1), (0, 2), (1, 2)]),
        # copy.copy()/unpickle: new lock over the same handle; its own copies share with it
        ([['u', 0], ['c', 1]], [(1, 2), (0, 1), (0, 2)]),
        ([['c', 0], ['u', 1], ['c', 2], ['c', 0]], [(2, 3), (0, 4), (1, 4), (0, 3)]),
    ]


def name_topologies(rng, layout):
    """histories of families over a file NAME (every proxy has its own lock; a persistent opener belongs to one
    proxy, created on first use): (history, reader sets worth racing).  `x<p>` = proxy p has already been read
    from when the next step happens — the state a proxy is in when it is copied matters."""
    rs = LAYOUTS[layout][6]
    r = lambda src: ['r', src, list(rng.choice(rs))]
    return [
        ([['c', 0]], [(0, 1)]),
        ([['x', 0], ['c', 0]], [(0, 1)]),
        ([['c', 0], ['x', 1], ['c', 1]], [(0, 2), (1, 2), (0, 1, 2)]),
        ([['c', 0], ['c', 0]], [(1, 2), (0, 1, 2)]),
        ([['x', 0], ['c', 0], ['c', 1]], [(0, 2), (1, 2), (0, 1, 2)]),
        ([['n']], [(0, 1)]),
        ([['x', 0], ['n'], ['c', 1]], [(0, 2), (1, 2)]),
        ([r(0)], [(0, 1)]),
        ([['x', 0], r(0), ['c', 1]], [(0, 2), (1, 2)]),
        # copy.copy(): the state dict is taken over - of a proxy that has not been read from: nothing shared
        ([['u', 0]], [(0, 1)]),
        ([['u', 0], ['c', 1], ['x', 0]], [(0, 2), (1, 2)]),
        # ... of a proxy that HAS been read from: the opener OBJECT is shared under a new lock (outside the
        # property: correspondence only); its copy() has a handle of its own again
        ([['x', 0], ['u', 0]], [(0, 1)]),
        ([['x', 0], ['u', 0], ['c', 1]], [(0, 2), (1, 2), (0, 1)]),
    ]


def random_history(rng, scn, n_ops, reshapes, pickle_ok=False):
    """a random valid history (see topo_of) for scenario `scn`"""
    topo, n = [], 1
    for _ in range(n_ops):
        kinds = ['c', 'c', 'c', 'x', 'x', 'u', 'r', 'n'] + (['k'] if pickle_ok else [])
        k = rng.choice(kinds)
        src = rng.randrange(n)
        if k == 'n':
            topo.append(['n'])
        elif k == 'r':
            topo.append(['r', src, list(rng.choice(reshapes))])
        elif k == 'k':
            cand = dict(scn=scn, topo=topo)
            if scn in FH_SCN or ref_topology(cand)[1][src] is not None:
                k = 'u'          # an open handle cannot be pickled
            topo.append([k, src])
        else:
            topo.append([k, src])
        if k != 'x':
            n += 1
    return topo


KINDS = ['multi', 'single', 'whole']
KINDS2 = KINDS + ['full1', 'single0', 'empty']


def layouts_for(scn, tiny=True):
    # (ArrayProxy.copy()/reshape() pass `order` on since the fix commits 3de97f7d / 2a1f651d, so the C-ordered
    # layout is used with copies as well)
    ls = ['F45', 'F90'] + (['tiny'] if tiny else [])
    return ls + ['C90']


def cases(rng, tier):
    out = []

    def add(cfg, stream, max_pre, limit):
        for prefix, sched, enabled in explore(cfg, max_pre, limit, rng):
            d = dict(cfg, sched=prefix, stream=stream)
            out.append(mk_case(d, stream, (sched, enabled)))

    if tier == 'search':
        # after a broken proof/correspondence: wide and shallow
        for scn in ('fh', 'keep'):
            for mm in (0, 1):
                for layout in ('F45', 'tiny'):
                    for ka in KINDS:
                        for kb in KINDS:
                            add(base_cfg(layout, scn, mm, gen_progs(rng, layout, [[ka], [kb]], scn), rng=rng), 'search', 2, 150)
        return out

    thorough = tier == 'thorough'
    # ---- A: 2 threads x 1 read, all kind pairs, every scenario; bounded pre-emptions, exhaustive
    preA = 3 if thorough else 2
    limA = 1500 if thorough else 160
    for scn in ('fh', 'keep'):
        for mm in (0, 1):
            for ka in KINDS:
                for kb in KINDS:
                    layout = rng.choice(layouts_for(scn, thorough))
                    add(base_cfg(layout, scn, mm, gen_progs(rng, layout, [[ka], [kb]], scn), rng=rng), 'dfs-2x1', preA, limA)
    # ---- B: 2 threads x 2 reads
    nB = 10 if thorough else 4
    for _ in range(nB):
        scn = rng.choice(['fh', 'fh', 'keep'])
        layout = rng.choice(layouts_for(scn))
        kinds = [[rng.choice(KINDS), rng.choice(KINDS)], [rng.choice(KINDS), rng.choice(KINDS)]]
        add(base_cfg(layout, scn, rng.randrange(2), gen_progs(rng, layout, kinds, scn, outer_p=0.25), rng=rng),
            'dfs-2x2', 3 if thorough else 2, 1500 if thorough else 120)
    # ---- C: 3 threads x 1-2 reads
    nC = 10 if thorough else 4
    for _ in range(nC):
        scn = rng.choice(['fh', 'fh', 'keep'])
        layout = rng.choice(layouts_for(scn))
        kinds = [[rng.choice(KINDS)] + ([rng.choice(KINDS)] if rng.random() < 0.3 else []) for _ in range(3)]
        add(base_cfg(layout, scn, rng.randrange(2), gen_progs(rng, layout, kinds, scn, outer_p=0.15), rng=rng),
            'dfs-3', 3 if thorough else 2, 2000 if thorough else 120)
    # ---- D: deep pre-emption bound on the smallest configurations (thorough)
    if thorough:
        for scn in ('fh', 'keep'):
            for ka, kb in (('single', 'single'), ('single', 'whole'), ('multi', 'single')):
                add(base_cfg('tiny', scn, 0, gen_progs(rng, 'tiny', [[ka], [kb]], scn), rng=rng), 'dfs-deep', 4, 3000)
    # ---- E: random schedules (also grants to blocked / finished / non-existent threads)
    nE = 1500 if thorough else 250
    for _ in range(nE):
        scn = rng.choice(['fh', 'fh', 'keep'])
        layout = rng.choice(layouts_for(scn))
        nt = rng.choice([2, 2, 3])
        kinds = [[rng.choice(KINDS) for _ in range(rng.choice([1, 1, 2]))] for _ in range(nt)]
        cfg = base_cfg(layout, scn, rng.randrange(2), gen_progs(rng, layout, kinds, scn, outer_p=0.2), rng=rng)
        d = dict(cfg, sched=random_prefix(rng, nt, rng.randrange(0, 60), True), stream='random')
        _, sched, enabled, _ = run_real(d, d['sched'])
        out.append(mk_case(d, 'random', (sched, enabled)))
    # ---- F: raw read_segments with arbitrary segment lists and one shared lock
    nF = 40 if thorough else 8
    for _ in range(nF):
        nt = rng.choice([2, 3])
        flen = rng.choice([40, 100, 200])
        calls = [[[[rng.randrange(0, flen - 11), rng.randrange(1, 12)] for _ in range(rng.choice([1, 2, 3]))]
                  for _ in range(rng.choice([1, 2]))] for _ in range(nt)]
        cfg = {'op': 'raw', 'flen': flen, 'calls': calls}
        add(cfg, 'raw-segs', 2, 100 if thorough else 40)
    # ---- G: lock topology after SEQUENCES of copy() / reshape() / copy.copy(): concurrent reads through any
    #         two or three proxies of the history (same family: oracle + correspondence; mixed: correspondence)
    limG = 120 if thorough else 22
    for rep in range(1):
        for scn in ('fh', 'fhos') if thorough else ('fh',):
            layout = rng.choice(layouts_for(scn))
            for topo, reader_sets in topologies(rng, layout):
                for readers in (reader_sets if thorough else rng.sample(reader_sets, 2)):
                    per_thread = [[w] + ([rng.choice(readers)] if rng.random() < 0.25 else []) for w in readers]
                    progs = gen_topo_progs(rng, layout, topo, per_thread, outer_p=0.1)
                    cfg = dict(base_cfg(layout, scn, rng.randrange(2), progs, rng=rng), topo=topo)
                    add(cfg, 'topo', 3 if thorough else 2, limG)
    # ---- H: kinds of handle the caller may supply: BytesIO (np.memmap rejects it: fileno() raises), an object
    #         without fileno/readinto (AttributeError inside np.memmap; `read` + copy branch), a real OS file
    #         object (np.memmap succeeds), and a `.gz` path with keep_file_open=True (persistent GzipFile: np.memmap
    #         is not attempted) — whole-array reads with the DEFAULT mmap=True racing sliced reads
    limH = 100 if thorough else 36
    for scn in ('fh', 'fhmin', 'fhos', 'keepgz', 'fhop', 'name', 'namegz'):
        for mm in (1, 0):
            for ka, kb in (('whole', 'multi'), ('whole', 'single'), ('whole', 'whole'), ('whole', 'full1')):
                if mm == 0 and not thorough and kb in ('whole', 'full1'):
                    continue
                if scn in ('fhop', 'name', 'namegz') and not thorough and (mm == 0 or kb != 'multi'):
                    continue
                layout = rng.choice(layouts_for(scn, thorough))
                add(base_cfg(layout, scn, mm, gen_progs(rng, layout, [[ka], [kb]], scn), rng=rng), 'handle-kind',
                    3 if thorough else 2, limH)
    # ---- K: single-segment shapes of read_segments: one segment covering ALL the data (not the whole-array
    #         path), a segment starting at the data offset, no segment at all — against each other kind
    limK = 120 if thorough else 30
    for ka in ('full1', 'single0', 'empty'):
        for kb in KINDS2 if thorough else rng.sample(KINDS2, 3):
            scn = rng.choice(['fh', 'fhmin', 'fhos', 'keep', 'keepgz'])
            layout = rng.choice(layouts_for(scn))
            add(base_cfg(layout, scn, rng.randrange(2), gen_progs(rng, layout, [[ka], [kb]], scn), rng=rng), 'seg-kinds',
                3 if thorough else 2, limK)
    # ---- T: handle / lock TOPOLOGY of families, no threads: every way of making the original proxy (file object,
    #         Opener object, no-fileno object, OS file; file name with keep_file_open True / False, .gz names with
    #         indexed gzip; plain ArrayProxy or the dataobj of an image loaded from the name) x every history of
    #         at most two steps over {copy, copy.copy, reshape, a further construction, a completed read} +
    #         random longer ones (pickle round trips of name proxies included): which proxies share a handle
    #         object, which a lock object — compared with the model and judged ("same handle => same lock"
    #         inside a copy()-family)
    def add_topo(scn, via, mm, topo):
        out.append(mk_case({'op': 'topo', 'scn': scn, 'via': via, 'mmap': mm, 'topo': topo}, 'topology'))

    steps1 = lambda n: [['c', s] for s in range(n)] + [['u', s] for s in range(n)] + [['x', s] for s in range(n)] \
        + [['r', s, rng.choice(TOPO_RESHAPES)] for s in range(n)] + [['n']]
    for scn in ALL_SCN:
        vias = ['ctor'] + (['load'] if scn in NAME_SCN else [])
        for via in vias:
            hist = [[]] + [[a] for a in steps1(1)]
            for a in steps1(1):
                n1 = 1 if a[0] == 'x' else 2
                two = [[a, b] for b in steps1(n1)]
                hist += two if (thorough or via == 'ctor') else rng.sample(two, 4)
            for topo in hist:
                add_topo(scn, via, rng.randrange(2), topo)
            for _ in range(40 if thorough else 6):
                add_topo(scn, via, rng.randrange(2),
                         random_history(rng, scn, rng.randrange(3, 8), TOPO_RESHAPES, pickle_ok=True))
    # ---- N: families over a file NAME under the scheduler: concurrent reads through DIFFERENT proxies of the
    #         family (copy made before / after the source was read from, copy of a copy, second construction,
    #         reshape, copy.copy of a fresh / used proxy) with keep_file_open True and False, plain and .gz
    limN = 60 if thorough else 14
    fixedN = [('keep', 0), ('keep', 1), ('keepgz', 4), ('name', 0), ('namegz', 2)]
    nameconfs = fixedN + [(rng.choice(list(NAME_SCN)), rng.randrange(13)) for _ in range(16 if thorough else 5)]
    for scn, ti in nameconfs:
        layout = rng.choice(layouts_for(scn))
        topo, reader_sets = name_topologies(rng, layout)[ti]
        readers = rng.choice(reader_sets)
        per_thread = [[w] + ([rng.choice(readers)] if rng.random() < 0.25 else []) for w in readers]
        progs = gen_topo_progs(rng, layout, topo, per_thread, kinds=KINDS, outer_p=0.1)
        cfg = dict(base_cfg(layout, scn, rng.randrange(2), progs, rng=rng), topo=topo)
        add(cfg, 'name-topo', 3 if thorough else 2, limN)
    for _ in range(400 if thorough else 80):
        scn = rng.choice(list(NAME_SCN))
        layout = rng.choice(layouts_for(scn))
        if rng.random() < 0.5:
            topo, reader_sets = rng.choice(name_topologies(rng, layout))
            readers = rng.choice(reader_sets)
        else:
            topo = random_history(rng, scn, rng.randrange(1, 6), LAYOUTS[layout][6])
            nprox = 1 + len([o for o in topo if o[0] != 'x'])
            readers = rng.sample(range(nprox), min(nprox, rng.choice([2, 2, 3])))
        nt = rng.choice([2, 2, 3])
        per_thread = [[rng.choice(readers) for _ in range(rng.choice([1, 1, 2]))] for _ in range(nt)]
        progs = gen_topo_progs(rng, layout, topo, per_thread, outer_p=0.15)
        cfg = dict(base_cfg(layout, scn, rng.randrange(2), progs, rng=rng), topo=topo)
        d = dict(cfg, sched=random_prefix(rng, nt, rng.randrange(0, 60), True), stream='random-name-topo')
        _, sched, enabled, _ = run_real(d, d['sched'])
        out.append(mk_case(d, 'random-name-topo', (sched, enabled)))
    # ---- R: random schedules over random histories, handle kinds and all read kinds
    nR = 600 if thorough else 150
    for _ in range(nR):
        scn = rng.choice(['fh', 'fh', 'fhmin', 'fhos', 'fhop'])
        layout = rng.choice(layouts_for(scn))
        topo, reader_sets = rng.choice(topologies(rng, layout))
        nt = rng.choice([2, 2, 3])
        readers = rng.choice(reader_sets)
        per_thread = [[rng.choice(readers) for _ in range(rng.choice([1, 1, 2]))] for _ in range(nt)]
        progs = gen_topo_progs(rng, layout, topo, per_thread, outer_p=0.15)
        cfg = dict(base_cfg(layout, scn, rng.randrange(2), progs, rng=rng), topo=topo)
        d = dict(cfg, sched=random_prefix(rng, nt, rng.randrange(0, 60), True), stream='random-topo')
        _, sched, enabled, _ = run_real(d, d['sched'])
        out.append(mk_case(d, 'random-topo', (sched, enabled)))
    return out


# ------------------------------------------------------------------ implementation / oracle

def impl(case):
    d = case.data
    if d['op'] == 'topo':
        try:
            return run_topology(d)
        except Exception as e:
            case.extra = {'error': errname(e) + ': ' + str(e)[:120]}
            return 'ERR:' + errname(e)
    line, sched, enabled, info = run_real(d, d['sched'])
    case.extra = dict(info, sched=sched, out=line)
    return line


def expected_results(d):
    """single-threaded reference, independent of nibabel: NumPy indexing of the stored element numbers
    (viewed with the shape of the proxy the read goes through)"""
    shape, isz, order = tuple(d['shape']), d['isz'], d['order']
    n = int(np.prod(shape, dtype=object))
    shapes = proxy_shapes(d)
    base = np.arange(n, dtype=np.int64) % (256 ** isz)
    exp = []
    for th in d['progs']:
        e = []
        for r in th:
            idx = idx_of(r)
            full = base.reshape(tuple(shapes[who_of(r)]), order=order)
            e.append(fmt_res(full if idx is None else full[idx], order))
        exp.append('/'.join(e))
    return exp


def one_family(d):
    """is the case judged by the oracle?  Property C14 speaks about a proxy and proxies copied from it; proxies
    made by reshape() / copy.copy() / unpickling / a second construction take a NEW lock, and when they do so over
    a handle object that is already in use (the caller's file object; the opener object a used keep_file_open
    proxy hands to its copy.copy()) the interference is a documented observation outside the property — such
    cases are only compared with the model (which predicts the interference exactly).  Everything else is judged:
    one copy()-family in every scenario, and ANY mix of proxies over a file name whose handles are their own."""
    fam, hcls, _ = ref_topology(d)
    used = sorted({who_of(r) for th in d['progs'] for r in th})
    for i in used:
        for j in used:
            if i < j and fam[i] != fam[j] and hcls[i] is not None and hcls[i] == hcls[j]:
                return False      # two families over one handle object: a new lock over a handle in use
    return True


def oracle_topology(d, out):
    """same handle => same lock, for every two proxies of one copy()-family (the families come from the
    history: union-find over copy() edges); judged on the identities of the REAL lock / handle objects"""
    try:
        ls, hs, ks = out.split(' ')
        L = [int(x) for x in ls[1:].split(',')]
        H = [int(x) for x in hs[1:].split(',')]
    except Exception:
        return 'unreadable topology observation: ' + out
    fam = families(d)
    if not (len(L) == len(H) == len(fam) == len(ks) - 1):
        return 'topology observation has %d proxies, the history %d' % (len(L), len(fam))
    for i in range(len(L)):
        for j in range(i + 1, len(L)):
            if fam[i] == fam[j] and H[i] == H[j] and L[i] != L[j]:
                return ('proxies %d and %d of one copy()-family read through the same file handle under different '
                        'locks (scenario %s, history %s: locks %s handles %s)' % (i, j, d['scn'], fmt_topo(d), L, H))
    return None


def trace_positions(events):
    """no read/tell may observe a position set by another thread: per handle, the thread whose operation
    positioned it last must be the reader itself."""
    last = {}
    for ev in events:
        if '.' not in ev:
            continue          # empty trace (e.g. only zero-segment reads)
        t, tok = ev.split('.', 1)
        k = tok[0]
        if k in 'seRt' and not tok.startswith('seek?'):
            h = tok[1:].split('@')[0].split(':')[0].split('=')[0]
            if k in 'Rt' and last.get(h) != t:
                return 'thread %s performs %s at a position set by %s' % (t, tok, last.get(h, 'nobody'))
            last[h] = t
    return None


def oracle(case, out):
    d = case.data
    info = case.extra or {}
    if out.startswith('ERR'):
        return 'harness/implementation raised: ' + out + ' ' + str(info.get('error', ''))
    if d['op'] == 'topo':
        return oracle_topology(d, out)
    if info.get('deadlock') or 'DEADLOCK' in out:
        return 'deadlock: unfinished threads all blocked on the lock; schedule=%s' % info.get('sched')
    if d['op'] == 'raw':
        buf = bytes((7 * i + 3) % 251 for i in range(d['flen']))
        for t, calls in enumerate(d['calls']):
            got = info.get('raw_results', [[]] * len(d['calls']))[t]
            for k, segs in enumerate(calls):
                want = b''.join(buf[o:o + n] for o, n in segs)
                if k >= len(got) or got[k] != want:
                    return ('read_segments of thread %d call %d returned %r, single-threaded result %r; schedule=%s'
                            % (t, k, got[k] if k < len(got) else None, want, info.get('sched')))
        return trace_positions(out.split(' '))
    trace, _, res = out.partition(' | ')
    got = res.split(';')
    if d['scn'].startswith('fh'):
        if not info.get('shares', False):
            return 'copy() of a proxy over an open file handle does not share the lock object'
        if not info.get('copy_fh_same', True):
            return 'a derived proxy does not refer to the same file handle object'
    static = None
    if info.get('unlocked_sharing'):
        # (judged after the data: a wrong result under a concrete schedule is the more telling report)
        i, j = info['unlocked_sharing'][0]
        static = ('before the threads start, proxies %d and %d of one copy()-family hold the same file handle object '
                  'under different locks (history %s)' % (i, j, fmt_topo(d)))
    if not one_family(d):
        return static
    exp = expected_results(d)
    for t, (g, e) in enumerate(zip(got, exp)):
        if g != e:
            return ('thread %d returned %s, single-threaded result is %s; progs=%s completed schedule=%s'
                    % (t, g, e, [[fmt_read(r) for r in th] for th in d['progs']], info.get('sched')))
    if len(got) != len(exp):
        return 'result count %d != thread count %d' % (len(got), len(exp))
    bad = trace_positions(trace.split(' '))
    if bad:
        return bad + '; progs=%s completed schedule=%s' % ([[fmt_read(r) for r in th] for th in d['progs']],
                                                          info.get('sched'))
    return static


def signature(case, what):
    d = case.data
    scn = d.get('scn', 'raw')
    if 'does not share the lock' in what:
        kind = 'copy-lock-not-shared'
    elif 'under different locks' in what:
        kind = 'handle-shared-without-lock'
    elif 'deadlock' in what:
        kind = 'deadlock'
    elif 'single-threaded result' in what:
        kind = 'wrong-data'
    elif 'position set by' in what:
        kind = 'foreign-position'
    else:
        kind = 'other'
    return 'concurrent:%s:%s' % (scn, kind)


def _valid_history(d):
    n = 1
    for op in topo_of(d):
        if op[0] != 'n' and op[1] >= n:
            return False
        if op[0] != 'x':
            n += 1
    return True


def shrink_candidates(case):
    d = case.data
    if d['op'] == 'topo':
        topo = topo_of(d)
        for k in range(len(topo) - 1, -1, -1):
            d2 = dict(d, topo=topo[:k] + topo[k + 1:])
            if _valid_history(d2):
                yield mk_case(d2, case.stream)
        return
    sched = d['sched']
    full = (case.extra or {}).get('sched')
    if full and len(full) > len(sched):
        yield mk_case(dict(d, sched=list(full)), case.stream)
        return
    if d['op'] == 'raw':
        for t, calls in enumerate(d['calls']):
            for k in range(len(calls)):
                if len(calls) > 1:
                    c2 = [list(c) for c in d['calls']]
                    c2[t] = calls[:k] + calls[k + 1:]
                    yield mk_case(dict(d, calls=c2), case.stream)
    else:
        for t, th in enumerate(d['progs']):
            for k in range(len(th)):
                if len(th) > 1 or len(d['progs']) > 2:
                    p2 = [list(x) for x in d['progs']]
                    p2[t] = th[:k] + th[k + 1:]
                    yield mk_case(dict(d, progs=p2), case.stream)
        if d['mmap']:
            yield mk_case(dict(d, mmap=0), case.stream)
    for k in range(len(sched) - 1, -1, -1):
        yield mk_case(dict(d, sched=sched[:k] + sched[k + 1:]), case.stream)
