"""C18 — CIFTI-2 axes, header XML and matrix data stay mutually consistent
(nibabel/cifti2/cifti2_axes.py, cifti2.py, parse_cifti2.py)."""
import json

import numpy as np

from common import Case, errname

PID = 'C18'
LEAN_TARGETS = ['NibabelModel.Props.C18']
THEOREMS = [
    'Nb.C18.series_getitem_spec',
    'Nb.C18.series_getitem_length',
    'Nb.C18.series_getitem_step0',
    'Nb.C18.series_int_spec',
    'Nb.C18.series_add_spec',
    'Nb.C18.series_orig_counterexample',
    'Nb.C18.positions_lt',
    'Nb.C18.slice_positions_length',
    'Nb.C18.gather_getElem',
    'Nb.C18.scalar_index_is_gather',
    'Nb.C18.label_index_is_gather',
    'Nb.C18.parcels_index_is_gather',
    'Nb.C18.bm_index_is_gather',
    'Nb.C18.bm_valid_of_mk',
    'Nb.C18.bm_index_empty_refused',
    'Nb.C18.int_index_is_element',
    'Nb.C18.concat_lengths',
    'Nb.C18.bm_add_elements',
    'Nb.C18.runs_roundtrip',
    'Nb.C18.runs_tile',
    'Nb.C18.runs_maximal',
    'Nb.C18.to_mapping_spec',
    'Nb.C18.bm_mapping_roundtrip',
    # phase-3 extension: the other axes' to_mapping / from_index_mapping, label colours through the XML text
    'Nb.C18.series_mapping_roundtrip',
    'Nb.C18.scalar_mapping_roundtrip',
    'Nb.C18.label_mapping_roundtrip',
    'Nb.C18.label_xml_roundtrip',
    'Nb.C18.label_colour_xml',
    'Nb.C18.parcels_mapping_roundtrip',
    'Nb.C18.dispatch_roundtrip',
    'Nb.C18.parcels_add_ok_iff',
    # wave-3 extension: metadata dicts through the XML text
    'Nb.C18.meta_xml_roundtrip',
    'Nb.C18.meta_xml_spec',
    'Nb.C18.meta_xml_empty_value_kept',
    'Nb.C18.scalarm_xml_roundtrip',
    # wave-3 extension: SeriesAxis methods translated from the source each run
    'Nb.C18.gen_series_eq_model',
    'Nb.C18.gen_series_getitem_spec',
    'Nb.C18.gen_series_int_spec',
    'Nb.C18.gen_series_add_spec',
]
ASSUMPTIONS = [
    'hand-written Lean model of nibabel/cifti2/cifti2_axes.py (Model/C18.lean): SeriesAxis slicing/int '
    'indexing/concatenation, the four list-backed axes as parallel lists indexed by NumPy, constructor checks, '
    'BrainModelAxis.iter_structures/to_mapping/from_index_mapping; tied to the code by the differential '
    'correspondence on every generated case of this run',
    'NumPy 1-D indexing is specified as a gather at positions (Basic/PySlice for slices, wrapped ints for index '
    'arrays, flatnonzero for boolean masks); the oracle uses NumPy/Python list indexing itself as reference',
    'names, metadata dicts, label tables, parcel voxel sets / vertex dicts and affines are opaque ids in the '
    'model; np.allclose on affines is modelled as id equality; to_cifti_brain_structure_name is the identity on '
    'the CIFTI names used',
    'SeriesAxis arithmetic is modelled over Int (the correspondence stream uses integer start/step); float '
    'start/step are covered by the oracle only, to a tolerance of 1e-9 relative',
    'phase-3 extension: to_mapping/from_index_mapping of Series, Scalar, Label (explicit label tables) and Parcels '
    '(explicit voxel lists / vertex dicts) axes, the colour text of Cifti2Label (`0`/`1`/str(val), float(attr)) and '
    'the to_header loop are modelled and model-compared (streams ser-map, sc-xrt, lar-xrt, par-xrt, hdr); the '
    'IndicesMapToDataType strings, the return_type dispatch dict and the series exponent are REGENERATED from the '
    'working tree (Generated/C18.lean). XML contract (trusted): expat/ElementTree parse∘serialise = id on the '
    'element tree, float(str(v)) = v for finite floats (colours are opaque binary64 bit patterns in the model), '
    'names/metadata without outer whitespace unchanged',
    'wave-3 extension: (a) metadata dicts with EXPLICIT entries (texts = opaque stripped core + whitespace padding; '
    'trusted contract: expat returns the character data of Name / Value as written, str.strip() removes exactly the '
    'padding) through CaretMetaData._to_xml_element / the parser MD handlers / from_index_mapping are modelled '
    '(mdToXml, mdParse, scalarMXrt) and model-compared on streams scm-xrt and fm-xrt, INCLUDING padded texts (the '
    'model predicts the stripping of the open finding roundtrip:meta-whitespace); (b) SeriesAxis.get_element / '
    '__getitem__ / __add__ are TRANSLATED from the working tree on every run by harness/py2lean_c18.py (trusted: the '
    'syntactic translator harness/py2lean.py + py2lean_c18.py, Basic/PyVal.lean as semantics of the Python fragment; '
    'Python bools as indices are outside the fragment) into Generated/C18Funcs.lean, proved equal to the model for '
    'all inputs (Lemmas/C18_Gen.lean) and executed in the driver against the real methods (stream series-gen)',
    'PARTIAL: the XML text layer itself (Cifti2* _to_xml_element, Cifti2Parser/expat, float repr, the 10-decimal '
    'affine text compared with np.allclose) and the NIfTI-2 container are NOT modelled; to_header has a model and a '
    'correspondence stream but no theorem; BrainModelAxis `+` success is not characterised (parcels: '
    'parcels_add_ok_iff); exercised by the round-trip oracle streams xml/file/file2 only',
]
RULE = ('streams: series (int start/step/size/unit x int|slice|index-array|mask index, add), series-float '
        '(oracle only), scalar/label/parcels/bm (random parallel lists of ids; bm with interleaved structures, '
        'surface+volume, unused nvertices keys, invalid constructor inputs) x {int, slice all signs/out-of-range, '
        'index array incl. negative/out-of-range, boolean mask incl. wrong length} and add; bm runs / '
        'to_mapping+from_index_mapping; ser-map / sc-xrt / lar-xrt / par-xrt (one axis through to_mapping, XML text, '
        'parser, from_index_mapping; label tables with Int keys in any order and colours n/255, random 53-bit, float32, '
        'denormal, 1-2^-53, -0.0, int, numpy scalars; parcels with unused / missing nvertices entries) and hdr '
        '(to_header sharing on repeated series/scalar axes), all model-compared; xml and file round trips of 1-3 axis '
        'tuples (oracle only) incl. rich label tables, series start/step needing 17 digits, oblique affines, '
        '32492-vertex surfaces and axes with a HISTORY (1-3 indexing / concatenation steps before serialising: '
        'parcels with unused surfaces, interleaved brain models). '
        'WAVE 3: per-map metadata of scalar / label axes from a table of 98 dicts (ids; EMPTY values, the empty key, '
        'XML-special / CDATA / entity look-alike / non-ASCII / 5000-character texts, inner whitespace, the texts None / '
        '0 / nan, keys equal up to case, 1-5 entries; every element its own dict, all the same dict, dicts that differ '
        'only in an empty-valued entry), outer-whitespace dicts only in the indexing / add streams; file-level '
        'metadata (fmeta, and fmeta_a of the donor image) on xml / file / file2 / *-near; eq / near perturbations '
        'meta-empty / meta-blank / meta-case; scm-xrt and fm-xrt (explicit dicts, 15% with padded texts and keys '
        'colliding once stripped, model-compared); series-gen (every series slice / int / add case again through the '
        'TRANSLATED methods). '
        'A case is non-trivial unless it is a full slice; distinct by (axis description, operation).')

def regen():
    """Generated/C18.lean from the CURRENT cifti2_axes.py (AST): the IndicesMapToDataType string each axis class
    writes in `to_mapping`, the `return_type` dispatch dict of `from_index_mapping`, the series exponent written by
    `SeriesAxis.to_mapping`.  Props/C18 proves `dispatch_roundtrip` and `series_mapping_roundtrip` over them."""
    import ast
    import os
    import common
    src = open(os.path.join(common.REPO, 'nibabel', 'cifti2', 'cifti2_axes.py')).read()
    tree = ast.parse(src)
    kinds = {'ScalarAxis': 'scalar', 'LabelAxis': 'label', 'SeriesAxis': 'series', 'BrainModelAxis': 'brainModel',
             'ParcelsAxis': 'parcels'}
    to_type, ret, exponent = {}, [], None
    for node in tree.body:
        if isinstance(node, ast.FunctionDef) and node.name == 'from_index_mapping':
            for sub in ast.walk(node):
                if isinstance(sub, ast.Dict) and sub.keys and all(isinstance(k_, ast.Constant) for k_ in sub.keys):
                    ret = [(k_.value, v.id) for k_, v in zip(sub.keys, sub.values)]
        if isinstance(node, ast.ClassDef) and node.name in kinds:
            for fn in node.body:
                if isinstance(fn, ast.FunctionDef) and fn.name == 'to_mapping':
                    for sub in ast.walk(fn):
                        if isinstance(sub, ast.Call) and getattr(sub.func, 'attr', '') == 'Cifti2MatrixIndicesMap' \
                                and node.name not in to_type:
                            to_type[node.name] = sub.args[1].value
                        if node.name == 'SeriesAxis' and isinstance(sub, ast.Assign) and \
                                getattr(sub.targets[0], 'attr', '') == 'series_exponent':
                            exponent = ast.literal_eval(sub.value)
    if set(to_type) != set(kinds) or not ret or not isinstance(exponent, int) or exponent < 0:
        raise RuntimeError('C18 regen: cannot read to_mapping / from_index_mapping constants from cifti2_axes.py: '
                           '%r %r %r' % (to_type, ret, exponent))
    lines = ['/-! GENERATED by harness/props/c18.py regen() from the working tree of nibabel',
             '    (nibabel/cifti2/cifti2_axes.py). Do not edit: rewritten on every run of `./check C18`. Core Lean only. -/',
             'namespace Nb.Gen.C18', '',
             'inductive Kind', '  | scalar | label | series | brainModel | parcels', '  deriving DecidableEq, Repr', '',
             '/-- the IndicesMapToDataType each axis class writes in its `to_mapping` -/',
             'def toMappingType : Kind → String']
    for cls, k_ in kinds.items():
        lines.append('  | .%s => "%s"' % (k_, to_type[cls]))
    lines += ['', '/-- the `return_type` dict of `from_index_mapping` (cifti2_axes.py) -/',
              'def returnType : List (String × Kind) :=',
              '  [' + ', '.join('("%s", .%s)' % (t, kinds[c]) for t, c in ret if c in kinds) + ']', '',
              '/-- `mim.series_exponent = …` in `SeriesAxis.to_mapping` -/',
              'def seriesExponent : Nat := %d' % exponent, '', 'end Nb.Gen.C18', '']
    path = os.path.join(common.LEAN, 'NibabelModel', 'Generated', 'C18.lean')
    common.write_if_changed(path, '\n'.join(lines))
    return ['Generated.C18.toMappingType', 'Generated.C18.returnType', 'Generated.C18.seriesExponent'] + regen_funcs()


GEN_METHODS = [('get_element', 'getElement'), ('__getitem__', 'getitem'), ('__add__', 'add')]
SERIES_FIELDS = ['start', 'step', 'size', 'unit']


def regen_funcs():
    """Generated/C18Funcs.lean: `SeriesAxis.get_element / __getitem__ / __add__` TRANSLATED from the working tree by
    harness/py2lean_c18.py (one Lean statement per Python statement, over Basic/PyVal), plus wrappers with a fixed
    argument order (the translated parameter order is the order of first use in the source).  Lemmas/C18_Gen.lean
    proves the wrappers equal to the hand-written model for all inputs; the `gen` stream runs them in the driver
    against the real methods."""
    import importlib
    import os
    import common
    import py2lean_c18
    from nibabel.cifti2 import cifti2_axes
    importlib.reload(py2lean_c18)
    hdr = ('/-! GENERATED by harness/props/c18.py regen() with harness/py2lean_c18.py from the working tree of nibabel\n'
           '    (nibabel/cifti2/cifti2_axes.py, class SeriesAxis). Do not edit: rewritten on every run of `./check C18`.\n'
           '    Core Lean only. -/')
    text, sigs = py2lean_c18.translate_methods(cifti2_axes.SeriesAxis, GEN_METHODS, 'Nb.Gen.C18F', hdr)

    def arg(pname, prefix_map):
        for pre, tag in prefix_map.items():
            if pname.startswith(pre) and pname[len(pre):] in SERIES_FIELDS:
                return tag + pname[len(pre):]
        return None

    w = []
    fields = ' '.join(SERIES_FIELDS)
    # get_element
    call = []
    for pn, ar in sigs['getElement']:
        a = arg(pn, {'self_': ''})
        if a is None and pn == 'index' and ar is None:
            a = 'index'
        if a is None:
            raise RuntimeError('C18 regen: get_element uses %r, outside the modelled state of a SeriesAxis' % pn)
        call.append(a)
    w += ['/-- `SeriesAxis(start, step, size, unit).get_element(index)` -/',
          'def getElementW (%s index : V) : M V := getElement %s' % (fields, ' '.join(call)), '']
    call = []
    for pn, ar in sigs['getitem']:
        a = arg(pn, {'self_': ''})
        if a is None and pn == 'item' and ar is None:
            a = 'item'
        if a is None and pn == 'self_get_element' and ar == 1:
            a = '(getElementW %s)' % fields
        if a is None:
            raise RuntimeError('C18 regen: __getitem__ uses %r, outside the modelled state of a SeriesAxis' % pn)
        call.append(a)
    w += ['/-- `SeriesAxis(start, step, size, unit)[item]`; the result axis is the list of its constructor arguments -/',
          'def getitemW (%s item : V) : M V := getitem %s' % (fields, ' '.join(call)), '']
    call = []
    for pn, ar in sigs['add']:
        a = arg(pn, {'self_': '', 'other_': 'o'})
        if a is None or ar is not None:
            raise RuntimeError('C18 regen: __add__ uses %r, outside the modelled state of two SeriesAxis' % pn)
        call.append(a)
    w += ['/-- `SeriesAxis(start, step, size, unit) + SeriesAxis(ostart, ostep, osize, ounit)` -/',
          'def addW (%s %s : V) : M V := add %s' % (fields, ' '.join('o' + f for f in SERIES_FIELDS), ' '.join(call)), '']
    text = text.replace('end Nb.Gen.C18F', '\n'.join(w) + '\nend Nb.Gen.C18F')
    common.write_if_changed(os.path.join(common.LEAN, 'NibabelModel', 'Generated', 'C18Funcs.lean'), text)
    return ['Generated.C18Funcs.' + ln for _, ln in GEN_METHODS]


PENDING_FINDINGS = [
    {'property': 'C18', 'signature': 'bm:empty-selection', 'status': 'open',
     'what': 'BrainModelAxis cannot describe an empty selection: bm[0:0] (any index selecting nothing) raises '
             'ValueError from np.vectorize on a size-0 array, while the same index on the data gives 0 rows',
     'input': {'kind': 'bm', 'els': [[0, [-1, -1, -1], 0]], 'nv': [[0, 3]], 'aff': None, 'shp': None,
               'op': 'idx', 'idx': {'t': 's', 'v': [0, 0, None]}}},
    {'property': 'C18', 'signature': 'roundtrip:name-whitespace', 'status': 'open',
     'what': 'a ScalarAxis/LabelAxis/ParcelsAxis name with leading or trailing whitespace is stripped by the '
             'CIFTI-2 XML parser: ScalarAxis([" lead"]) comes back as "lead" after to_xml/parse',
     'input': {'op': 'xml', 'stream': 'xml', 'axes': [{'t': 'raw', 'd': {'kind': 'sc', 'name': [5], 'meta': [0]}}]}},
    {'property': 'C18', 'signature': 'roundtrip:name-empty', 'status': 'open',
     'what': 'an empty map name does not survive the XML round trip: ScalarAxis([""]) comes back named "None"',
     'input': {'op': 'xml', 'stream': 'xml', 'axes': [{'t': 'raw', 'd': {'kind': 'sc', 'name': [7], 'meta': [0]}}]}},
    {'property': 'C18', 'signature': 'roundtrip:label-table-empty', 'status': 'open',
     'what': 'a LabelAxis with an EMPTY label table cannot be read back: LabelAxis(["a"], [{}]) serialises (the empty '
             'LabelTable element is left out) but header.get_axis raises AttributeError ("NoneType has no attribute '
             'items") in LabelAxis.from_index_mapping; the CIFTI-2 LabelTable allows 0..N Label children',
     'input': {'op': 'xml', 'stream': 'xml', 'axes': [{'t': 'label', 'name': [0], 'tables': [[]], 'meta': [0]}]}},
    {'property': 'C18', 'signature': 'roundtrip:meta-whitespace', 'status': 'open',
     'what': 'leading / trailing whitespace of a metadata key or value (per-map metadata of a ScalarAxis / LabelAxis, '
             'and the file-level MetaData) is stripped by the CIFTI-2 XML parser (flush_chardata: data.strip()): '
             'ScalarAxis(["m"], [{"a": " x"}]) comes back with {"a": "x"}, a whitespace-only value comes back as ""; '
             'the EMPTY value and inner whitespace are preserved',
     'input': {'op': 'xml', 'stream': 'xml', 'axes': [{'t': 'raw', 'd': {'kind': 'sc', 'name': [0], 'meta': [91]}}]}},
]

# ------------------------------------------------------------------ value tables (id -> value)

STRUCTS = ['CIFTI_STRUCTURE_CORTEX_LEFT', 'CIFTI_STRUCTURE_CORTEX_RIGHT', 'CIFTI_STRUCTURE_THALAMUS_LEFT',
           'CIFTI_STRUCTURE_THALAMUS_RIGHT', 'CIFTI_STRUCTURE_BRAIN_STEM', 'CIFTI_STRUCTURE_CEREBELLUM']
UNITS = ['SECOND', 'HERTZ', 'METER', 'RADIAN']
NID = 8


def NAME(i):
    return ['n0', 'n1', 'a<b&"c\'>', 'ünï 中', 'n4', ' lead', 'n6', ''][i % NID] + ('' if i < NID else str(i))


def _meta_base(i):
    if i == 0:
        return {}
    if i == 1:
        return {'k<&>': 'v"\'é'}
    return {'k%d' % j: 'v%d_%d' % (i, j) for j in range(i % 3 + 1)} | {'id': str(i)}


# metadata atoms (wave-3 widening).  SAFE = what the CIFTI-2 XML text can carry unchanged (pinned on the unchanged
# tree): the EMPTY value, XML-special characters, `]]>`, CDATA / entity look-alikes, non-ASCII, inner whitespace
# (spaces, tab, newline), very long text, the texts 'None' / '0' / 'nan', the empty key, keys equal up to case.
# UNSAFE = leading / trailing whitespace (the parser strips Name and Value text: finding roundtrip:meta-whitespace).
# Not generated at all: '\r' (XML line-end normalisation), control characters (not XML 1.0), non-str values.
META_KEYS_SAFE = ['Description', 'Units', 'Key', 'key', 'KEY', '', 'k<&>', 'ünï', 'a b', 'k\nk', ']]>', 'K' * 300,
                  'None', 'Name', 'Value', 'MD']
META_VALS_SAFE = ['', 'mm', 'v"\'é', '&<>"\'', ']]>', '<![CDATA[x]]>', 'None', 'ünï 中 \U0001F600', 'x' * 5000,
                  'x\ny', 'tab\there', 'x  y', '&amp;', '&#10;', '0', 'nan', '<MD><Name>a</Name><Value>b</Value></MD>',
                  'Ã©', '-', '1/mm']
META_KEYS_UNSAFE = [' k ', 'k ', '\tk']
META_VALS_UNSAFE = [' ', '  \t\n ', ' x', 'x ', '\n', 'x\n']


def _meta_table():
    import random
    r = random.Random(1808)
    t = []
    for j, v in enumerate(META_VALS_SAFE):                  # every value atom, alone and next to an ordinary entry
        t.append({META_KEYS_SAFE[j % 2]: v})
        t.append({'id': str(j), META_KEYS_SAFE[(j + 1) % len(META_KEYS_SAFE)]: v})
    for j, k_ in enumerate(META_KEYS_SAFE):                 # every key atom
        t.append({k_: 'val%d' % j})
    t += [{'Key': '1', 'key': '2', 'KEY': '3'}, {'Key': '', 'key': '', 'KEY': 'x'}, {'Key': 'x', 'key': 'x'},
          {'Description': '', 'Units': ''}, {'Description': '', 'Units': 'mm'}, {'Units': '', 'Description': 'mm'},
          {'Description': 'None', 'Units': ''}, {'': ''}, {'': '', 'Description': ''},
          {'KEY': 'x'}, {'Description': 'mm'}, {'Description': 'None'}]
    for _ in range(14):                                     # random compositions, 1-5 entries
        ks = r.sample(META_KEYS_SAFE, r.randrange(1, 6))
        t.append({k_: r.choice(META_VALS_SAFE) if r.random() < 0.7 else '' for k_ in ks})
    seen, u = set(), []
    for m in t:                                             # equal dicts (in any key order) only once
        c = tuple(sorted(m.items()))
        if c not in seen:
            seen.add(c)
            u.append(m)
    t = u
    n_safe = len(t)
    for v in META_VALS_UNSAFE:
        t.append({'a': v})
    for k_ in META_KEYS_UNSAFE:
        t.append({k_: 'v', 'Units': ''})
    return t, n_safe


_META_TABLE, _N_META_SAFE = _meta_table()
NMETA = NID + len(_META_TABLE)


def META(i):
    """metadata dict of id `i`: ids 0..7 are the original small dicts, 8..NMETA-1 the rich table above"""
    if i < NID:
        return _meta_base(i)
    return dict(_META_TABLE[i - NID])


# explicit metadata texts for the model-compared streams scm-xrt / fm-xrt: text = WS[padL] + CORE[core] + WS[padR]
# (Model/C18.lean `Txt`); every CORE is strip-fixed (CORE[0] is the empty text), every WS is whitespace for str.strip
TXT_CORE = list(dict.fromkeys([''] + META_KEYS_SAFE + META_VALS_SAFE + ['k', 'v', 'a', 'id', 'Comment']))
TXT_WS = ['', ' ', '\n', ' \t ', '\u00a0', '\u3000\n']
assert all(c == c.strip() for c in TXT_CORE) and all(w.strip() == '' for w in TXT_WS) and TXT_CORE[0] == ''
_R_CORE = {c: i for i, c in enumerate(TXT_CORE)}


def TEXT(t):
    c, l, r = t
    return TXT_WS[l] + TXT_CORE[c] + TXT_WS[r]


def txt_id(x):
    """`core.padL.padR` of a text that came out of nibabel (normal form: whitespace-only text = core 0, padL only)"""
    if not isinstance(x, str):
        return '?' + repr(x)[:30]
    core = x.strip()
    if core not in _R_CORE:
        return '?' + repr(x)[:30]
    if core == '':
        lead, trail = x, ''
    else:
        i = len(x) - len(x.lstrip())
        lead, trail = x[:i], x[i + len(core):]
    if lead not in TXT_WS or trail not in TXT_WS:
        return '?' + repr(x)[:30]
    return '%d.%d.%d' % (_R_CORE[core], TXT_WS.index(lead), TXT_WS.index(trail))


def MDICT(entries):
    return {TEXT(k_): TEXT(v) for k_, v in entries}


def fmt_mdict(entries):
    return ';'.join('%d.%d.%d=%d.%d.%d' % (tuple(k_) + tuple(v)) for k_, v in entries) or '_'


def show_mdict(m):
    # entries sorted as strings (Python compares dicts without regard to entry order)
    return '[' + ','.join(sorted(txt_id(k_) + '=' + txt_id(v) for k_, v in dict(m).items())) + ']'


def LABEL(i):
    d = {0: ('???', (0.0, 0.0, 0.0, 0.0))}
    if i:
        d[100 + i] = ('K%d' % i, (1.0, 0.0, 0.5, 1.0))
    for j in range(i % 4):
        d[j + 1 + i] = ('L%d_%d<&' % (i, j), (0.25 * (j % 5), 0.125 * (i % 8), 1.0, 0.5))
    return d


LABNAMES = ['???', 'V1', 'a<b&"c\'>', 'ünï 中', 'area 4', 'MT+', '0', 'x' * 40]


def LABNAME(i):
    return LABNAMES[i % len(LABNAMES)] + ('' if i < len(LABNAMES) else str(i))


def COL(c):
    """colour component from its JSON form [type, float.hex()]: the SAME binary64 value given as a Python float,
    a Python int (0/1 only), a numpy float32 (value representable) or a numpy float64"""
    ty, hx = c
    v = float.fromhex(hx)
    if ty == 'i':
        return int(v)
    if ty == 'f32':
        return np.float32(v)
    if ty == 'f64':
        return np.float64(v)
    return v


def col_bits(x):
    import struct
    return struct.unpack('<Q', struct.pack('<d', float(x)))[0]


def RICHTABLE(tab):
    """label table {key: (name, rgba)} from its JSON form [[key, labname_id, [c, c, c, c]], ...]"""
    return {int(k): (LABNAME(nm), tuple(COL(c) for c in cols)) for k, nm, cols in tab}


def VOXSET(i):
    if i == 0:
        return np.zeros((0, 3), dtype=int)
    rows = [[i % 3, (i // 3) % 4, i % 5]] + [[(i + j) % 3, (2 * i + j) % 4, (i * j) % 5] for j in range(i % 3)]
    return np.array(rows, dtype=int).reshape(len(rows), 3)


def VERTDICT(i):
    if i == 0:
        return {}
    d = {STRUCTS[0]: np.array([i % 7] + [(i + j) % 7 for j in range(i % 3)], dtype=int)}
    if i % 3 == 2:
        d[STRUCTS[1]] = np.array([i % 5], dtype=int)
    return d


def AFFINE(i):
    if i >= 12:
        # oblique "scanner" affines: entries that need many digits, small off-diagonal terms, large offsets
        r = np.random.RandomState(i)
        th = [0.0123456789, 0.3, 1e-3][i % 3]
        c, s_ = np.cos(th), np.sin(th)
        a = np.eye(4)
        a[:3, :3] = np.array([[c, -s_, 0.0], [s_, c, 0.0], [0.0, 0.0, 1.0]]) @ np.diag([2.0, 1.0 / 3.0, -1.7])
        a[0, 2] = 1.2345678e-3 * (1 + i % 5)
        a[:3, 3] = r.uniform(-130, 130, 3)
        return a
    a = np.eye(4)
    a[0, 0] = 1.0 + 0.5 * i
    a[1, 1] = 2.0
    a[2, 2] = -1.5
    a[:3, 3] = [i, -2.0 * i, 0.25]
    return a


def _canon_meta(m):
    """EXACT content of a metadata dict: keys and values must be `str` (anything else is marked with its repr, so that
    the value None and the text 'None' are different)"""
    def tx(x):
        return str(x) if isinstance(x, str) else '!' + repr(x)
    return tuple(sorted((tx(k), tx(v)) for k, v in dict(m).items()))


def _canon_label(d):
    return tuple(sorted((int(k), str(v[0]), tuple(float(x) for x in v[1])) for k, v in d.items()))


def _canon_vox(v):
    v = np.asarray(v)
    return (tuple(v.shape), tuple(map(int, v.ravel())))


def _canon_vert(d):
    return tuple(sorted((str(k), tuple(map(int, np.asarray(v).ravel()))) for k, v in d.items()))


def _rev(f, canon, n=NID):
    t = {}
    for i in range(n):
        k = canon(f(i))
        assert k not in t, (f.__name__, i, t[k])
        t[k] = i
    return t


_R_NAME = _rev(NAME, str)
_R_META = _rev(META, _canon_meta, NMETA)
_R_LABEL = _rev(LABEL, _canon_label)
_R_VOX = _rev(VOXSET, _canon_vox)
_R_VERT = _rev(VERTDICT, _canon_vert)
_R_STRUCT = {s: i for i, s in enumerate(STRUCTS)}
_R_LABNAME = {LABNAME(i): i for i in range(2 * len(LABNAMES))}
_R_AFF = {tuple(AFFINE(i).ravel()): i for i in range(12)}
RICH_AFFINES = list(range(12, 24))
VOX_IDS = VERT_IDS = list(range(NID))
# names that the XML layer does not preserve (see PENDING_FINDINGS): kept out of the round-trip streams
XML_UNSAFE_NAMES = [i for i in range(NID) if NAME(i) != NAME(i).strip() or NAME(i) == '']
XML_SAFE_NAMES = [i for i in range(NID) if i not in XML_UNSAFE_NAMES]


def _meta_xml_safe(m):
    return all(isinstance(x, str) and x == x.strip() for kv in m.items() for x in kv)


ALL_METAS = list(range(NMETA))
XML_SAFE_METAS = [i for i in ALL_METAS if _meta_xml_safe(META(i))]
XML_UNSAFE_METAS = [i for i in ALL_METAS if i not in XML_SAFE_METAS]
# dicts that differ only in whether an entry with an EMPTY value is present / which of its values is empty
_WITH_EMPTY = [META(i) for i in XML_SAFE_METAS if '' in META(i).values()]
_SANS_EMPTY = [{k_: v for k_, v in m.items() if v != ''} for m in _WITH_EMPTY]
META_EMPTYISH = [i for i in XML_SAFE_METAS if META(i) in _WITH_EMPTY or META(i) in _SANS_EMPTY]
assert len(XML_SAFE_METAS) == NID + _N_META_SAFE, (len(XML_SAFE_METAS), _N_META_SAFE)
assert META(91) == {'a': ' x'}        # the id used by PENDING_FINDINGS roundtrip:meta-whitespace (ids must stay stable)


def rid(table, key):
    r = table.get(key)
    return '?' + repr(key)[:40] if r is None else str(r)


# ------------------------------------------------------------------ building real axes from case data

def A():
    from nibabel.cifti2 import cifti2_axes
    return cifti2_axes


def build_axis(d):
    ax = A()
    k = d['kind']
    if k == 'ser':
        return ax.SeriesAxis(d['start'], d['step'], d['size'], UNITS[d['unit']])
    if k == 'sc':
        return ax.ScalarAxis([NAME(i) for i in d['name']], [META(i) for i in d['meta']])
    if k == 'scm':
        return ax.ScalarAxis([NAME(i) for i in d['name']], [MDICT(m) for m in d['metas']])
    if k == 'la':
        return ax.LabelAxis([NAME(i) for i in d['name']], [LABEL(i) for i in d['label']],
                            [META(i) for i in d['meta']])
    if k == 'lar':
        return ax.LabelAxis([NAME(i) for i in d['name']], [RICHTABLE(tb) for tb in d['tables']],
                            [META(i) for i in d['meta']])
    if k == 'pa':
        vox = [VOXSET(i) for i in d['voxels']]
        vert = np.empty(len(d['vertices']), dtype=object)
        for j, i in enumerate(d['vertices']):
            vert[j] = VERTDICT(i)
        return ax.ParcelsAxis([NAME(i) for i in d['name']], vox, vert,
                              None if d['aff'] is None else AFFINE(d['aff']),
                              None if d['shp'] is None else tuple(d['shp']),
                              {STRUCTS[k_]: v for k_, v in d['nv']})
    if k == 'bm':
        els = d['els']
        names = np.array([STRUCTS[e[0]] for e in els], dtype='U40')
        voxel = np.array([e[1] for e in els], dtype=int).reshape(len(els), 3)
        vertex = np.array([e[2] for e in els], dtype=int)
        return ax.BrainModelAxis(names, voxel, vertex,
                                 None if d['aff'] is None else AFFINE(d['aff']),
                                 None if d['shp'] is None else tuple(d['shp']),
                                 {STRUCTS[k_]: v for k_, v in d['nv']})
    raise ValueError(k)


def py_index(ix):
    t, v = ix['t'], ix['v']
    if t == 'i':
        return int(v)
    if t == 's':
        return slice(*v)
    if t == 'a':
        return [int(x) for x in v] if ix.get('list') and v else np.array(v, dtype=int)
    if t == 'm':
        return [bool(x) for x in v] if ix.get('list') and v else np.array(v, dtype=bool)
    raise ValueError(t)


def canon_el(kind, e):
    """canonical description of one `get_element` result"""
    if kind == 'ser':
        return str(_exact_int(e))
    if kind == 'sc':
        return rid(_R_NAME, str(e[0])) + ':' + rid(_R_META, _canon_meta(e[1]))
    if kind == 'la':
        return rid(_R_NAME, str(e[0])) + ':' + rid(_R_LABEL, _canon_label(e[1])) + ':' + rid(_R_META, _canon_meta(e[2]))
    if kind == 'pa':
        return rid(_R_NAME, str(e[0])) + ':' + rid(_R_VOX, _canon_vox(e[1])) + ':' + rid(_R_VERT, _canon_vert(e[2]))
    if kind == 'bm':
        typ, val, name = e
        s = rid(_R_STRUCT, str(name))
        if typ == 'CIFTI_MODEL_TYPE_SURFACE':
            return 'S:%s:%d' % (s, int(val))
        if typ == 'CIFTI_MODEL_TYPE_VOXELS':
            return 'V:%s:%s' % (s, '.'.join(str(int(x)) for x in val))
        return '?' + str(typ)
    raise ValueError(kind)


def _exact_int(x):
    f = float(x)
    if f != int(f):
        raise ValueError('non-integer series value %r' % (x,))
    return int(f)


def elements(kind, axis):
    return [canon_el(kind, axis.get_element(i)) for i in range(len(axis))]


def canon_vol(axis):
    nv = ','.join('%s:%d' % (rid(_R_STRUCT, k), v) for k, v in
                  sorted(axis.nvertices.items(), key=lambda kv: _R_STRUCT.get(kv[0], 99))) or '-'
    aff = '_' if axis.affine is None else rid(_R_AFF, tuple(np.asarray(axis.affine, dtype=float).ravel()))
    shp = '_' if axis.volume_shape is None else '.'.join(str(int(x)) for x in axis.volume_shape)
    return 'nv=%s aff=%s shp=%s' % (nv, aff, shp)


def canon_axis(kind, axis):
    if kind == 'ser':
        return 'ax %d %d %d %d [%s]' % (_exact_int(axis.start), _exact_int(axis.step), axis.size,
                                        UNITS.index(axis.unit), ','.join(elements('ser', axis)))
    els = elements(kind, axis)
    s = 'ax %d %s' % (len(axis), ';'.join(els) or '-')
    if kind in ('pa', 'bm'):
        s += ' ' + canon_vol(axis)
    return s


# ------------------------------------------------------------------ protocol lines

def _l(v):
    return ','.join(str(int(x)) for x in v) if len(v) else '-'


def _o(v):
    return '_' if v is None else str(int(v))


def fmt_index(ix):
    t, v = ix['t'], ix['v']
    if t == 'i':
        return 'i%d' % v
    if t == 's':
        return 's' + ','.join(_o(x) for x in v)
    if t == 'a':
        return 'a' + _l(v)
    if t == 'm':
        return 'm' + (''.join('1' if x else '0' for x in v) or '-')
    raise ValueError(t)


def fmt_axis(d):
    k = d['kind']
    if k == 'ser':
        return 'ser %d %d %d %d' % (d['start'], d['step'], d['size'], d['unit'])
    if k == 'sc':
        return 'sc %s %s' % (_l(d['name']), _l(d['meta']))
    if k == 'la':
        return 'la %s %s %s' % (_l(d['name']), _l(d['label']), _l(d['meta']))
    vol = '%s %s %s' % (','.join('%d:%d' % (a, b) for a, b in d['nv']) or '-', _o(d['aff']),
                        '_' if d['shp'] is None else '.'.join(map(str, d['shp'])))
    if k == 'pa':
        return 'pa %s %s %s %s' % (_l(d['name']), _l(d['voxels']), _l(d['vertices']), vol)
    if k == 'bm':
        els = ','.join('%d/%s/%d' % (e[0], '.'.join(str(x) for x in e[1]), e[2]) for e in d['els']) or '-'
        return 'bm %s %s' % (els, vol)
    raise ValueError(k)


def fmt_tables(tables):
    return '|'.join(';'.join('%d/%d/%s' % (k, nm, '.'.join(str(col_bits(COL(c))) for c in cols))
                             for k, nm, cols in tb) for tb in tables) or '-'


def fmt_par(d):
    """the explicit (rich) form of an id-described parcels axis for the `par … xrt` driver op"""
    vox = '|'.join(';'.join('.'.join(str(int(x)) for x in row) for row in VOXSET(i)) or '_' for i in d['voxels']) or '-'
    vert = '|'.join(';'.join('%d:%s' % (_R_STRUCT[k_], '.'.join(str(int(x)) for x in v))
                             for k_, v in VERTDICT(i).items()) or '_' for i in d['vertices']) or '-'
    vol = '%s %s %s' % (','.join('%d:%d' % (a, b) for a, b in d['nv']) or '-', _o(d['aff']),
                        '_' if d['shp'] is None else '.'.join(map(str, d['shp'])))
    return 'par %s %s %s %s' % (_l(d['name']), vox, vert, vol)


def fmt_hdr_axis(a):
    if a[0] == 'S':
        return 'S%d.%d.%d.%d' % tuple(a[1:])
    return 'C%s/%s' % (_l(a[1]), _l(a[2]))


def axis_fields(d):
    return fmt_axis(d).split(' ', 1)[1]


def has_line(d):
    """float series and round-trip streams are oracle-only"""
    if d.get('kind') == 'ser' and not all(isinstance(d[k], int) for k in ('start', 'step')):
        return False
    return d.get('op') in ('idx', 'add', 'runs', 'rt', 'name', 'map', 'xrt', 'hdr', 'fmx')   # xml/file/file2/eq are oracle-only


def mk_case(d, stream):
    op = d['op']
    line = None
    if op == 'hdr':
        line = 'C18 hdr ' + '|'.join(fmt_hdr_axis(a) for a in d['axes'])
    elif op == 'xrt' and d['kind'] == 'lar':
        line = 'C18 lar %s %s %s xrt' % (_l(d['name']), _l(d['meta']), fmt_tables(d['tables']))
    elif op == 'xrt' and d['kind'] == 'pa':
        line = 'C18 ' + fmt_par(d) + ' xrt'
    elif op == 'xrt' and d['kind'] == 'scm':
        line = 'C18 scm %s %s xrt' % (_l(d['name']), '|'.join(fmt_mdict(m) for m in d['metas']) or '-')
    elif op == 'fmx':
        line = 'C18 fm %s xrt' % fmt_mdict(d['meta'])
    elif has_line(d):
        line = 'C18 ' + fmt_axis(d)
        if op == 'idx':
            line += ' idx ' + fmt_index(d['idx'])
        elif op == 'add':
            if d['other'].get('kind') == 'ser' and not all(isinstance(d['other'][k], int) for k in ('start', 'step')):
                line = None
            else:
                line += ' add ' + axis_fields(d['other'])
        elif op == 'name':
            line += ' name %d' % d['nm']
        else:
            line += ' ' + op
        if line is not None and d.get('gen'):
            line = 'C18 gen ' + line[4:]      # the same call on the methods TRANSLATED from the source
    trivial = op == 'idx' and d['idx']['t'] == 's' and d['idx']['v'] == [None, None, None]
    key = None if trivial else json.dumps(d, sort_keys=True, default=str)
    return Case(line, d, key, stream)


def case_from_data(d):
    return mk_case(d, d.get('stream', d.get('kind', 'rt')))


# ------------------------------------------------------------------ implementation side

def _err(e):
    return errname(e)


def impl(case):
    d = case.data
    case.extra = ex = {}
    op = d['op']
    if op in ('xml', 'file', 'file2'):
        return impl_roundtrip(case)
    if op == 'eq':
        a, b = build_rich_axis(d['a']), build_rich_axis(d['b'])
        ex['a'], ex['b'] = a, b
        return 'eq %s %s' % (bool(a == b), bool(b == a))
    if op == 'hdr':
        return impl_hdr(case)
    if op == 'fmx':        # file-level metadata (MetaData child of Matrix) through the XML text
        from nibabel.cifti2 import cifti2
        from nibabel.cifti2.parse_cifti2 import Cifti2Parser
        hdr = cifti2.Cifti2Header.from_axes([A().ScalarAxis([NAME(0)], [{}])])
        hdr.matrix.metadata = cifti2.Cifti2MetaData(MDICT(d['meta']))
        p = Cifti2Parser()
        p.parse(string=hdr.to_xml())
        ex['res'] = {} if p.header.matrix.metadata is None else dict(p.header.matrix.metadata)
        return show_mdict(ex['res'])
    kind = d['kind']
    try:
        axis = build_axis(d)
    except (ValueError, IndexError) as e:
        ex['build_error'] = e
        return _err(e)
    ex['axis'] = axis
    try:
        if op == 'idx':
            ix = d['idx']
            r = axis[py_index(ix)]
            ex['res'] = r
            if ix['t'] == 'i':
                return 'el ' + canon_el(kind, r)
            return canon_axis(kind, r)
        if op == 'name':
            r = axis[NAME(d['nm'])]
            ex['res'] = r
            return 'el ' + rid(_R_VOX, _canon_vox(r[0])) + ':' + rid(_R_VERT, _canon_vert(r[1]))
        if op == 'add':
            try:
                other = build_axis(d['other'])
            except (ValueError, IndexError) as e:
                ex['build_error'] = e
                return _err(e)
            ex['other'] = other
            r = axis + other
            ex['res'] = r
            return canon_axis(kind, r)
        if op == 'runs':
            rs = list(axis.iter_structures())
            ex['runs'] = rs
            return ','.join('%s:%d:%d:%d' % (rid(_R_STRUCT, str(n)), s.start,
                                             len(axis) if s.stop is None else s.stop, len(b))
                            for n, s, b in rs) or '-'
        if op == 'map':            # SeriesAxis: to_mapping / from_index_mapping without the XML text
            m = axis.to_mapping(0)
            r = A().SeriesAxis.from_index_mapping(m)
            ex['res'] = r
            return canon_axis('ser', r) + ' exp=%d' % m.series_exponent
        if op == 'xrt':            # one axis: header -> XML text -> parser -> header.get_axis(0)
            r = xml_roundtrip([axis])[0]
            ex['res'] = r
            if kind == 'lar':
                return canon_labelr(r)
            if kind == 'pa':
                return canon_parcelsr(r)
            if kind == 'scm':
                return 'ax %d %s' % (len(r), ';'.join('%s:%s' % (rid(_R_NAME, str(nm)), show_mdict(m))
                                                      for nm, m in zip(r.name, r.meta)) or '-')
            return canon_axis(kind, r)
        if op == 'rt':
            m = axis.to_mapping(0)
            ex['mim'] = m
            r = A().BrainModelAxis.from_index_mapping(m)
            ex['res'] = r
            recs = ','.join('%d:%d:%s:%s:%s' % (
                b.index_offset, b.index_count, 'S' if b.model_type == 'CIFTI_MODEL_TYPE_SURFACE' else 'V',
                rid(_R_STRUCT, str(b.brain_structure)), _o(b.surface_number_of_vertices)) for b in m.brain_models) or '-'
            if m.volume is None:
                vol = '_'
            else:
                vol = '.'.join(str(int(x)) for x in m.volume.volume_dimensions) + '/' + rid(
                    _R_AFF, tuple(np.asarray(m.volume.transformation_matrix_voxel_indices_ijk_to_xyz.matrix,
                                             dtype=float).ravel()))
            return canon_axis('bm', r) + ' | ' + recs + ' vol=' + vol
    except (ValueError, IndexError) as e:
        ex['error'] = e
        return _err(e)
    raise ValueError(op)


def xml_roundtrip(axes):
    from nibabel.cifti2 import cifti2
    from nibabel.cifti2.parse_cifti2 import Cifti2Parser
    xml = cifti2.Cifti2Header.from_axes(axes).to_xml()
    p = Cifti2Parser()
    p.parse(string=xml)
    return [p.header.get_axis(i) for i in range(len(axes))]


def canon_labelr(axis):
    """label axis with explicit tables: entries in dict order, colours as binary64 bit patterns"""
    els = []
    for i in range(len(axis)):
        nm, tab, meta = axis.get_element(i)
        ents = ','.join('%d/%s/%s' % (int(k), rid(_R_LABNAME, str(v[0])), '.'.join(str(col_bits(c)) for c in v[1]))
                        for k, v in tab.items())
        els.append('%s:%s:[%s]' % (rid(_R_NAME, str(nm)), rid(_R_META, _canon_meta(meta)), ents))
    return 'ax %d %s' % (len(axis), ';'.join(els) or '-')


def canon_parcelsr(axis):
    """parcels axis in explicit form: voxel rows, vertex dicts and nvertices in dict order"""
    els = []
    for i in range(len(axis)):
        nm, vox, vert = axis.get_element(i)
        v = ';'.join('.'.join(str(int(x)) for x in row) for row in np.asarray(vox).reshape(-1, 3)) or '-'
        w = ';'.join('%s:%s' % (rid(_R_STRUCT, str(k)), '.'.join(str(int(x)) for x in np.asarray(a).ravel()) or '-')
                     for k, a in vert.items()) or '-'
        els.append('%s/%s/%s' % (rid(_R_NAME, str(nm)), v, w))
    nv = ','.join('%s:%d' % (rid(_R_STRUCT, k), v) for k, v in axis.nvertices.items()) or '-'
    aff = '_' if axis.affine is None else rid(_R_AFF, tuple(np.asarray(axis.affine, dtype=float).ravel()))
    shp = '_' if axis.volume_shape is None else '.'.join(str(int(x)) for x in axis.volume_shape)
    return 'ax %d %s nv=%s aff=%s shp=%s' % (len(axis), '|'.join(els) or '-', nv, aff, shp)


def build_hdr_axis(a):
    ax = A()
    if a[0] == 'S':
        return ax.SeriesAxis(a[1], a[2], a[3], UNITS[a[4]])
    return ax.ScalarAxis([NAME(i) for i in a[1]], [META(i) for i in a[2]])


def impl_hdr(case):
    """`to_header` alone (no XML): which map describes which dimensions, and what axis each map gives back"""
    ax = A()
    d, ex = case.data, case.extra
    axes = [build_hdr_axis(a) for a in d['axes']]
    ex['axes'] = axes
    hdr = ax.to_header(axes)
    ex['hdr'] = hdr
    parts = []
    for mim in hdr.matrix:
        r = ax.from_index_mapping(mim)
        if isinstance(r, ax.SeriesAxis):
            desc = 'S%d.%d.%d.%d' % (_exact_int(r.start), _exact_int(r.step), r.size, UNITS.index(r.unit))
        else:
            desc = 'C%s/%s' % (','.join(rid(_R_NAME, str(x)) for x in r.name) or '-',
                               ','.join(rid(_R_META, _canon_meta(m)) for m in r.meta) or '-')
        parts.append(','.join(str(int(x)) for x in mim.applies_to_matrix_dimension) + '=' + desc)
    return '|'.join(parts) or '-'


# ------------------------------------------------------------------ round trips (oracle-only streams)

def build_rich_axis(spec):
    """axes built through the public factory functions, from a JSON-able spec"""
    ax = A()
    t = spec['t']
    if t == 'raw':
        return build_axis(spec['d'])
    if t == 'series':
        return ax.SeriesAxis(spec['start'], spec['step'], spec['size'], UNITS[spec['unit']])
    if t == 'bm':
        parts = []
        for p in spec['parts']:
            if p['surf']:
                parts.append(ax.BrainModelAxis.from_surface(p['vertices'], p['nvertex'], name=STRUCTS[p['s']]))
            else:
                mask = np.zeros(spec['shape'], dtype=int)
                for v in p['voxels']:
                    mask[tuple(v)] = 1
                parts.append(ax.BrainModelAxis.from_mask(mask, name=STRUCTS[p['s']], affine=AFFINE(spec['aff'])))
        r = parts[0]
        for p in parts[1:]:
            r = r + p
        if spec.get('perm') is not None:
            r = r[np.array(spec['perm'], dtype=int)]
        return r
    if t == 'parcels':
        bm = build_rich_axis(spec['bm'])
        return ax.ParcelsAxis.from_brain_models(
            [(NAME(nm), bm[np.array(sel, dtype=int)]) for nm, sel in spec['parcels']])
    if t == 'perturb':
        return perturb_axis(build_rich_axis(spec['base']), spec['p'])
    if t == 'label':
        return ax.LabelAxis([NAME(i) for i in spec['name']], [RICHTABLE(tb) for tb in spec['tables']],
                            [META(i) for i in spec['meta']])
    if t == 'hist':
        # an axis with a HISTORY: indexing / concatenation steps applied before it is serialised.  A step that the
        # axis refuses (incompatible operands, empty brain-model selection) or that would leave an empty axis is
        # skipped, so every spec denotes a non-empty axis.
        r = build_rich_axis(spec['base'])
        for st in spec['steps']:
            try:
                if 'idx' in st:
                    q = r[py_index(st['idx'])]
                elif 'add' in st:
                    q = r + build_rich_axis(st['add'])
                else:
                    q = build_rich_axis(st['radd']) + r
            except (ValueError, IndexError):
                continue
            if isinstance(q, ax.Axis) and len(q) > 0:
                r = q
        return r
    raise ValueError(t)


def perturb_axis(a, p):
    """a near-duplicate of the real axis `a`: exactly one field changed (`p` = [what, j, k]); falls back to an
    identical rebuilt copy when the perturbation does not apply."""
    ax = A()
    what, j, k = p
    kind = axis_kind(a)
    n = len(a)
    j = j % n if n else 0
    if kind == 'ser':
        start, step, size, unit = a.start, a.step, a.size, a.unit
        if what == 'start':
            start = start + 1 + k
        elif what == 'step':
            step = step * 2 + 1
        elif what == 'size':
            size = size + 1
        elif what == 'unit':
            unit = UNITS[(UNITS.index(unit) + 1 + k % 3) % 4]
        return ax.SeriesAxis(start, step, size, unit)
    if kind in ('sc', 'la'):
        name = [str(x) for x in a.name]
        meta = [dict(m) for m in a.meta]
        label = [dict(l) for l in a.label] if kind == 'la' else None
        if n:
            if what == 'name':
                name[j] = name[j] + 'x'
            elif what == 'meta':
                meta[j]['extra%d' % k] = 'y'
            elif what == 'meta-drop' and meta[j]:
                meta[j].pop(sorted(meta[j])[k % len(meta[j])])
            elif what == 'meta-empty':              # one more entry whose value is the EMPTY string
                meta[j][['Comment', 'Description', 'extra'][k % 3] + ('' if k < 3 else '2')] = ''
            elif what == 'meta-blank' and meta[j]:  # one value becomes '' (or stops being '')
                key = sorted(meta[j])[k % len(meta[j])]
                meta[j][key] = '' if meta[j][key] != '' else 'x'
            elif what == 'meta-case' and meta[j]:   # one key changes case
                key = sorted(meta[j])[k % len(meta[j])]
                k2 = key.swapcase() if key.swapcase() != key else key + 'X'
                if k2 not in meta[j]:
                    meta[j][k2] = meta[j].pop(key)
            elif what == 'label' and kind == 'la':
                label[j][900 + k] = ('extra', (0.5, 0.25, 0.0, 1.0))
            elif what == 'label-colour' and kind == 'la' and label[j]:
                key = sorted(label[j])[k % len(label[j])]
                nm_, rgba = label[j][key]
                label[j][key] = (nm_, (rgba[0], rgba[1], rgba[2], 0.75 if rgba[3] != 0.75 else 0.25))
            elif what == 'label-colour-ulp' and kind == 'la' and label[j]:
                # the smallest possible colour difference: one component moved by one ulp
                key = sorted(label[j])[k % len(label[j])]
                nm_, rgba = label[j][key]
                x = rgba[k % 4]
                if isinstance(x, np.floating):
                    # one ulp OF THE COMPONENT'S OWN TYPE (a float32 colour compares equal to every Python float
                    # that rounds to it: NumPy weak-scalar promotion, not a property of the axis)
                    y = type(x)(np.nextafter(x, type(x)(0.0 if x > 0.5 else 1.0)))
                else:
                    y = float(np.nextafter(float(x), 0.0 if x > 0.5 else 1.0))
                label[j][key] = (nm_, tuple(y if i_ == k % 4 else v for i_, v in enumerate(rgba)))
            elif what == 'label-drop' and kind == 'la' and len(label[j]) > 1:
                label[j].pop(sorted(label[j])[-1])
        return ax.ScalarAxis(name, meta) if kind == 'sc' else ax.LabelAxis(name, label, meta)
    if kind == 'pa':
        name = [str(x) for x in a.name]
        voxels = [np.array(v, dtype=int).reshape(-1, 3) for v in a.voxels]
        vertices = [{str(s_): np.array(v, dtype=int) for s_, v in d_.items()} for d_ in a.vertices]
        nv = dict(a.nvertices)
        affine, shape = a.affine, a.volume_shape
        if n:
            if what == 'name':
                name[j] = name[j] + 'x'
            elif what == 'add-struct':
                free = [s_ for s_ in sorted(nv) if s_ not in vertices[j]]
                if free:
                    s_ = free[k % len(free)]
                    vertices[j][s_] = np.array([k % nv[s_]], dtype=int)
            elif what == 'drop-struct' and vertices[j]:
                vertices[j].pop(sorted(vertices[j])[k % len(vertices[j])])
            elif what == 'vertex' and vertices[j]:
                s_ = sorted(vertices[j])[k % len(vertices[j])]
                vertices[j][s_] = np.append(vertices[j][s_], (int(vertices[j][s_][-1]) + 1) % nv.get(s_, 99))
            elif what == 'voxel' and shape is not None:
                voxels[j] = np.concatenate([voxels[j], [[k % shape[0], (k // 2) % shape[1], (k // 3) % shape[2]]]], 0)
            elif what == 'voxel-drop' and len(voxels[j]):
                voxels[j] = voxels[j][:-1]
            elif what == 'nvertices' and nv:
                s_ = sorted(nv)[k % len(nv)]
                nv[s_] = nv[s_] + 1
            elif what == 'affine' and affine is not None:
                affine = np.array(affine, dtype=float)
                affine[0, 3] += 1.0
        vert = np.empty(n, dtype=object)
        for i in range(n):
            vert[i] = vertices[i]
        return ax.ParcelsAxis(name, voxels, vert, affine, shape, nv)
    if kind == 'bm':
        name = [str(x) for x in a.name]
        voxel = np.array(a.voxel, dtype=int)
        vertex = np.array(a.vertex, dtype=int)
        nv = dict(a.nvertices)
        affine, shape = a.affine, a.volume_shape
        surf = bool(a.surface_mask[j])
        if what == 'index':
            if surf:
                vertex[j] = (vertex[j] + 1) % nv[name[j]]
            else:
                voxel[j, k % 3] = (voxel[j, k % 3] + 1) % shape[k % 3]
        elif what == 'nvertices' and nv:
            s_ = sorted(nv)[k % len(nv)]
            nv[s_] = nv[s_] + 1
        elif what == 'affine' and affine is not None:
            affine = np.array(affine, dtype=float)
            affine[1, 3] += 1.0
        elif what == 'struct':
            same = [s_ for s_ in STRUCTS if s_ != name[j] and ((s_ in nv) == surf)]   # same nature
            if same:
                name[j] = same[k % len(same)]
        elif what == 'drop-last' and n > 1:
            name, voxel, vertex = name[:-1], voxel[:-1], vertex[:-1]
        return ax.BrainModelAxis(np.array(name, dtype='U40'), voxel, vertex, affine, shape, nv)
    raise ValueError(kind)


PERTURBATIONS = {
    'ser': ['start', 'step', 'size', 'unit', 'none'],
    'sc': ['name', 'meta', 'meta-drop', 'meta-empty', 'meta-blank', 'meta-case', 'none'],
    'la': ['name', 'meta', 'meta-drop', 'meta-empty', 'meta-blank', 'meta-case', 'label', 'label-colour',
           'label-colour-ulp', 'label-drop', 'none'],
    'pa': ['name', 'add-struct', 'add-struct', 'drop-struct', 'vertex', 'voxel', 'voxel-drop', 'nvertices', 'affine',
           'none'],
    'bm': ['index', 'nvertices', 'affine', 'struct', 'drop-last', 'none'],
}


def axis_kind(axis):
    ax = A()
    return {ax.SeriesAxis: 'ser', ax.ScalarAxis: 'sc', ax.LabelAxis: 'la', ax.ParcelsAxis: 'pa',
            ax.BrainModelAxis: 'bm'}[type(axis)]


def describe(axis, with_affine=True):
    """full canonical, id-free description of an axis (used to compare axes without relying on __eq__);
    `with_affine=False` leaves the affine out (the round-trip oracle compares it with np.allclose, the equality
    nibabel documents for affines: the XML text keeps 10 decimals)"""
    k = axis_kind(axis)
    if k == 'ser':
        return ('ser', float(axis.start), float(axis.step), int(axis.size), axis.unit)
    out = [k, len(axis)]
    for i in range(len(axis)):
        e = axis.get_element(i)
        if k == 'sc':
            out.append((str(e[0]), _canon_meta(e[1])))
        elif k == 'la':
            out.append((str(e[0]), _canon_label(e[1]), _canon_meta(e[2])))
        elif k == 'pa':
            out.append((str(e[0]), _canon_vox(e[1])[1], _canon_vert(e[2])))
        else:
            out.append((str(e[0]), tuple(int(x) for x in np.atleast_1d(e[1])), str(e[2])))
    if k in ('pa', 'bm'):
        out.append(tuple(sorted(axis.nvertices.items())))
        has_vox = (k == 'bm' and bool(axis.volume_mask.any())) or \
                  (k == 'pa' and any(len(v) for v in axis.voxels))
        if has_vox or k == 'pa':
            if with_affine:
                out.append(None if axis.affine is None else tuple(np.asarray(axis.affine, dtype=float).ravel()))
            else:
                out.append(axis.affine is None)
            out.append(None if axis.volume_shape is None else tuple(int(x) for x in axis.volume_shape))
    return tuple(out)


def impl_roundtrip(case):
    import nibabel as nib
    from nibabel.cifti2 import cifti2
    d = case.data
    ex = case.extra
    axes = [build_rich_axis(s) for s in d['axes']]
    ex['axes'] = axes
    hdr = cifti2.Cifti2Header.from_axes(axes)
    if d.get('fmeta') is not None:       # file-level metadata (the MetaData child of Matrix)
        hdr.matrix.metadata = cifti2.Cifti2MetaData(META(d['fmeta']))

    def file_meta(h):
        return None if h.matrix.metadata is None else dict(h.matrix.metadata)
    if d['op'] == 'xml':
        xml = hdr.to_xml()
        ex['xml_len'] = len(xml)
        hdr2 = cifti2.Cifti2Header.from_bytes(xml) if hasattr(cifti2.Cifti2Header, 'from_bytes') else None
        if hdr2 is None:
            from nibabel.cifti2.parse_cifti2 import Cifti2Parser
            p = Cifti2Parser()
            p.parse(string=xml)
            hdr2 = p.header
        ex['back'] = [hdr2.get_axis(i) for i in range(len(axes))]
        ex['nmaps'] = len(list(hdr2.matrix))
        ex['fmeta_back'] = file_meta(hdr2)
        return 'xml %d maps=%d' % (len(axes), ex['nmaps'])
    shape = tuple(len(a) for a in axes)
    rs = np.random.RandomState(d['dseed'])
    data = rs.randint(-1000, 1000, size=shape).astype(np.float32) / 4
    ex['data'] = data
    nifti_header = None
    if d['op'] == 'file2':
        # an earlier image A (other axes, other data) whose NIfTI header is reused for the new image
        axes_a = [build_rich_axis(s) for s in d['axes_a']]
        data_a = rs.randint(-1000, 1000, size=tuple(len(a) for a in axes_a)).astype(np.float32) / 2
        hdr_a = cifti2.Cifti2Header.from_axes(axes_a)
        if d.get('fmeta_a') is not None:
            hdr_a.matrix.metadata = cifti2.Cifti2MetaData(META(d['fmeta_a']))
        img_a = cifti2.Cifti2Image(data_a, hdr_a)
        for _ in range(d.get('saves', 1)):
            bytes_a = img_a.to_bytes()
        if d['mode'] == 'loaded':
            img_a = cifti2.Cifti2Image.from_bytes(bytes_a)
        nifti_header = img_a.nifti_header
    img = cifti2.Cifti2Image(data, hdr, nifti_header=nifti_header)
    b = img.to_bytes()
    if d['op'] == 'file2' and d.get('resave'):
        b = img.to_bytes()
    img2 = cifti2.Cifti2Image.from_bytes(b)
    ex['back'] = [img2.header.get_axis(i) for i in range(len(axes))]
    ex['data_back'] = np.asanyarray(img2.dataobj)
    ex['fmeta_back'] = file_meta(img2.header)
    ex['nifti_dim'] = [int(x) for x in img2.nifti_header['dim']]
    ex['ecodes'] = [e.get_code() for e in img2.nifti_header.extensions]
    return '%s %s' % (d['op'], shape)


# ------------------------------------------------------------------ oracle

def _ref_index(lst, ix):
    """NumPy-style index applied to the list of element descriptions; returns ('el', x) | ('ax', list) |
    ('err',)"""
    arr = np.empty(len(lst), dtype=object)
    for i, x in enumerate(lst):
        arr[i] = x
    try:
        r = arr[py_index(ix)]
    except (IndexError, ValueError):
        return ('err',)
    if ix['t'] == 'i':
        return ('el', r)
    return ('ax', list(r))


def _axes_compatible(kind, a, b):
    """independent statement of when `a + b` must succeed (None = may legitimately refuse)"""
    if kind == 'ser':
        return a.step == b.step and a.unit == b.unit
    if kind in ('sc', 'la'):
        return True
    # pa / bm
    if a.affine is not None and b.affine is not None:
        if not np.array_equal(a.affine, b.affine) or tuple(a.volume_shape) != tuple(b.volume_shape):
            return False
    for k, v in b.nvertices.items():
        if k in a.nvertices and a.nvertices[k] != v:
            return False
    if kind == 'bm':
        # a structure that is a surface in one axis and a volume in the other cannot be concatenated
        for x, y in ((a, b), (b, a)):
            for nm in set(map(str, x.name)):
                if nm not in x.nvertices and nm in y.nvertices:
                    return False
    return True


def oracle(case, out):
    d = case.data
    ex = case.extra or {}
    op = d['op']
    if op in ('xml', 'file', 'file2'):
        return oracle_roundtrip(case, out)
    if op == 'eq':
        if 'a' not in ex:
            return 'building the axes raised: ' + out
        same = describe(ex['a']) == describe(ex['b'])
        want = 'eq %s %s' % (same, same)
        if out != want:
            return (f'{axis_kind(ex["a"])}: (a == b, b == a) = {out[3:]} but the element descriptions are '
                    f'{"equal" if same else "different"} ({d["b"].get("p") or d["a"].get("p")})')
        return None
    if op == 'fmx':
        if 'res' not in ex:
            return 'file-level metadata round trip raised: ' + out
        want = MDICT(d['meta'])
        if ex['res'] != want or _canon_meta(ex['res']) != _canon_meta(want):
            return 'fm: file-level metadata changed by the XML round trip: ' + _meta_diff(want, ex['res'])
        return None
    if op == 'hdr':
        if 'hdr' not in ex:
            return 'to_header raised: ' + out
        axes, hdr = ex['axes'], ex['hdr']
        dims = sorted(int(x) for mim in hdr.matrix for x in mim.applies_to_matrix_dimension)
        if dims != list(range(len(axes))):
            return f'to_header: dimensions mapped {dims}, want each of 0..{len(axes) - 1} exactly once'
        for i, a in enumerate(axes):
            b = hdr.get_axis(i)
            if type(a) is not type(b) or describe(a) != describe(b) or not (a == b) or not (b == a):
                return f'to_header: get_axis({i}) is not axes[{i}]'
        return None
    kind = d['kind']
    if 'build_error' in ex:
        return None           # the constructor refused the description: nothing to index
    if 'axis' not in ex:
        return 'implementation raised unexpectedly: ' + out
    axis = ex['axis']
    if kind == 'ser' and not (isinstance(d['start'], int) and isinstance(d['step'], int)):
        return oracle_series_float(case, out)
    if op in ('map', 'xrt'):
        if out.startswith('ERR'):
            if kind == 'pa' and any(k_ not in axis.nvertices for vd in axis.vertices for k_ in vd):
                return None       # documented refusal: vertices on a structure without an nvertices entry
            return f'{kind}: {op} round trip raised {out} on a valid axis'
        res = ex['res']
        if type(res) is not type(axis) or len(res) != len(axis):
            return f'{kind}: {op} round trip changed the type or length of the axis'
        if kind == 'scm':
            for j, (m0, m1) in enumerate(zip(axis.meta, res.meta)):
                if m0 != m1 or _canon_meta(m0) != _canon_meta(m1):
                    return f'scm: metadata of map {j} changed by the XML round trip: ' + _meta_diff(m0, m1)
            if [str(x) for x in axis.name] != [str(x) for x in res.name]:
                return 'scm: names changed by the XML round trip'
            if not (res == axis) or not (axis == res):
                return 'scm: axis after the xrt round trip != original (__eq__)'
            return None
        if describe(res, False) != describe(axis, False):
            return f'{kind}: {op} round trip changed the axis' + _first_diff(axis, res)
        if not (res == axis) or not (axis == res):
            return f'{kind}: axis after the {op} round trip != original (__eq__)'
        return None
    try:
        els = elements(kind, axis)
    except Exception as e:
        return 'get_element failed on a constructed axis: ' + repr(e)
    if op == 'idx':
        ix = d['idx']
        if kind == 'ser' and ix['t'] in 'am':
            # documented: a SeriesAxis can only be indexed with ints and slices (regular structure)
            return None if out == 'ERR:IndexError' else 'SeriesAxis accepted a non-slice index: ' + out
        ref = _ref_index(els, ix)
        if ref[0] == 'err':
            if not out.startswith('ERR:'):
                return f'{kind}[{fmt_index(ix)}]: NumPy refuses this index on a length-{len(els)} array, axis returned {out[:100]}'
            return None
        if out.startswith('ERR'):
            return f'{kind}[{fmt_index(ix)}] raised {out} where the same index on a length-{len(els)} array selects {len(ref[1]) if ref[0] == "ax" else 1} element(s)'
        res = ex['res']
        if ref[0] == 'el':
            got = canon_el(kind, res)
            if got != ref[1]:
                return f'{kind}[{ix["v"]}] describes {got}, element list gives {ref[1]}'
            return None
        got = elements(kind, res)
        if len(res) != len(ref[1]):
            return f'{kind}[{fmt_index(ix)}]: length {len(res)} but the index selects {len(ref[1])} of {len(els)}'
        if got != ref[1]:
            return f'{kind}[{fmt_index(ix)}]: element descriptions {got[:6]} differ from indexed list {ref[1][:6]}'
        if kind in ('pa', 'bm'):
            # the volume / surface context must survive as far as it is still needed
            for k_, v in res.nvertices.items():
                if axis.nvertices.get(k_) != v:
                    return f'nvertices changed by indexing: {k_}'
            if kind == 'pa':
                # the surfaces the selected parcels refer to keep their vertex counts, the volume its geometry
                for vd in res.vertices:
                    for k_ in vd:
                        if k_ in axis.nvertices and res.nvertices.get(k_) != axis.nvertices[k_]:
                            return f'nvertices of {k_} lost by indexing a ParcelsAxis'
                if any(len(v) for v in res.voxels) and axis.affine is not None:
                    if res.affine is None or not np.array_equal(res.affine, axis.affine) or \
                            tuple(res.volume_shape) != tuple(axis.volume_shape):
                        return 'affine/volume_shape lost or changed by indexing a ParcelsAxis'
            if kind == 'bm' and res.volume_mask.any():
                if res.affine is None or not np.array_equal(res.affine, axis.affine) or \
                        tuple(res.volume_shape) != tuple(axis.volume_shape):
                    return 'affine/volume_shape lost or changed by indexing'
        return None
    if op == 'name':
        hits = [i for i in range(len(axis)) if str(axis.name[i]) == NAME(d['nm'])]
        if len(hits) != 1:
            return None if out == 'ERR:IndexError' else f'parcels[name] with {len(hits)} matches returned {out}'
        e = axis.get_element(hits[0])
        want = 'el ' + rid(_R_VOX, _canon_vox(e[1])) + ':' + rid(_R_VERT, _canon_vert(e[2]))
        return None if out == want else f'parcels[name] gives {out}, element {hits[0]} is {want}'
    if op == 'add':
        other = ex.get('other')
        if other is None:
            return None
        els2 = elements(kind, other)
        compat = _axes_compatible(kind, axis, other)
        if out.startswith('ERR'):
            if compat:
                return f'{kind} + {kind} refused ({out}) although the two axes are compatible'
            return None
        res = ex['res']
        if len(res) != len(els) + len(els2):
            return f'{kind} + {kind}: length {len(res)} != {len(els)} + {len(els2)}'
        got = elements(kind, res)
        if kind == 'ser':
            # documented: the start of `other` is ignored; the result continues the first axis
            cont = [str(int(axis.start) + int(axis.step) * (len(els) + j)) for j in range(len(els2))]
            if got != els + cont:
                return f'series + series: {got} != continuation {els + cont}'
            if not compat:
                return f'series + series accepted different step/unit: {out}'
            return None
        if got != els + els2:
            return f'{kind} + {kind}: element descriptions {got[:8]} != concatenation {(els + els2)[:8]}'
        return None
    if op == 'runs':
        rs = ex.get('runs')
        if rs is None:
            return None if len(els) == 0 else 'iter_structures raised on a non-empty axis: ' + out
        pos = 0
        cat = []
        prev = None
        for n, slc, b in rs:
            stop = len(axis) if slc.stop is None else slc.stop
            if slc.start != pos or stop <= slc.start:
                return f'iter_structures slices do not tile the axis: {slc} at {pos}'
            if prev is not None and str(prev) == str(n):
                return 'iter_structures yields two adjacent runs of the same structure'
            if any(str(x) != str(n) for x in b.name) or len(b) != stop - slc.start:
                return f'sub-axis of run {n} {slc} has wrong names/length'
            cat += elements('bm', b)
            pos, prev = stop, n
        if pos != len(axis) or cat != els:
            return f'concatenating the iter_structures sub-axes gives {cat[:6]} not {els[:6]}'
        return None
    if op == 'rt':
        if out.startswith('ERR'):
            return None if len(els) == 0 else 'to_mapping/from_index_mapping raised on a valid axis: ' + out
        res = ex['res']
        if elements('bm', res) != els:
            return f'from_index_mapping(to_mapping(axis)) elements {elements("bm", res)[:6]} != {els[:6]}'
        if describe(res) != describe(axis) or not (res == axis):
            return 'from_index_mapping(to_mapping(axis)) != axis (nvertices/affine/shape/__eq__)'
        return None
    return 'unknown op'


def oracle_series_float(case, out):
    d = case.data
    ex = case.extra
    axis = ex['axis']
    times = [float(axis.get_element(i)) for i in range(len(axis))]
    if d['op'] == 'idx':
        ix = d['idx']
        if ix['t'] in 'am':
            return None if out == 'ERR:IndexError' else 'SeriesAxis accepted a non-slice index'
        try:
            ref = times[py_index(ix)]
        except (IndexError, ValueError):
            return None if out.startswith('ERR') else 'list indexing refuses, SeriesAxis returned ' + out[:80]
        if 'res' not in ex:
            return f'series[{fmt_index(ix)}] raised {out}; list indexing gives {ref}'
        res = ex['res']
        got = [float(res)] if ix['t'] == 'i' else [float(res.get_element(i)) for i in range(len(res))]
        ref = [ref] if ix['t'] == 'i' else ref
        if len(got) != len(ref):
            return f'series[{fmt_index(ix)}] has {len(got)} elements, list indexing gives {len(ref)}'
        if not np.allclose(got, ref, rtol=1e-9, atol=1e-9):
            return f'series[{fmt_index(ix)}] times {got[:5]} != {ref[:5]}'
        if ix['t'] == 's' and len(got) and not np.allclose(res.time, ref, rtol=1e-9, atol=1e-9):
            return 'series[...].time differs from indexed times'
        return None
    return None


def oracle_roundtrip(case, out):
    d = case.data
    ex = case.extra or {}
    if 'back' not in ex:
        return 'round trip raised: ' + out
    axes, back = ex['axes'], ex['back']
    for i, (a, b) in enumerate(zip(axes, back)):
        if type(a) is not type(b):
            return f'axis {i}: type {type(b).__name__} after round trip, was {type(a).__name__}'
        if len(a) != len(b):
            return f'axis {i}: length {len(b)} after round trip, was {len(a)}'
        if describe(a, False) != describe(b, False):
            return f'axis {i} ({axis_kind(a)}): description changed by the {d["op"]} round trip' + _first_diff(a, b)
        if getattr(a, 'affine', None) is not None and getattr(b, 'affine', None) is not None and \
                not np.allclose(np.asarray(a.affine, dtype=float), np.asarray(b.affine, dtype=float)):
            return f'axis {i} ({axis_kind(a)}): affine changed by the {d["op"]} round trip beyond np.allclose'
        if not (b == a) or not (a == b):
            return f'axis {i} ({axis_kind(a)}): header.get_axis(i) != axes[i] after the {d["op"]} round trip'
    # file-level metadata: exactly the entries that were set (no MetaData element = no entries)
    want = _canon_meta({} if d.get('fmeta') is None else META(d['fmeta']))
    got = _canon_meta(ex.get('fmeta_back') or {})
    if got != want:
        diff = sorted(set(want) ^ set(got))[:3]
        return f'file-level metadata changed by the {d["op"]} round trip: entries only on one side {_short(diff)}'
    if d['op'] in ('file', 'file2'):
        if ex['data_back'].shape != ex['data'].shape or not np.array_equal(ex['data_back'], ex['data']):
            return 'data matrix changed by the file round trip'
        shape = list(ex['data'].shape)
        dim = ex['nifti_dim']
        if dim[0] != 4 + len(shape) or dim[1:5] != [1, 1, 1, 1] or dim[5:5 + len(shape)] != shape:
            return f'NIfTI-2 dim {dim} does not carry the matrix shape {shape} in dims 5-7'
        if ex['ecodes'].count(32) != 1:
            return f'{ex["ecodes"].count(32)} extensions with code 32 in the saved file (want exactly 1)'
    return None


def _meta_diff(want, got):
    w, g = _canon_meta(want), _canon_meta(got)
    return 'entries lost %s, entries that appeared %s' % (_short(sorted(set(w) - set(g))[:3]),
                                                          _short(sorted(set(g) - set(w))[:3]))


def _short(x):
    r = repr(x)
    return r if len(r) < 200 else r[:200] + '...'


def _first_diff(a, b):
    """short human-readable pointer to the first differing item of two axis descriptions"""
    da, db = describe(a, False), describe(b, False)
    for x, y in zip(da, db):
        if x != y:
            if isinstance(x, tuple) and isinstance(y, tuple):
                for u, v in zip(x, y):
                    if u != v:
                        return ': %s -> %s' % (repr(u)[:160], repr(v)[:160])
            return ': %s -> %s' % (repr(x)[:160], repr(y)[:160])
    return ''


def signature(case, what):
    d = case.data
    op = d.get('op')
    if op == 'eq':
        return 'eq:' + str((d['b'].get('p') or d['a'].get('p') or ['copy'])[0])
    if op == 'hdr':
        return 'hdr'
    if op in ('xml', 'file', 'file2'):
        names = []

        def collect(sp):
            if sp['t'] == 'raw' and 'name' in sp['d']:
                names.extend(NAME(i) for i in sp['d']['name'])
            elif sp['t'] == 'parcels':
                names.extend(NAME(nm) for nm, _ in sp['parcels'])
            elif sp['t'] == 'label':
                names.extend(NAME(i) for i in sp['name'])
            elif sp['t'] in ('perturb', 'hist'):
                collect(sp['base'])
        empty_tables = []

        def tables(sp):
            if sp['t'] == 'label':
                empty_tables.extend(tb for tb in sp['tables'] if not tb)
            elif sp['t'] in ('perturb', 'hist'):
                tables(sp['base'])
        metas = []

        def collect_meta(sp):
            if sp['t'] == 'raw' and 'meta' in sp['d']:
                metas.extend(sp['d']['meta'])
            elif sp['t'] == 'label':
                metas.extend(sp['meta'])
            elif sp['t'] in ('perturb', 'hist'):
                collect_meta(sp['base'])
        for sp in d['axes']:
            collect(sp)
            tables(sp)
            collect_meta(sp)
        if d.get('fmeta') is not None:
            metas.append(d['fmeta'])
        if ('description changed' in what or '!= axes[i]' in what or 'file-level metadata changed' in what) and \
                any(i in XML_UNSAFE_METAS for i in metas) and _only_meta_stripped(case):
            return 'roundtrip:meta-whitespace'
        if 'file-level metadata changed' in what:
            return 'roundtrip:file-metadata'
        if 'round trip raised: ERR:AttributeError' in what and empty_tables:
            return 'roundtrip:label-table-empty'
        if 'description changed' in what or '!= axes[i]' in what:
            if any(n == '' for n in names):
                return 'roundtrip:name-empty'
            if any(n != n.strip() for n in names):
                return 'roundtrip:name-whitespace'
        return 'roundtrip:' + op
    kind = d.get('kind')
    if op == 'fmx' or (op == 'xrt' and kind == 'scm'):
        # the open finding only if str.strip() on keys and values explains EVERYTHING that changed
        ex = getattr(case, 'extra', None) or {}
        dicts = [d['meta']] if op == 'fmx' else d['metas']
        padded = any(t[1] or t[2] for m in dicts for e in m for t in e)
        if padded and 'res' in ex and 'metadata' in what and 'changed by the XML round trip' in what:
            want = [{k_.strip(): v.strip() for k_, v in MDICT(m).items()} for m in dicts]
            got = [ex['res']] if op == 'fmx' else [dict(m) for m in ex['res'].meta]
            if len(got) == len(want) and all(_canon_meta(a) == _canon_meta(b) for a, b in zip(want, got)):
                return 'roundtrip:meta-whitespace'
        return 'fm:xrt' if op == 'fmx' else 'scm:xrt'
    if op == 'idx':
        if kind == 'bm' and 'raised ERR:ValueError' in what and 'selects 0 element' in what:
            return 'bm:empty-selection'
        ix = d['idx']
        sub = ix['t']
        if ix['t'] == 's':
            st = ix['v'][2]
            sub = 's' + ('0' if st == 0 else '-' if (st or 1) < 0 else '+') + ('' if st in (None, 1, -1) else 'k')
        return f'{kind}:idx:{sub}'
    return f'{kind}:{op}'


def _only_meta_stripped(case):
    """True iff everything that the round trip changed is explained by str.strip() applied to metadata keys and
    values (the open finding roundtrip:meta-whitespace): names, label tables, parcels, brain models, series, the
    NUMBER of metadata entries and every entry without outer whitespace are unchanged"""
    ex = getattr(case, 'extra', None) or {}
    if 'back' not in ex:
        return False

    def strip_meta(m):
        return _canon_meta({k.strip(): v.strip() for k, v in dict(m).items()}) if all(
            isinstance(x, str) for kv in dict(m).items() for x in kv) else None

    def stripped(axis):
        k = axis_kind(axis)
        des = list(describe(axis, False))
        if k in ('sc', 'la'):
            for i in range(len(axis)):
                e = list(des[2 + i])
                raw = dict(axis.meta[i])
                sm = strip_meta(raw)
                if sm is None or len(sm) != len(raw):
                    return None
                e[-1] = sm
                des[2 + i] = tuple(e)
        return tuple(des)
    for a, b in zip(ex['axes'], ex['back']):
        if type(a) is not type(b) or stripped(a) is None or stripped(a) != describe(b, False):
            return False
    fm = {} if case.data.get('fmeta') is None else META(case.data['fmeta'])
    return strip_meta(fm) == _canon_meta(ex.get('fmeta_back') or {})


def shrink_candidates(case):
    d = case.data
    op = d.get('op')
    if op == 'fmx':
        for j in range(len(d['meta'])):
            yield mk_case(dict(d, meta=d['meta'][:j] + d['meta'][j + 1:]), case.stream)
        return
    if op == 'xrt' and d.get('kind') == 'scm':
        n = len(d['name'])
        for j in range(n - 1, -1, -1):
            if n > 1:
                yield mk_case(dict(d, name=d['name'][:j] + d['name'][j + 1:], metas=d['metas'][:j] + d['metas'][j + 1:]),
                              case.stream)
        for j in range(n):
            for i in range(len(d['metas'][j])):
                m2 = d['metas'][j][:i] + d['metas'][j][i + 1:]
                yield mk_case(dict(d, metas=d['metas'][:j] + [m2] + d['metas'][j + 1:]), case.stream)
        return
    if op in ('eq', 'map', 'xrt'):
        return
    if op == 'hdr':
        for i in range(len(d['axes'])):
            yield mk_case(dict(d, axes=d['axes'][:i] + d['axes'][i + 1:]), case.stream)
        return
    if op in ('xml', 'file', 'file2'):
        if len(d['axes']) > 1 and op == 'xml':
            for i in range(len(d['axes'])):
                d2 = dict(d, axes=d['axes'][:i] + d['axes'][i + 1:])
                yield mk_case(d2, case.stream)
        return
    kind = d['kind']
    if kind == 'ser':
        if d['size'] > 0:
            yield mk_case(dict(d, size=d['size'] - 1), case.stream)
        for k in ('start',):
            if d[k] != 0:
                yield mk_case(dict(d, **{k: 0}), case.stream)
        if d['step'] not in (1,):
            yield mk_case(dict(d, step=1), case.stream)
        return
    cols = {'sc': ['name', 'meta'], 'la': ['name', 'label', 'meta'], 'pa': ['name', 'voxels', 'vertices'],
            'bm': ['els']}[kind]
    n = len(d[cols[0]])
    if op == 'idx' and d['idx']['t'] in 'sia' or op in ('runs', 'rt', 'add'):
        for j in range(n - 1, -1, -1):
            d2 = dict(d)
            for c in cols:
                d2[c] = d[c][:j] + d[c][j + 1:]
            if op == 'idx' and d['idx']['t'] == 'a':
                d2['idx'] = dict(d['idx'], v=[x for x in d['idx']['v'] if -(n - 1) <= x < n - 1])
            yield mk_case(d2, case.stream)


# ------------------------------------------------------------------ generators

def bounds(n, pad=3):
    return [None] + list(range(-n - pad, n + pad + 1))


STEPS = [None, 1, 2, 3, -1, -2, -3, 5, -4]


def rand_index(rng, n):
    r = rng.random()
    if r < 0.2:
        return {'t': 'i', 'v': rng.randrange(-n - 3, n + 3)}
    if r < 0.62:
        st = rng.choice(STEPS) if rng.random() < 0.97 else 0
        return {'t': 's', 'v': [rng.choice(bounds(n)), rng.choice(bounds(n)), st]}
    if r < 0.82:
        k = rng.choice([0, 1, 2, 3, n, n + 2])
        lo, hi = (-n, n - 1) if (n > 0 and rng.random() < 0.85) else (-n - 2, n + 1)
        return {'t': 'a', 'v': [rng.randint(lo, hi) for _ in range(k)], 'list': rng.random() < 0.4}
    ln = n if rng.random() < 0.85 else max(0, n + rng.choice([-1, 1, 2]))
    p = rng.choice([0.0, 0.3, 0.5, 0.8, 1.0])
    return {'t': 'm', 'v': [1 if rng.random() < p else 0 for _ in range(ln)], 'list': rng.random() < 0.4}


def rand_series(rng, floats=False):
    if floats:
        return {'kind': 'ser', 'start': rng.choice([0.0, 0.1, -2.5, 1e3, 0.72]),
                'step': rng.choice([0.72, 1.0, -0.3, 2.5e-3, 100.0]), 'size': rng.randrange(0, 12),
                'unit': rng.randrange(4)}
    return {'kind': 'ser', 'start': rng.randint(-20, 20), 'step': rng.choice([1, 1, 2, 3, -1, -2, 7, 0, 100]),
            'size': rng.choice([0, 1, 2, 3, 4, 5, 5, 6, 7, 8, 11]), 'unit': rng.randrange(4)}


def rand_ids(rng, n, pool):
    return [rng.choice(pool) for _ in range(n)]


def rand_metas(rng, n, xml_safe=False):
    """per-element metadata ids: no metadata anywhere / the small original dicts / the rich table (empty values,
    XML-special text, keys equal up to case, ...; see META_VALS_SAFE), every element its OWN dict; sometimes all
    elements the same dict or dicts that differ in one entry only"""
    pool = XML_SAFE_METAS if xml_safe else ALL_METAS
    r = rng.random()
    if r < 0.12:
        return [0] * n
    if r < 0.3:
        return rand_ids(rng, n, list(range(NID)))
    if r < 0.4:
        return [rng.choice(pool)] * n
    if r < 0.5:
        return rand_ids(rng, n, META_EMPTYISH)
    return rand_ids(rng, n, pool)


def rand_txt(rng, pads, value=False):
    c = rng.randrange(len(TXT_CORE))
    if value and rng.random() < 0.3:
        c = 0                                     # the EMPTY value
    l = r = 0
    if pads and rng.random() < 0.4:
        l, r = rng.choice([(1, 0), (0, 1), (2, 2), (3, 0), (0, 4), (5, 1)])
    if c == 0:
        r = 0                                     # normal form of whitespace-only text
    return [c, l, r]


def rand_mdict(rng, pads=False):
    """explicit metadata dict as [[key, value], ...] of texts [core, padL, padR]; distinct keys (as TEXTS); with
    `pads`, keys may collide once stripped ('k' and ' k')"""
    n = rng.choice([0, 1, 1, 2, 2, 3, 5])
    out, seen = [], set()
    for _ in range(n):
        k_ = rand_txt(rng, pads)
        if pads and out and rng.random() < 0.2:
            k_ = [rng.choice(out)[0][0]] + rng.choice([[1, 0], [0, 2], [0, 0]])
            if k_[0] == 0:
                k_[2] = 0
        if TEXT(k_) in seen:
            continue
        seen.add(TEXT(k_))
        out.append([k_, rand_txt(rng, pads, value=True)])
    return out


def rand_fmeta(rng):
    """file-level metadata id (None = the header carries no MetaData element)"""
    r = rng.random()
    if r < 0.4:
        return None
    if r < 0.6:
        return rng.choice(META_EMPTYISH)
    return rng.choice(XML_SAFE_METAS)


def rand_listaxis(rng, kind, n=None, names=None):
    """`names` given = the axis is meant for an XML round trip: names AND metadata are drawn from the XML-safe pools"""
    if n is None:
        n = rng.choice([0, 1, 2, 3, 4, 5, 6, 8])
    ids = list(range(NID))
    xml_safe = names is not None
    names = names or ids
    if kind == 'sc':
        return {'kind': 'sc', 'name': rand_ids(rng, n, names), 'meta': rand_metas(rng, n, xml_safe)}
    if kind == 'la':
        return {'kind': 'la', 'name': rand_ids(rng, n, names), 'label': rand_ids(rng, n, ids),
                'meta': rand_metas(rng, n, xml_safe)}
    if kind == 'pa':
        has_vol = rng.random() < 0.7
        nv = [[0, rng.choice([7, 9])], [1, 5]]
        rng.shuffle(nv)
        nv = nv[:rng.choice([0, 1, 2, 2])]
        return {'kind': 'pa', 'name': rand_ids(rng, n, ids), 'voxels': rand_ids(rng, n, VOX_IDS),
                'vertices': rand_ids(rng, n, VERT_IDS), 'aff': rng.randrange(3) if has_vol else None,
                'shp': rng.choice([[3, 4, 5], [4, 4, 5]]) if has_vol else None, 'nv': nv}
    raise ValueError(kind)


def rand_bm(rng, n=None, valid=True, garbage=True):
    """brain model with interleaved structures; structure s is a surface iff it gets an nvertices entry"""
    nstruct = rng.choice([1, 2, 2, 3, 4])
    structs = rng.sample(range(len(STRUCTS)), nstruct)
    surf = {s: (rng.random() < 0.5) for s in structs}
    nvert = {s: rng.choice([4, 6, 9]) for s in structs}
    if n is None:
        n = rng.choice([1, 1, 2, 3, 4, 5, 6, 8, 10])
    shape = rng.choice([[2, 3, 4], [3, 3, 3]])
    els = []
    cur = rng.choice(structs)
    for _ in range(n):
        if rng.random() < 0.4:
            cur = rng.choice(structs)
        if surf[cur]:
            els.append([cur, [-1, -1, -1], rng.randrange(nvert[cur])])
        else:
            els.append([cur, [rng.randrange(shape[0]), rng.randrange(shape[1]), rng.randrange(shape[2])], -1])
    nv = [[s, nvert[s]] for s in structs if surf[s]]
    if rng.random() < 0.3:       # an unused key: pruned by the constructor
        extra = [s for s in range(len(STRUCTS)) if s not in structs]
        if extra:
            nv.append([rng.choice(extra), 11])
    rng.shuffle(nv)
    any_vol = any(not surf[e[0]] for e in els)
    with_vol = any_vol or rng.random() < 0.3      # an all-surface axis drops affine/shape in the constructor
    d = {'kind': 'bm', 'els': els, 'nv': nv, 'aff': rng.randrange(3) if with_vol else None,
         'shp': shape if with_vol else None}
    if not valid and els:
        r = rng.random()
        e = rng.choice(els)
        if r < 0.3:
            e[2] = -1 if surf[e[0]] else e[2]
            e[1] = e[1] if surf[e[0]] else [-1, 0, 0]
        elif r < 0.5:
            d['aff'] = None
        elif r < 0.65:
            d['shp'] = None
        elif r < 0.85:   # irrelevant columns carry values (must not leak into descriptions)
            if not garbage:
                pass
            elif surf[e[0]]:
                e[1] = [1, 1, 1]
            else:
                e[2] = 2
        else:
            d['els'] = []
    return d


def rand_axis(rng, kind, garbage=True):
    if kind == 'ser':
        return rand_series(rng)
    if kind == 'bm':
        return rand_bm(rng, valid=rng.random() < 0.9, garbage=garbage)
    return rand_listaxis(rng, kind)


def axis_len(d):
    if d['kind'] == 'ser':
        return d['size']
    return len(d['els']) if d['kind'] == 'bm' else len(d['name'])


def rand_rich_bm(rng):
    shape = rng.choice([[2, 3, 4], [3, 3, 3]])
    nstruct = rng.choice([1, 2, 3, 4])
    structs = rng.sample(range(len(STRUCTS)), nstruct)
    parts = []
    surf = {s: rng.random() < 0.5 for s in structs}
    nvert = {s: rng.choice([4, 6, 9, 9, 32492]) for s in structs}
    for _ in range(rng.choice([1, 2, 3, 4])):
        s = rng.choice(structs)
        if surf[s]:
            k = rng.randrange(1, min(nvert[s], 9) + 1)      # few vertices even on a 32492-vertex surface
            parts.append({'surf': True, 's': s, 'nvertex': nvert[s], 'vertices': sorted(rng.sample(range(nvert[s]), k))})
        else:
            allv = [[i, j, k] for i in range(shape[0]) for j in range(shape[1]) for k in range(shape[2])]
            parts.append({'surf': False, 's': s, 'voxels': rng.sample(allv, rng.randrange(1, 6))})
    spec = {'t': 'bm', 'parts': parts, 'shape': shape,
            'aff': rng.randrange(3) if rng.random() < 0.6 else rng.choice(RICH_AFFINES), 'perm': None}
    return spec


def rand_colour(rng):
    """one RGBA component in [0, 1] as [type, hex]: hand-typed, 8-bit palette n/255, random 53-bit floats, float32
    values, tiny / denormal / just-below-1 values, -0.0, ints"""
    r = rng.random()
    if r < 0.2:
        return ['f', rng.choice([0.0, 1.0, 0.5, 0.25, 0.2, 0.43, 0.125]).hex()]
    if r < 0.5:
        return ['f', (rng.randrange(256) / 255).hex()]
    if r < 0.7:
        return ['f', rng.random().hex()]
    if r < 0.78:
        return ['f32', float(np.float32(rng.random())).hex()]
    if r < 0.84:
        return ['f64', rng.choice([rng.random(), rng.randrange(256) / 255]).hex()]
    if r < 0.9:
        return ['f', rng.choice([5e-324, 1e-7 * rng.random(), 2.0 ** -rng.randrange(1, 60), 1 - 2.0 ** -53,
                                 1 / 3, 2 / 3, 0.1 + 0.2, 1e-5, 0.30000000000000004, -0.0]).hex()]
    return ['i', float(rng.choice([0, 1])).hex()]


def rand_table(rng, nonempty=True):
    n = rng.choice([1, 1, 2, 3, 4, 6]) if nonempty else rng.choice([0, 1, 2])
    keys = rng.sample([0, 0, 1, 2, 3, 4, 5, 7, 12, 100, 255, 1000, -1, -7, 2 ** 31, 2 ** 40], min(n, 8))
    keys = list(dict.fromkeys(keys))
    if rng.random() < 0.5:
        keys.sort()
    return [[k, rng.randrange(2 * len(LABNAMES)), [rand_colour(rng) for _ in range(4)]] for k in keys]


def rand_rich_label(rng, n=None):
    n = n or rng.randrange(1, 5)
    tables = [rand_table(rng) for _ in range(n)]
    if n > 1 and rng.random() < 0.3:
        tables[-1] = tables[0]
    return {'t': 'label', 'name': rand_ids(rng, n, XML_SAFE_NAMES), 'tables': tables,
            'meta': rand_metas(rng, n, True)}


def rand_series_value(rng):
    r = rng.random()
    if r < 0.3:
        return rng.choice([0.0, 0.5, -3.25, 10, 0.72, 1, 2.5, -0.125])
    if r < 0.5:
        return rng.randint(-1000, 1000)
    if r < 0.8:
        return rng.choice([1, -1]) * rng.random() * 10.0 ** rng.randint(-8, 8)
    return rng.choice([1 / 3, 0.1 + 0.2, 1e-7 / 3, 123456.789012345, 2 ** 53 + 2.0, 1e22, 5e-324, 0.7200000000000001])


def rand_hist(rng, base=None):
    """an axis with a history (see build_rich_axis 'hist'): 1-3 index / concatenation steps on a rich axis"""
    if base is None:
        r = rng.random()
        if r < 0.45:
            bm = rand_rich_bm(rng)
            n = rich_len(bm)
            base = {'t': 'parcels', 'bm': bm,
                    'parcels': [[rng.choice(XML_SAFE_NAMES), [rng.randrange(n) for _ in range(rng.randrange(1, 4))]]
                                for _ in range(rng.randrange(2, 7))]}
        elif r < 0.7:
            base = rand_rich_bm(rng)
        elif r < 0.8:
            base = rand_rich_label(rng, rng.randrange(2, 6))
        elif r < 0.9:
            base = {'t': 'raw', 'd': rand_listaxis(rng, 'sc', rng.randrange(2, 6), XML_SAFE_NAMES)}
        else:
            base = {'t': 'series', 'start': rand_series_value(rng), 'step': rand_series_value(rng) or 1,
                    'size': rng.randrange(2, 8), 'unit': rng.randrange(4)}
    n = rich_len(base)
    steps = []
    for _ in range(rng.choice([1, 1, 2, 3])):
        r = rng.random()
        if r < 0.6 or base['t'] == 'series' and r < 0.8:
            ix = rand_index(rng, n)
            if base['t'] == 'series' or rng.random() < 0.3:
                ix = {'t': 's', 'v': [rng.choice(bounds(n)), rng.choice(bounds(n)), rng.choice(STEPS)]}
            steps.append({'idx': ix})
        else:
            # concatenate with a piece of the same axis (compatible by construction): full[:k] + full[j:] ...
            piece = {'t': 'hist', 'base': base, 'steps': [{'idx': rand_index(rng, n)}]}
            steps.append({rng.choice(['add', 'add', 'radd']): piece})
    return {'t': 'hist', 'base': base, 'steps': steps}


def rich_len(spec):
    if spec['t'] == 'raw':
        return axis_len(spec['d'])
    if spec['t'] == 'series':
        return spec['size']
    if spec['t'] == 'bm':
        n = sum(len(p['vertices']) if p['surf'] else len(p['voxels']) for p in spec['parts'])
        return n if spec.get('perm') is None else len(spec['perm'])
    if spec['t'] == 'label':
        return len(spec['name'])
    if spec['t'] in ('hist', 'perturb'):
        return rich_len(spec['base'])         # an estimate only (used to draw plausible indices)
    return len(spec['parcels'])


def rand_rich_axis(rng):
    r = rng.random()
    if r < 0.3:
        spec = rand_rich_bm(rng)
        n = rich_len(spec)
        if rng.random() < 0.5:     # shuffled / repeated rows: interleaved structures
            spec['perm'] = [rng.randrange(n) for _ in range(rng.randrange(1, n + 3))]
        return spec
    if r < 0.45:
        bm = rand_rich_bm(rng)
        n = rich_len(bm)
        parcels = [[rng.choice(XML_SAFE_NAMES), [rng.randrange(n) for _ in range(rng.randrange(1, 5))]]
                   for _ in range(rng.randrange(1, 5))]
        return {'t': 'parcels', 'bm': bm, 'parcels': parcels}
    if r < 0.6:
        q = rng.random()
        if q < 0.35:
            return {'t': 'series', 'start': rng.choice([0.0, 0.5, -3.25, 10]), 'step': rng.choice([0.72, 1, 2.5, -0.125]),
                    'size': rng.randrange(1, 7), 'unit': rng.randrange(4)}
        if q < 0.65:
            # start/step that need all 17 significant digits, exponents, large and tiny magnitudes
            return {'t': 'series', 'start': rand_series_value(rng), 'step': rand_series_value(rng),
                    'size': rng.randrange(1, 7), 'unit': rng.randrange(4)}
        return {'t': 'series', 'start': rng.randint(-5, 5), 'step': rng.randint(1, 4), 'size': rng.randrange(1, 7),
                'unit': rng.randrange(4)}
    if r < 0.72:
        return {'t': 'raw', 'd': rand_listaxis(rng, 'sc', rng.randrange(1, 6), XML_SAFE_NAMES)}
    if r < 0.78:
        return {'t': 'raw', 'd': rand_listaxis(rng, 'la', rng.randrange(1, 6), XML_SAFE_NAMES)}
    if r < 0.9:
        return rand_rich_label(rng)
    d = rand_bm(rng, n=rng.randrange(1, 9), valid=True)
    return {'t': 'raw', 'd': d}


def rand_near_pair(rng, kind=None):
    """(base, near-duplicate) specs of one axis kind: equal, or exactly one field perturbed"""
    kind = kind or rng.choice(['ser', 'sc', 'la', 'pa', 'pa', 'bm'])
    if kind == 'ser':
        base = {'t': 'series', 'start': rng.choice([0, 0.5, -3.25, 10]), 'step': rng.choice([0.72, 1, 2.5]),
                'size': rng.randrange(1, 6), 'unit': rng.randrange(4)}
        if rng.random() < 0.3:
            base.update(start=rand_series_value(rng), step=rand_series_value(rng))
    elif kind == 'la' and rng.random() < 0.6:
        base = rand_rich_label(rng)
    elif kind in ('sc', 'la'):
        base = {'t': 'raw', 'd': rand_listaxis(rng, kind, rng.randrange(1, 5), XML_SAFE_NAMES)}
    elif kind == 'pa':
        bm = rand_rich_bm(rng)
        n = rich_len(bm)
        base = {'t': 'parcels', 'bm': bm,
                'parcels': [[rng.choice(XML_SAFE_NAMES), [rng.randrange(n) for _ in range(rng.randrange(1, 4))]]
                            for _ in range(rng.randrange(1, 4))]}
    else:
        base = rand_rich_bm(rng) if rng.random() < 0.5 else {'t': 'raw', 'd': rand_bm(rng, n=rng.randrange(1, 7))}
    p = [rng.choice(PERTURBATIONS[kind]), rng.randrange(8), rng.randrange(6)]
    return base, {'t': 'perturb', 'base': base, 'p': p}


def cases(rng, tier):
    out = []
    N = {'quick': 4, 'thorough': 40, 'search': 6}[tier]
    # ---- series: exhaustive small slices (the repaired arithmetic), every tier
    nmax = 5 if tier != 'thorough' else 7
    for n in range(0, nmax + 1):
        for a in bounds(n, 2):
            for b in bounds(n, 2):
                for c in [None, 1, 2, 3, -1, -2, -3]:
                    d = {'kind': 'ser', 'start': 3, 'step': 2 if (n + (a or 0)) % 2 else -5, 'size': n, 'unit': n % 4,
                         'op': 'idx', 'idx': {'t': 's', 'v': [a, b, c]}}
                    out.append(mk_case(d, 'series-slices'))
                    out.append(mk_case(dict(d, gen=True), 'series-gen'))
        for i in range(-n - 2, n + 2):
            d = {'kind': 'ser', 'start': -4, 'step': 3, 'size': n, 'unit': 0, 'op': 'idx', 'idx': {'t': 'i', 'v': i}}
            out.append(mk_case(d, 'series-int'))
            out.append(mk_case(dict(d, gen=True), 'series-gen'))
    # ---- series random
    for _ in range(600 * N):
        d = rand_series(rng)
        d.update(op='idx', idx=rand_index(rng, d['size']))
        out.append(mk_case(d, 'series'))
        out.append(mk_case(dict(d, gen=True), 'series-gen'))
    for _ in range(150 * N):
        d = rand_series(rng)
        o = rand_series(rng)
        if rng.random() < 0.7:
            o['step'] = d['step']
        if rng.random() < 0.7:
            o['unit'] = d['unit']
        if rng.random() < 0.5:
            o['start'] = d['start'] + d['step'] * d['size']
        d.update(op='add', other=o)
        out.append(mk_case(d, 'series-add'))
        out.append(mk_case(dict(d, gen=True), 'series-gen'))
    for _ in range(300 * N):
        d = rand_series(rng, floats=True)
        d.update(op='idx', idx=rand_index(rng, d['size']))
        out.append(mk_case(d, 'series-float'))
    # ---- list-backed axes: indexing
    for kind in ('sc', 'la', 'pa', 'bm'):
        for _ in range(700 * N):
            d = rand_axis(rng, kind)
            d.update(op='idx', idx=rand_index(rng, axis_len(d)))
            out.append(mk_case(d, kind))
        for _ in range(200 * N):
            # operands as masks/surfaces produce them: the unused voxel/vertex column holds -1
            d = rand_axis(rng, kind, garbage=False)
            o = rand_axis(rng, kind, garbage=False)
            if kind in ('pa', 'bm') and rng.random() < 0.7:
                # make them mostly compatible
                if o['aff'] is not None and d['aff'] is not None:
                    o['aff'], o['shp'] = d['aff'], d['shp']
                dn = dict(map(tuple, d['nv']))
                o['nv'] = [[k, dn.get(k, v)] for k, v in o['nv']]
                if kind == 'bm':
                    # same structure must have the same nature in both
                    on = dict(map(tuple, o['nv']))
                    used_d = {e[0] for e in d['els']}
                    ok = all(((e[0] in on) == (e[0] in dn)) or e[0] not in used_d for e in o['els']) and \
                        all(((e[0] in on) == (e[0] in dn)) or e[0] not in {x[0] for x in o['els']} for e in d['els'])
                    if not ok and rng.random() < 0.8:
                        continue
            d.update(op='add', other=o)
            out.append(mk_case(d, kind + '-add'))
    # ---- exhaustive slices on one axis of each list-backed kind
    for kind in ('sc', 'bm'):
        for n in ([3, 4] if tier != 'thorough' else [1, 2, 3, 4, 5]):
            base = rand_listaxis(rng, kind, n) if kind != 'bm' else rand_bm(rng, n=n)
            for a in bounds(n, 2):
                for b in bounds(n, 2):
                    for c in [None, 1, 2, -1, -2, 3, -3]:
                        d = dict(base, op='idx', idx={'t': 's', 'v': [a, b, c]})
                        out.append(mk_case(d, kind + '-slices'))
    # ---- parcels by name
    for _ in range(100 * N):
        d = rand_listaxis(rng, 'pa')
        d.update(op='name', nm=rng.randrange(NID))
        out.append(mk_case(d, 'pa-name'))
    # ---- brain-model runs and mapping round trip
    for _ in range(400 * N):
        d = rand_bm(rng, valid=rng.random() < 0.95)
        d.update(op=rng.choice(['runs', 'rt', 'rt']))
        out.append(mk_case(d, 'bm-' + d['op']))
    # ---- to_mapping / XML text / from_index_mapping of ONE axis, model-compared (phase-3 extension)
    for _ in range(100 * N):
        d = rand_series(rng)
        d.update(op='map')
        out.append(mk_case(d, 'ser-map'))
    for _ in range(100 * N):
        d = rand_listaxis(rng, 'sc', rng.randrange(1, 7), XML_SAFE_NAMES)
        d.update(op='xrt')
        out.append(mk_case(d, 'sc-xrt'))
    # ---- explicit per-map metadata dicts / file-level metadata through the XML text, model-compared (wave 3):
    #      empty values, the empty key, XML-special / long / non-ASCII texts; 15% with outer whitespace (open finding)
    for _ in range(250 * N):
        pads = rng.random() < 0.15
        n = rng.randrange(1, 6)
        d = {'kind': 'scm', 'name': rand_ids(rng, n, XML_SAFE_NAMES), 'metas': [rand_mdict(rng, pads) for _ in range(n)],
             'op': 'xrt'}
        if n > 1 and rng.random() < 0.2:
            d['metas'][-1] = d['metas'][0]
        out.append(mk_case(d, 'scm-xrt'))
    for _ in range(100 * N):
        out.append(mk_case({'op': 'fmx', 'meta': rand_mdict(rng, rng.random() < 0.15), 'stream': 'fm-xrt'}, 'fm-xrt'))
    for _ in range(250 * N):
        sp = rand_rich_label(rng, rng.randrange(1, 5))
        d = {'kind': 'lar', 'name': sp['name'], 'meta': sp['meta'], 'tables': sp['tables'], 'op': 'xrt'}
        out.append(mk_case(d, 'lar-xrt'))
    for _ in range(250 * N):
        d = rand_listaxis(rng, 'pa', rng.randrange(1, 7))
        d['name'] = rand_ids(rng, len(d['name']), XML_SAFE_NAMES)
        if rng.random() < 0.8:        # mostly readable: every structure used by a parcel has an nvertices entry
            have = {k_ for k_, _ in d['nv']}
            for s_ in sorted({_R_STRUCT[k_] for i in d['vertices'] for k_ in VERTDICT(i)} - have):
                d['nv'].append([s_, [7, 5][s_]])
        if rng.random() < 0.3:
            d['nv'].append([rng.choice([2, 3, 4]), 11])      # a surface no parcel uses
            rng.shuffle(d['nv'])
        d.update(op='xrt')
        out.append(mk_case(d, 'par-xrt'))
    # ---- to_header alone: which dimensions share a map (series and scalar axes, many repeats)
    for _ in range(250 * N):
        pool = []
        for _j in range(rng.choice([1, 2, 2, 3])):
            if rng.random() < 0.5:
                pool.append(['S', rng.randint(-3, 3), rng.choice([1, 2]), rng.randrange(1, 4), rng.randrange(2)])
            else:
                n = rng.randrange(1, 3)
                pool.append(['C', rand_ids(rng, n, XML_SAFE_NAMES[:3]),
                             rand_ids(rng, n, [0, 1] if rng.random() < 0.5 else META_EMPTYISH[:6])])
        out.append(mk_case({'op': 'hdr', 'axes': [rng.choice(pool) for _ in range(rng.randrange(1, 6))],
                            'stream': 'hdr'}, 'hdr'))
    # ---- XML / file round trips (oracle only)
    for _ in range({'quick': 1000, 'thorough': 12000, 'search': 1500}[tier]):
        k = rng.choice([1, 2, 2, 2, 3])
        axes = [rand_rich_axis(rng) for _ in range(k)]
        if k > 1 and rng.random() < 0.25:
            axes[1] = axes[0]          # equal axes share one MatrixIndicesMap
        if k > 2 and rng.random() < 0.25:
            axes[2] = axes[rng.randrange(2)]
        if rng.random() < 0.3:          # one axis is the result of earlier indexing / concatenation
            j = rng.randrange(k)
            axes[j] = rand_hist(rng, axes[j] if rng.random() < 0.3 else None)
        out.append(mk_case({'op': 'xml', 'axes': axes, 'fmeta': rand_fmeta(rng), 'stream': 'xml'}, 'xml'))
    for _ in range({'quick': 500, 'thorough': 6000, 'search': 800}[tier]):
        k = rng.choice([2, 2, 2, 3])
        axes = [rand_rich_axis(rng) for _ in range(k)]
        if rng.random() < 0.25:
            axes[1] = axes[0]
        if rng.random() < 0.3:
            j = rng.randrange(k)
            axes[j] = rand_hist(rng, axes[j] if rng.random() < 0.3 else None)
        out.append(mk_case({'op': 'file', 'axes': axes, 'fmeta': rand_fmeta(rng), 'dseed': rng.randrange(10 ** 6),
                            'stream': 'file'}, 'file'))
    # ---- near-duplicate axes in one header (to_header shares a map when `ax in axes[:dim]`), both orders
    for _ in range({'quick': 1200, 'thorough': 12000, 'search': 2000}[tier]):
        a, b = rand_near_pair(rng)
        axes = [a, b] if rng.random() < 0.5 else [b, a]
        r = rng.random()
        if r < 0.15:
            axes.append(rand_rich_axis(rng))
        elif r < 0.3:
            axes.insert(rng.randrange(3), rng.choice([a, b]))
        if rng.random() < 0.7:
            out.append(mk_case({'op': 'xml', 'axes': axes, 'fmeta': rand_fmeta(rng), 'stream': 'xml-near'}, 'xml-near'))
        else:
            out.append(mk_case({'op': 'file', 'axes': axes, 'fmeta': rand_fmeta(rng), 'dseed': rng.randrange(10 ** 6),
                                'stream': 'file-near'}, 'file-near'))
    # ---- __eq__ against description equality (symmetry), oracle only
    for _ in range({'quick': 1500, 'thorough': 15000, 'search': 2000}[tier]):
        a, b = rand_near_pair(rng)
        if rng.random() < 0.5:
            a, b = b, a
        out.append(mk_case({'op': 'eq', 'a': a, 'b': b, 'stream': 'eq'}, 'eq'))
    # ---- save B with the NIfTI header of an earlier loaded / saved image A
    for _ in range({'quick': 300, 'thorough': 4000, 'search': 500}[tier]):
        axes_a = [rand_rich_axis(rng) for _ in range(rng.choice([2, 2, 3]))]
        axes = [rand_rich_axis(rng) for _ in range(rng.choice([2, 2, 3]))]
        if rng.random() < 0.3:
            a, b = rand_near_pair(rng)
            axes_a[0], axes[0] = a, b
        out.append(mk_case({'op': 'file2', 'axes_a': axes_a, 'axes': axes, 'mode': rng.choice(['loaded', 'saved']),
                            'fmeta': rand_fmeta(rng), 'fmeta_a': rand_fmeta(rng),
                            'saves': rng.choice([1, 1, 2]), 'resave': rng.random() < 0.3,
                            'dseed': rng.randrange(10 ** 6), 'stream': 'file2'}, 'file2'))
    return out
