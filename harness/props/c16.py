"""C16 — tractograms round-trip through TRK and TCK in RAS+ mm
(nibabel/streamlines/tck.py, trk.py, tractogram.py, orientations.py)."""
import ast
import gc
import io
import itertools
import os
import re
import struct
import tempfile
import warnings
from fractions import Fraction

import numpy as np

from common import LEAN, REPO, Case, errname, write_if_changed

PID = 'C16'
LEAN_TARGETS = ['NibabelModel.Props.C16']
THEOREMS = [
    'Nb.C16.tck_offset_fixpoint',
    'Nb.C16.tck_buffer_multiple',
    'Nb.C16.tck_chunk_independent',
    'Nb.C16.tck_ragged_refused',
    'Nb.C16.tck_roundtrip',
    'Nb.C16.tck_file_roundtrip',
    'Nb.C16.name_codec_roundtrip',
    'Nb.C16.trk_records_roundtrip',
    'Nb.C16.trk_name_table_roundtrip',
    'Nb.C16.trk_columns_roundtrip',
    'Nb.C16.trk_roundtrip',
    'Nb.C16.trackvis_affine_invertible',
    'Nb.C16.position_invariant',
    'Nb.C16.position_restored',
    'Nb.C16.position_orig_counterexample',
    'Nb.C16.lazy_items_agree',
    'Nb.C16.lazyItems_orig_counterexample',
    'Nb.C16.lazy_eq_eager_tck',
    'Nb.C16.lazy_eq_eager_trk',
    'Nb.C16.lazy_eq_eager_trk_load',
    'Nb.C16.trackvis_affine_invertible_exact',
    'Nb.C16.trk_hdr_size_unambiguous',
    'Nb.C16.trk_byteorder_roundtrip',
    'Nb.C16.trk_bad_hdr_size_refused',
    'Nb.C16.lazy_world_invariant',
    'Nb.C16.lazy_resave_roundtrip',
    'Nb.C16.lazy_compose_order_counterexample',
    'Nb.C16.finally_restores_iff',
    'Nb.C16.gen_refines_finally_semantics',
    'Nb.C16.position_restored_src',
    'Nb.C16.tck_file_roundtrip_parsed',
    'Nb.C16.tck_header_text_counterexample',
    'Nb.C16.saved_names_from_tractogram',
    'Nb.C16.trk_roundtrip_any_header',
    'Nb.C16.name_table_inplace_counterexample',
    'Nb.C16.view_history_items',
    'Nb.C16.save_view_roundtrip',
    'Nb.C16.tck_view_roundtrip',
    'Nb.C16.trk_view_roundtrip',
]
ASSUMPTIONS = [
    'hand-written Lean model of tck.py/trk.py/orientations.py (Model/C16.lean), tied to the code by the '
    'differential correspondence of this run (header offset, buffer size, data words written, items yielded per '
    'consumer action with the file position after every action, name codec, name-table slices, composed affine '
    'and its inverse as exact rationals, whole TRK save/load)',
    'float32 values are bit patterns; little-endian packing (ndarray.tobytes/frombuffer, struct.pack) is NumPy\'s and '
    'not modelled',
    'numpy.linalg.inv is modelled as the exact adjugate inverse; io_orientation (SVD) enters as a parameter '
    '(executable stand-in for signed-permutation x zoom matrices, compared on every `aff`/`trk` case)',
    'float32 rounding of general coordinates/affines is not modelled: the GENERAL stream is oracle-only '
    '(TRK equal to single precision, TCK exact)',
    'Python dicts are modelled as association lists in sorted key order; CPython generator semantics '
    '(GeneratorExit at the suspended yield on close / garbage collection) is the Gen state machine of the model',
    'TCK offset arithmetic, buffer rounding, delimiters, TRK header size and name-field limits are regenerated from '
    'the source into Generated/C16.lean on every run and tied to the model by generated `rfl`/`decide` obligations',
    'phase 3: the placement of `f.seek(start_position, os.SEEK_xxx)` relative to the yields of TckFile._read / TrkFile._read '
    '(only statement of the finally clause of a try enclosing every yield, directly after `start_position = f.tell()`) is '
    'read off the source AST into Gen.tckReadSeek / Gen.trkReadSeek; the CPython generator rules themselves (close() raises '
    'GeneratorExit at the suspended yield, finally runs on every exit) are the FGen semantics of Model/C16_Ext — trusted, '
    'exercised by the tckr/trkr consumer histories',
    'phase 3: TRK header at byte level: the integer fields the reader branches on (hdr_size, version, n_count, n_scalars, '
    'n_properties) and the two name tables are decoded in either byte order at offsets regenerated from header_2_dtype; the '
    'other fields are opaque byte blocks (their float decoding is NumPy\'s; the `vox_to_ras` validity check is not modelled); '
    'the host is little-endian; negative counts and trailing partial words are outside the modelled domain (driver: bad-op)',
    'phase 3: (Lazy)Tractogram affine bookkeeping (apply_affine / to_world, both classes) over exact rationals with '
    'np.linalg.inv = exact inverse; the lzaff stream keeps to signed-permutation x power-of-two affines, for which NumPy is exact',
    'phase 3: the TCK line-oriented header parser is modelled on ASCII bytes (str.strip/split white space incl. \\x1c-\\x1f, '
    'int() of plain digit strings only; the datatype checks and UTF-8 decoding are not modelled)',
    'wave 3: the header handed to TrkFile(...) enters the model as the counts and the two ten-slot name tables it carries '
    '(Model/C16_Save trkSaveItemsH); that `save` fills a fresh np.zeros(MAX, \'S20\') table and assigns the WHOLE field, and that the '
    'empty-tractogram branch zeroes the three counts, is read off the AST of TrkFile.save on every run (Gen.trkSaveHeader_eq_model); '
    'all other supplied fields (geometry) are the existing TrkGeom inputs',
    'wave 3: ArraySequence is (buffer, offsets, lengths); indexing by slice / list / integer array / boolean mask / range is '
    'resolved to positions by the harness with plain Python list semantics (NumPy index normalisation itself is not modelled); '
    '`copy()` is the gather loop of array_sequence.py (hand-written, tied by the `view` stream); Tractogram.__getitem__ / copy / '
    '__add__ / extend / apply_affine in place and the LazyTractogram constructors are exercised as HOW the saved tractogram was '
    'built (oracle + correspondence of the file written), not modelled',
    'wave 3: aliasing of yielded arrays with reader buffers is not modelled (values in the model are immutable): every history of '
    'the tckr / trkr streams re-observes all kept items after the last action (LATE-DIFF token) and the public-API oracles consume '
    'lazy results under the patterns each / keep / items / kth / interleave',
]
RULE = ('streams: off (every header length 51..1200 + windows around each digit boundary of the offset up to 10^6); '
        'buf (requests 0..40 + random, via argument and via rebinding tck.MEGABYTE); tckw / tckf (whole file bytes) (0..n streamlines of 1..m '
        'quarter-unit points x header lengths incl. digit boundaries); tckr (data sections incl. malformed: missing '
        'EOF, -inf EOF, empty pieces, partial NaN points, ragged tails x buffer sizes 12..96 bytes x consumer '
        'histories of next/close x start positions); nameenc/namedec/slices; aff (48 voxel orders x power-of-two '
        'voxel sizes x dims x signed-permutation affines with dyadic translation); trk (tractograms with named '
        'scalars/properties of 1..3 columns through the whole save/load with the 48x48 orientation pairs, embedded '
        'after junk bytes); trkr (record streams incl. count mismatches and cuts x consumer histories); general '
        '(oracle only: arbitrary float coordinates/affines); phase 3: tckr sub-stream with data far larger than the '
        'buffer (5..16 short streamlines, buffers of 2..9 points: later buffers start mid-streamline and hold >= 2 '
        'delimiters); tckw/trk with a tractogram whose affine_to_rasmm is NOT the identity (stored points = inv(R)·RAS); '
        'trk re-saved from the lazily loaded tractogram under a DIFFERENT random TRK header; trkb (whole TRK files in both '
        'byte orders x versions 1/2/3/other x bad or cross-order hdr_size x count mismatches x cuts, as raw bytes); hdrp '
        '(TCK header texts with early END, earlier/repeated file entries, continuation lines, odd white space, missing END, '
        'wrong magic, as raw bytes); lzaff (histories of 0..3 apply_affine/to_world on eager and lazy tractograms with '
        'affine_to_rasmm = random / unknown, then re-saved as TRK under a random header and as TCK); bigtck (oracle only: '
        'TCK files of 1..2.5 x the 4 MB buffer through the public API by path and file object, delimiter at/next to the '
        'buffer boundary; lazy results collected before comparison). WAVE 3: every tckw / trk / trkh case says HOW the tractogram '
        'handed to save was BUILT (fresh / reversed / permuted by list or integer array / argsort / strided slice / boolean mask / '
        'reversed slice / view of a view / deepcopy / copy of a permuted view / a + b / a += b / from generators / LazyTractogram from '
        'generator functions / LazyTractogram.from_tractogram of a (permuted) tractogram / saved once and re-loaded lazily or eagerly / any of these followed by an exact '
        'apply_affine in place — logical content fixed, unequal lengths); tckw with the header of a previously LOADED TCK file '
        '(stale count and offset); view (model-compared: histories of 1..3 slice / list / ndarray / mask / range / negative / '
        'repeated-index steps and ArraySequence.copy / Tractogram.copy on 0..6 streamlines, then TckFile.save); tview (model-compared: '
        'the items `iter(t.to_world(lazy=True))` yields — what both save methods write — for a tractogram with 0..3 named per-point / '
        'per-streamline arrays after such a history); trkh (model-compared: '
        'TrkFile.save under a header that already carries counts and name tables — the header of a reference TRK file loaded eagerly '
        'or lazily with more / fewer / other / the same named arrays drawn from a common pool of 4 names, optionally with another '
        'geometry put over it, or a hand-made dict with shuffled tables, empty slots before names, names in far slots and stale '
        'counts — x tractograms of 0..4 streamlines x builds); consumer histories of tckr / trkr keep every yielded item and '
        're-observe it at the end; the public-API loads are consumed as each / keep (list first) / items / kth / interleave (paths) '
        'x buffers of 12..108 bytes. A case is non-trivial when it has at least one '
        'streamline / a non-default header; distinct by its full description.')

warnings.simplefilter('ignore')

ORDERS = [''.join(p) for perm in itertools.permutations(range(3))
          for p in itertools.product(*[('LR', 'PA', 'IS')[a] for a in perm])]
assert len(ORDERS) == 48


def _nib():
    import nibabel  # noqa: F401
    from nibabel.streamlines import tck, trk
    from nibabel.streamlines import Tractogram
    return tck, trk, Tractogram


# ------------------------------------------------------------------ encodings (protocol line)

def enc_triple(t):
    return '%d:%d:%d' % tuple(t)


def enc_sl(s):
    return ','.join(enc_triple(t) for t in s) if len(s) else 'e'


def enc_sls(l):
    return ';'.join(enc_sl(s) for s in l) if len(l) else '-'


def enc_name(n):
    return '_'.join(str(c) for c in n) if len(n) else 'e'


def enc_words(w):
    return '.'.join(str(int(x)) for x in w) if len(w) else 'z'


def enc_item(it):
    pts, dpp, dps = it
    a = '+'.join(enc_name(n) + '=' + '|'.join(enc_words(r) for r in rows) for n, rows in sorted(dpp)) if dpp else '-'
    b = '+'.join(enc_name(n) + '=' + enc_words(ws) for n, ws in sorted(dps)) if dps else '-'
    return enc_sl(pts) + '/' + a + '/' + b


def enc_items(items):
    return ';'.join(enc_item(i) for i in items) if items else '-'


def enc_frac(q):
    q = Fraction(q)
    return str(q.numerator) if q.denominator == 1 else '%d/%d' % (q.numerator, q.denominator)


def frac(s):
    return Fraction(s)


def bits_to_f32(bits):
    return np.array(bits, dtype='<u4').reshape(-1, 3).view('<f4') if len(bits) else np.zeros((0, 3), '<f4')


def f32_to_bits(arr):
    return [[int(x) for x in row] for row in np.ascontiguousarray(arr, dtype='<f4').view('<u4').reshape(-1, 3)]


def words_of(arr):
    return [int(x) for x in np.ascontiguousarray(arr, dtype='<f4').view('<u4').ravel()]


def canon_zero(w):
    return 0 if w == 0x80000000 else w


def qbits(v):
    """float32 bit pattern of v/4"""
    return int(np.array(v / 4.0, '<f4').view('<u4'))


# ------------------------------------------------------------------ case construction

def mk(op, line, data, key=None, stream=None):
    data = dict(data)
    data['op'] = op
    return Case(line, data, key, stream or op)


def mk_off(L):
    return mk('off', f'C16 off {L}', {'L': L}, ('off', L))


def mk_buf(req, via):
    return mk('buf', f'C16 buf {req}', {'req': req, 'via': via}, ('buf', req, via))


def mk_tckw(L, sls, ras=None, build=None, bseed=0, hsrc=None):
    """`ras`: affine_to_rasmm (aff12) of the tractogram handed to save — its stored points are inv(ras)·sls;
    `build`: HOW the tractogram handed to save was built (see `built`; its logical content is always `sls`);
    `hsrc`: 'loaded' = the header handed to save is the header of a previously LOADED TCK file (stale count / offset)"""
    return mk('tckw', f'C16 tckw {L} {enc_sls(sls)}', {'L': L, 'sls': sls, 'ras': ras, 'build': build, 'bseed': bseed, 'hsrc': hsrc},
              ('tckw', L, enc_sls(sls), tuple(ras or ()), build, hsrc) if sls else None)


# ---- views: a step is ['slice', a, b, c] / ['list', idxs] / ['nd', idxs] / ['mask', bools] / ['range', a, b, c] /
#      ['seqcopy'] (ArraySequence.copy) / ['deepcopy'] (Tractogram.copy)

def resolve_step(n, st):
    """positions (into a sequence of length n) a step selects — Python list semantics, independent of nibabel;
    None for steps that keep the sequence as it is"""
    k = st[0]
    if k == 'slice':
        return list(range(n))[slice(st[1], st[2], st[3])]
    if k == 'range':
        return list(range(st[1], st[2], st[3]))
    if k in ('list', 'nd'):
        return [i % n for i in st[1]] if n else []
    if k == 'mask':
        return [i for i, b in enumerate(st[1]) if b]
    return None


def py_index(st):
    k = st[0]
    if k == 'slice':
        return slice(st[1], st[2], st[3])
    if k == 'range':
        return range(st[1], st[2], st[3])
    if k == 'list':
        return list(st[1])
    if k == 'nd':
        return np.array(st[1], dtype=np.int64 if len(st) < 3 else st[2])
    if k == 'mask':
        return np.array(st[1], dtype=bool)
    raise ValueError(st)


def resolve_steps(n, steps):
    """(protocol tokens, final positions into the ORIGINAL sequence)"""
    toks, cur = [], list(range(n))
    for st in steps:
        idx = resolve_step(len(cur), st)
        if idx is None:
            if st[0] == 'seqcopy':
                toks.append('c')
            continue
        toks.append(enc_words(idx))
        cur = [cur[i] for i in idx]
    return (';'.join(toks) if toks else '-'), cur


def mk_view(L, sls, steps):
    toks, sel = resolve_steps(len(sls), steps)
    return mk('view', f'C16 view {L} {enc_sls(sls)} {toks}', {'L': L, 'sls': sls, 'steps': steps},
              ('view', L, enc_sls(sls), repr(steps)) if sel else None)


def expected_out(L, count):
    """the header text `out` of `_write_header` (everything before the `file` entry) for text length L"""
    base = b'mrtrix tracks\ncount: %010d\ndatatype: Float32LE' % count
    assert len(base) == 51
    return base if L == 51 else base + b'\np: ' + b'x' * (L - 55)


def mk_tckf(L, req, sls):
    out = expected_out(L, sum(1 for s in sls if len(s)))
    return mk('tckf', f'C16 tckf {enc_words(out)} {req} {enc_sls(sls)}', {'L': L, 'req': req, 'sls': sls},
              ('tckf', L, req, enc_sls(sls)))


def mk_tckr(off, req, ragged, start, acts, data):
    return mk('tckr', f'C16 tckr {off} {req} {ragged} {start} {acts} {enc_sl(data)}',
              {'off': off, 'req': req, 'ragged': ragged, 'start': start, 'acts': acts, 'data': data},
              ('tckr', req, ragged, start, acts, enc_sl(data)) if data else None)


def mk_nameenc(k, name):
    return mk('nameenc', f'C16 nameenc {k} {enc_name(name)}', {'k': k, 'name': name}, ('ne', k, tuple(name)))


def mk_namedec(enc):
    return mk('namedec', f'C16 namedec {enc_words(enc)}', {'enc': enc}, ('nd', tuple(enc)))


def mk_slices(nb, fields):
    return mk('slices', 'C16 slices %d %s' % (nb, ','.join(enc_name(f) for f in fields) or '-'),
              {'nb': nb, 'fields': fields}, ('sl', nb, tuple(map(tuple, fields))))


def geom_tokens(g):
    return '%s %s %s %s' % (g['order'], ','.join(g['vs']), ','.join(str(d) for d in g['dims']), ','.join(g['aff']))


def mk_aff(g):
    return mk('aff', 'C16 aff ' + geom_tokens(g), {'g': g}, ('aff', geom_tokens(g)))


def mk_tview(items, steps, ins_seed):
    """what `save` iterates over for a fresh tractogram (with named data) after a history of indexing steps"""
    steps = [st for st in steps if st[0] != 'seqcopy']
    toks, sel = resolve_steps(len(items), steps)
    return mk('tview', 'C16 tview %s %s' % (enc_items(items), toks), {'items': items, 'steps': steps, 'ins': ins_seed},
              ('tview', enc_items(items), repr(steps)) if sel else None)


def mk_trk(g, items, junk, ins_seed, ras=None, build=None):
    return mk('trk', 'C16 trk %s %s' % (geom_tokens(g), enc_items(items)),
              {'g': g, 'items': items, 'junk': junk, 'ins': ins_seed, 'ras': ras, 'build': build},
              ('trk', geom_tokens(g), enc_items(items), tuple(ras or ()), build) if items else None)


def schema_fields(cols):
    """the S20 name-table slots for (name, k) pairs — own encoder: sorted by name, `name` or `name NUL str(k)`"""
    return [list(n) + ([0] + [ord(c) for c in str(k)] if k > 1 else []) for n, k in sorted((tuple(n), k) for n, k in cols)]


def items_schema(items):
    if not items:
        return [], []
    return ([(n, len(rows[0])) for n, rows in items[0][1]], [(n, len(ws)) for n, ws in items[0][2]])


def mk_trkh(g, items, junk, ins_seed, sup, build=None):
    """TRK save under a SUPPLIED header that already carries counts and name tables.  sup = {'mode': 'loaded' |
    'loaded-lazy' | 'loaded+geom' | 'dict', 'itemsA': items of the file the header was loaded from (loaded modes),
    'gA': its geometry ('loaded+geom'), 'sf'/'pf': the ten-slot tables as lists of byte lists, 'ns'/'np'/'n': counts}"""
    line = 'C16 trkh %s %s %s %d %d %d %s' % (geom_tokens(g), ','.join(enc_name(f) for f in sup['sf']) or '-',
                                             ','.join(enc_name(f) for f in sup['pf']) or '-', sup['ns'], sup['np'], sup['n'],
                                             enc_items(items))
    return mk('trkh', line, {'g': g, 'items': items, 'junk': junk, 'ins': ins_seed, 'sup': sup, 'build': build, 'ras': None},
              ('trkh', line, sup['mode'], build))


def mk_trkr(ns, np_, announced, junk, start, acts, words):
    return mk('trkr', f'C16 trkr {ns} {np_} {announced} {junk} {start} {acts} {enc_words(words)}',
              {'ns': ns, 'np': np_, 'announced': announced, 'junk': junk, 'start': start, 'acts': acts,
               'words': words}, ('trkr', ns, np_, announced, start, acts, enc_words(words)) if words else None)


def hexs(b):
    return bytes(b).hex() if len(b) else '-'


def trkb_bytes(d):
    """a TRK file in byte order d['e'] ('<' / '>'): default header with the given counts / names /
    version / hdr_size (optionally stored in the OTHER byte order), then the record words in d['e']"""
    _, trk, _ = _nib()
    h = trk.TrkFile._default_structarr('little' if d['e'] == '<' else 'big')
    h['nb_scalars_per_point'] = d['ns']
    h['nb_properties_per_streamline'] = d['np']
    h['nb_streamlines'] = d['announced']
    h['version'] = d['version']
    h['hdr_size'] = int(np.array(d['hdr_size'], dtype='u4').astype('i4'))
    for i, fld in enumerate(d['sf']):
        h['scalar_name'][i] = bytes(fld)
    for i, fld in enumerate(d['pf']):
        h['property_name'][i] = bytes(fld)
    hb = bytearray(h.tobytes())
    if d['hs_swapped']:
        hb[996:1000] = hb[996:1000][::-1]
    raw = bytes(hb) + np.array(d['words'], dtype=d['e'] + 'u4').tobytes()
    return raw[:d['cut']] if d['cut'] is not None else raw


def mk_trkb(d):
    d = {k: d[k] for k in ('e', 'ns', 'np', 'announced', 'version', 'hdr_size', 'hs_swapped', 'sf', 'pf', 'words', 'cut', 'valid')}
    raw = trkb_bytes(d)
    return mk('trkb', 'C16 trkb ' + hexs(raw), d, ('trkb', repr(sorted(d.items()))))


def mk_hdrp(raw):
    raw = list(raw)
    return mk('hdrp', 'C16 hdrp ' + hexs(raw), {'raw': raw}, ('hdrp', bytes(raw)))


def enc_affops(ops):
    return ';'.join('w' if o[0] == 'w' else 'a' + ','.join(o[1]) for o in ops) if ops else '-'


def mk_lzaff(mode, R, ops, g, sl):
    line = 'C16 lzaff %s %s %s %s %s' % (mode, ','.join(R) if R else 'none', enc_affops(ops), geom_tokens(g), enc_sl(sl))
    return mk('lzaff', line, {'mode': mode, 'R': R, 'ops': [list(o) for o in ops], 'g': g, 'sl': sl},
              ('lzaff', line))


def mk_general(d):
    return mk('general', None, d, ('general', repr(sorted(d.items()))), 'general')


def _tup(x):
    return [tuple(_tup2(y)) for y in x]


def _tup2(y):
    return y


def case_from_data(d):
    op = d['op']
    if op == 'off':
        return mk_off(d['L'])
    if op == 'buf':
        return mk_buf(d['req'], d['via'])
    if op == 'tckw':
        return mk_tckw(d['L'], d['sls'], d.get('ras'), d.get('build'), d.get('bseed', 0), d.get('hsrc'))
    if op == 'view':
        return mk_view(d['L'], d['sls'], d['steps'])
    if op == 'tview':
        return mk_tview([tuple(i) for i in d['items']], d['steps'], d['ins'])
    if op == 'trkh':
        return mk_trkh(d['g'], [tuple(i) for i in d['items']], d['junk'], d['ins'], d['sup'], d.get('build'))
    if op == 'tckf':
        return mk_tckf(d['L'], d['req'], d['sls'])
    if op == 'tckr':
        return mk_tckr(d['off'], d['req'], d['ragged'], d['start'], d['acts'], d['data'])
    if op == 'nameenc':
        return mk_nameenc(d['k'], d['name'])
    if op == 'namedec':
        return mk_namedec(d['enc'])
    if op == 'slices':
        return mk_slices(d['nb'], d['fields'])
    if op == 'aff':
        return mk_aff(d['g'])
    if op == 'trk':
        return mk_trk(d['g'], [tuple(i) for i in d['items']], d['junk'], d['ins'], d.get('ras'), d.get('build'))
    if op == 'trkr':
        return mk_trkr(d['ns'], d['np'], d['announced'], d['junk'], d['start'], d['acts'], d['words'])
    if op == 'general':
        dd = dict(d)
        dd.pop('op')
        return mk_general(dd)
    if op == 'trkb':
        return mk_trkb(d)
    if op == 'hdrp':
        return mk_hdrp(d['raw'])
    if op == 'lzaff':
        return mk_lzaff(d['mode'], d['R'], [tuple(o) for o in d['ops']], d['g'], d['sl'])
    if op == 'bigtck':
        dd = dict(d)
        dd.pop('op')
        return mk_bigtck(dd)
    raise ValueError(d)


# ------------------------------------------------------------------ implementation side helpers

class Spy(io.BytesIO):
    """BytesIO recording the sizes of readinto buffers"""

    def __init__(self, b):
        super().__init__(b)
        self.sizes = []

    def readinto(self, b):
        self.sizes.append(len(b))
        return super().readinto(b)


def tck_header_for(L):
    """extra header fields so that the text `out` of `_write_header` has exactly L bytes
    (51 = magic + count + datatype lines)"""
    if L == 51:
        return {}
    if L < 55:
        raise ValueError('unreachable header length %d' % L)
    return {'p': 'x' * (L - 55)}


def tck_file_bytes(off, data, ragged):
    """a TCK file whose data start at byte `off` (as its header says)"""
    head = b'mrtrix tracks\ncount: 0000000000\ndatatype: Float32LE\n'
    tail = ('file: . %d\nEND\n' % off).encode()
    pad = off - len(head) - len(tail)
    if pad < 4:
        raise ValueError('offset too small')
    mid = b'p: ' + b'x' * (pad - 4) + b'\n'
    body = np.array(data, dtype='<u4').tobytes() if data else b''
    return head + mid + tail + body + bytes((37 * i + 1) % 251 + 1 for i in range(ragged))


def junk_bytes(n):
    return bytes((53 * i + 7) % 255 + 1 for i in range(n))


ERR_SHORT = (TypeError, ValueError, struct.error)


def err_token(e):
    from nibabel.streamlines.tractogram_file import DataError, HeaderError
    if isinstance(e, DataError):
        return 'ERR:DataError'
    if isinstance(e, HeaderError):
        return 'ERR:HeaderError'
    if isinstance(e, ERR_SHORT):
        return 'ERR:short'
    return errname(e)


def run_history(gen, f, acts, show, value_tok='ERR:short'):
    """one token per consumer action.  Every yielded item is KEPT and shown a second time after the whole history
    (a consumer that collects lazily yielded arrays): a token `LATE-DIFF:<k>` is appended when item k no longer
    shows what it showed when it was yielded (it aliases a buffer the reader re-used)."""
    toks, kept = [], []
    for a in acts:
        if a == 'c':
            gen.close()
            toks.append('c@%d' % f.tell())
        else:
            try:
                it = next(gen)
                txt = show(it)
                kept.append((it, txt))
                toks.append('n:%s@%d' % (txt, f.tell()))
            except StopIteration:
                toks.append('n:stop@%d' % f.tell())
            except Exception as e:  # noqa: BLE001
                tok = err_token(e)
                if tok == 'ERR:short':
                    tok = value_tok
                toks.append('n:%s@%d' % (tok, f.tell()))
    for k, (it, txt) in enumerate(kept):
        if show(it) != txt:
            toks.append('LATE-DIFF:%d' % k)
    return ' '.join(toks)


def geom_header(g):
    from nibabel.streamlines.header import Field
    a = [Fraction(x) for x in g['aff']]
    aff = np.array([[a[0], a[1], a[2], a[9]], [a[3], a[4], a[5], a[10]], [a[6], a[7], a[8], a[11]],
                    [0, 0, 0, 1]], dtype=float)
    return {Field.VOXEL_ORDER: g['order'].encode(), Field.VOXEL_SIZES: [float(Fraction(v)) for v in g['vs']],
            Field.DIMENSIONS: list(g['dims']), Field.VOXEL_TO_RASMM: aff}


def aff12(m):
    m = np.asarray(m)
    return ','.join(enc_frac(Fraction(float(m[i, j]))) for i in range(3) for j in range(3)) + ',' + \
        ','.join(enc_frac(Fraction(float(m[i, 3]))) for i in range(3))


def to_space(sls, ras):
    """points `sls` (RAS+mm, float32) expressed in the space whose affine_to_rasmm is `ras` (aff12 / None)"""
    if not ras:
        return sls, np.eye(4)
    from nibabel.affines import apply_affine
    R = aff_matrix(ras)
    Ri = np.linalg.inv(R)
    out = [apply_affine(Ri, s_).astype('<f4') if len(s_) else s_ for s_ in sls]
    for a_, b_ in zip(out, sls):      # the stream must stay exact
        assert not len(a_) or np.array_equal(apply_affine(R, a_.astype(float)), b_.astype(float)), 'inexact ras space'
    return out, R


BUILDS = ['fresh', 'rev', 'perm', 'perm_nd', 'sortlen', 'slice2', 'mask', 'revslice', 'viewofview', 'copy', 'permcopy',
          'concat', 'extend', 'gen', 'lazy', 'lazyfrom', 'permlazyfrom', 'aff:fresh', 'aff:rev', 'aff:perm', 'aff:slice2', 'aff:mask',
          'aff:lazy', 'aff:concat', 'reloaded', 'reloaded-eager', 'aff:reloaded']


def built(mk, items, dummy_of, build, seed, reload=None):
    """a tractogram whose LOGICAL content is `items`, obtained the way `build` says: `mk(items, gen=False, lazy=False)`
    makes a fresh (Lazy)Tractogram from a list of items, `dummy_of(item)` an item of the same schema and a different
    length used as filler that the view leaves out"""
    import random
    from nibabel.streamlines.tractogram import LazyTractogram
    r = random.Random(seed)
    n = len(items)
    if build and build.startswith('aff:'):
        # built as the rest of the name says, then moved IN PLACE (eager) / lazily by an exact affine: affine_to_rasmm
        # follows, so the RAS+mm content is unchanged
        t = built(mk, items, dummy_of, build[4:], seed, reload)
        return t.apply_affine(aff_matrix(rand_aff12(random.Random(seed + 1))))
    if not build or build == 'fresh' or n == 0:
        return mk(items)

    def scatter(p):     # base[p[j]] = items[j], so that base[p] is `items`
        base = [None] * n
        for j, i in enumerate(p):
            base[i] = items[j]
        return base
    if build == 'rev':
        return mk(items[::-1])[::-1]
    if build in ('perm', 'perm_nd', 'permcopy', 'viewofview', 'sortlen', 'permlazyfrom'):
        p = list(range(n))
        r.shuffle(p)
        t = mk(scatter(p))
        if build == 'perm':
            return t[p]
        if build == 'perm_nd':
            return t[np.array(p, dtype=r.choice(['int64', 'int32', 'uint8']))]
        if build == 'permcopy':
            return t[p].copy()
        if build == 'permlazyfrom':
            return LazyTractogram.from_tractogram(t[p])
        if build == 'sortlen':
            key = np.empty(n)
            key[p] = np.arange(n)
            return t[np.argsort(key)]
        return t[::-1][[n - 1 - i for i in p]]
    if build == 'slice2':
        base = []
        for it in items:
            base += [it, dummy_of(it)]
        return mk(base)[::2]
    if build == 'mask':
        base, mask = [], []
        for it in items:
            while r.random() < 0.4:
                base.append(dummy_of(it))
                mask.append(False)
            base.append(it)
            mask.append(True)
        if r.random() < 0.5:
            base.append(dummy_of(items[-1]))
            mask.append(False)
        return mk(base)[np.array(mask)]
    if build == 'revslice':
        return mk([dummy_of(items[0])] + items[::-1] + [dummy_of(items[-1])])[-2:0:-1]
    if build == 'copy':
        return mk(items).copy()
    if build in ('concat', 'extend'):
        if n < 2:
            return mk(items)
        h = r.randint(1, n - 1)
        a, b = mk(items[:h]), mk(items[h:])
        if build == 'concat':
            return a + b
        a += b
        return a
    if build == 'gen':
        return mk(items, gen=True)
    if build == 'lazy':
        return mk(items, lazy=True)
    if build == 'lazyfrom':
        return LazyTractogram.from_tractogram(mk(items))
    if build in ('reloaded', 'reloaded-eager'):
        # saved once, LOADED (lazily / eagerly), and that tractogram is handed to save again
        return reload(mk(items), build == 'reloaded')
    raise ValueError(build)


def dummy_item(it):
    pts, dpp, dps = it
    return (list(pts) + [pts[0]], [(n, list(rows) + [rows[0]]) for n, rows in dpp], dps)


def build_tractogram(items, ins_seed, ras=None, build=None):
    """real Tractogram from model items; dict insertion order shuffled deterministically; `build`: see `built`"""
    _, _, Tractogram = _nib()
    import random

    def mk(items, gen=False, lazy=False):
        r = random.Random(ins_seed)
        sls = [bits_to_f32([w for t in it[0] for w in t]) for it in items]
        dpp, dps = {}, {}
        if items:
            pn = [n for n, _ in items[0][1]]
            sn = [n for n, _ in items[0][2]]
            r.shuffle(pn)
            r.shuffle(sn)
            for n in pn:
                key = bytes(n).decode('latin1')
                dpp[key] = [np.array([r_ for r_ in dict((tuple(a), b) for a, b in it[1])[tuple(n)]], dtype='<u4')
                            .view('<f4').reshape(len(it[0]), -1) for it in items]
            for n in sn:
                key = bytes(n).decode('latin1')
                dps[key] = [np.array(dict((tuple(a), b) for a, b in it[2])[tuple(n)], dtype='<u4').view('<f4')
                            for it in items]
        sls, R = to_space(sls, ras)
        if lazy:
            from nibabel.streamlines.tractogram import LazyTractogram
            return LazyTractogram(lambda: (x.copy() for x in sls), {k: (lambda v=v: iter(v)) for k, v in dps.items()},
                                  {k: (lambda v=v: iter(v)) for k, v in dpp.items()}, affine_to_rasmm=R)
        if gen:
            return Tractogram((x for x in sls), data_per_streamline={k: (x for x in v) for k, v in dps.items()} or None,
                              data_per_point={k: (x for x in v) for k, v in dpp.items()} or None, affine_to_rasmm=R)
        return Tractogram(sls, data_per_streamline=dps or None, data_per_point=dpp or None, affine_to_rasmm=R)
    def reload(t, lazy):
        _, trk, _ = _nib()
        b = io.BytesIO()
        trk.TrkFile(t).save(b)
        return trk.TrkFile.load(io.BytesIO(b.getvalue()), lazy_load=lazy).tractogram
    return built(mk, list(items), dummy_item, build, ins_seed, reload)


def build_tck_tractogram(d, sls=None):
    """the tractogram a `tckw` / `view` case hands to TckFile (logical content: d['sls'])"""
    _, _, Tractogram = _nib()

    def mk(sl_bits, gen=False, lazy=False):
        arrs = [bits_to_f32([w for t in s_ for w in t]) for s_ in sl_bits]
        arrs, R = to_space(arrs, d.get('ras'))
        if lazy:
            from nibabel.streamlines.tractogram import LazyTractogram
            return LazyTractogram(lambda: (x.copy() for x in arrs), affine_to_rasmm=R)
        return Tractogram((x for x in arrs) if gen else arrs, affine_to_rasmm=R)
    def reload(t, lazy):
        tck, _, _ = _nib()
        b = io.BytesIO()
        tck.TckFile(t).save(b)
        return tck.TckFile.load(io.BytesIO(b.getvalue()), lazy_load=lazy).tractogram
    return built(mk, list(d['sls'] if sls is None else sls), lambda s_: list(s_) + [s_[0]], d.get('build'), d.get('bseed', 0), reload)


class SetupMismatch(Exception):
    pass


def pad10(fields):
    return [bytes(f) for f in fields] + [b''] * (10 - len(fields))


def case_header(d):
    """the header a `trk` / `trkh` case hands to TrkFile(tractogram, header=…)"""
    _, trk, _ = _nib()
    from nibabel.streamlines.header import Field
    sup = d.get('sup')
    if not sup:
        return geom_header(d['g'])
    if sup['mode'] == 'dict':
        h = geom_header(d['g'])
        h['scalar_name'] = np.array(pad10(sup['sf']), dtype='S20')
        h['property_name'] = np.array(pad10(sup['pf']), dtype='S20')
        h[Field.NB_SCALARS_PER_POINT] = sup['ns']
        h[Field.NB_PROPERTIES_PER_STREAMLINE] = sup['np']
        h[Field.NB_STREAMLINES] = sup['n']
        return h
    gA = sup['gA'] if sup['mode'] == 'loaded+geom' else d['g']
    b = io.BytesIO()
    trk.TrkFile(build_tractogram([tuple(i) for i in sup['itemsA']], d['ins'] + 1), header=geom_header(gA)).save(b)
    hdr = trk.TrkFile.load(io.BytesIO(b.getvalue()), lazy_load=(sup['mode'] == 'loaded-lazy')).header
    got = ([list(bytes(x)) for x in hdr['scalar_name']], [list(bytes(x)) for x in hdr['property_name']],
           int(hdr[Field.NB_SCALARS_PER_POINT]), int(hdr[Field.NB_PROPERTIES_PER_STREAMLINE]), int(hdr[Field.NB_STREAMLINES]))
    want = ([list(x) for x in pad10(sup['sf'])], [list(x) for x in pad10(sup['pf'])], sup['ns'], sup['np'], sup['n'])
    if got != want:
        raise SetupMismatch(f'header of the loaded reference file carries {got}, expected {want}')
    if sup['mode'] == 'loaded+geom':
        hdr = dict(hdr)
        hdr.update(geom_header(d['g']))
    return hdr


def items_of_tractogram(t):
    """model items (sorted names, bit patterns, -0 coordinates canonicalised) from a loaded tractogram"""
    out = []
    sls = [np.asarray(s) for s in t.streamlines]
    dpp = {k: [np.asarray(x) for x in v] for k, v in t.data_per_point.items()}
    dps = {k: [np.asarray(x) for x in v] for k, v in t.data_per_streamline.items()}
    for i, s in enumerate(sls):
        pts = [tuple(canon_zero(w) for w in row) for row in f32_to_bits(s)]
        a = [(list(k.encode('latin1')), [words_of(r) for r in np.asarray(v[i]).reshape(len(s), -1)])
             for k, v in dpp.items()]
        b = [(list(k.encode('latin1')), words_of(v[i])) for k, v in dps.items()]
        out.append((pts, a, b))
    return out


def parse_trk_bytes(raw):
    """independent decoder of a TRK file: counts, name fields, data words (coordinates' -0 canonicalised)"""
    n, = struct.unpack('<i', raw[988:992])
    ns, = struct.unpack('<h', raw[36:38])
    np_, = struct.unpack('<h', raw[238:240])
    sf = [list(raw[38 + 20 * i:58 + 20 * i].rstrip(b'\0')) for i in range(10)]
    pf = [list(raw[240 + 20 * i:260 + 20 * i].rstrip(b'\0')) for i in range(10)]
    words = [int(x) for x in np.frombuffer(raw[1000:len(raw) - (len(raw) - 1000) % 4], '<u4')]
    # canonicalise the sign of zero of coordinates
    i = 0
    out = list(words)
    while i < len(words):
        m = words[i]
        i += 1
        for _ in range(m):
            for j in range(3):
                if i + j < len(out):
                    out[i + j] = canon_zero(out[i + j])
            i += 3 + ns
        i += np_
    return n, ns, np_, sf, pf, out


def show_rec(rec):
    pts, scal, props = rec
    rows = np.concatenate([np.asarray(pts), np.asarray(scal)], axis=1) if len(pts) else []
    return ('|'.join(enc_words(words_of(r)) for r in rows) if len(rows) else 'e') + '/' + enc_words(words_of(props))


# ------------------------------------------------------------------ impl

def impl(case):
    d = case.data
    op = d['op']
    tck, trk, Tractogram = _nib()
    TckFile, TrkFile = tck.TckFile, trk.TrkFile
    case.extra = {}
    if op == 'off':
        hdr = TckFile.create_empty_header()
        hdr.update(tck_header_for(d['L']))
        b = io.BytesIO()
        TckFile._write_header(b, hdr)
        raw = b.getvalue()
        case.extra['raw'] = raw
        n = int(re.search(rb'\nfile: \. (\d+)\n', raw).group(1))
        return f'{n} {len(raw)}'
    if op == 'buf':
        raw = tck_file_bytes(100, [[1, 2, 3], [tck_nan(), tck_nan(), tck_nan()], [tck_inf(), tck_inf(), tck_inf()]], 0)
        f = Spy(raw)
        if d['via'] == 'arg':
            hdr = TckFile._read_header(f)
            list(TckFile._read(f, hdr, buffer_size=d['req'] / tck.MEGABYTE))
        else:
            old = tck.MEGABYTE
            tck.MEGABYTE = d['req'] // 4
            try:
                TckFile.load(f)
            finally:
                tck.MEGABYTE = old
        return str(f.sizes[0])
    if op in ('tckw', 'view'):
        if op == 'view':
            t = Tractogram([bits_to_f32([w for t in s_ for w in t]) for s_ in d['sls']], affine_to_rasmm=np.eye(4))
            for st in d['steps']:
                if st[0] == 'seqcopy':
                    t = Tractogram(t.streamlines.copy(), affine_to_rasmm=np.eye(4))
                elif st[0] == 'deepcopy':
                    t = t.copy()
                else:
                    t = t[py_index(st)]
        else:
            t = build_tck_tractogram(d)
        hdr_in = tck_header_for(d['L'])
        if d.get('hsrc') == 'loaded':
            # the header of a previously LOADED file (other count, other offset, reader-private keys)
            b0 = io.BytesIO()
            other = [bits_to_f32([1, 2, 3] * (k + 1)) for k in range(len(d['sls']) + 2)]
            TckFile(Tractogram(other, affine_to_rasmm=np.eye(4)), header=tck_header_for(d['L'])).save(b0)
            hdr_in = TckFile.load(io.BytesIO(b0.getvalue()), lazy_load=bool(d.get('bseed', 0) % 2)).header
        b = io.BytesIO()
        TckFile(t, header=hdr_in).save(b)
        raw = b.getvalue()
        case.extra['raw'] = raw
        n = int(re.search(rb'\nfile: \. (\d+)\n', raw).group(1))
        real = raw.index(b'\nEND\n') + 5
        body = raw[real:]
        if len(body) % 12:
            return f'{n} {real} ragged'
        data = [int(x) for x in np.frombuffer(body, '<u4')]
        if d.get('ras') or (d.get('build') or '').startswith('aff:'):
            data = [canon_zero(x) for x in data]
        return f'{n} {real} ' + enc_sl([data[i:i + 3] for i in range(0, len(data), 3)])
    if op == 'tckf':
        sls = [bits_to_f32([w for t in s_ for w in t]) for s_ in d['sls']]
        b = io.BytesIO()
        TckFile(Tractogram(sls, affine_to_rasmm=np.eye(4)), header=tck_header_for(d['L'])).save(b)
        raw = b.getvalue()
        case.extra['raw'] = raw
        f = io.BytesIO(raw)
        hdr = TckFile._read_header(f)
        res = 'ann=%d bytes=%s' % (hdr['_offset_data'], enc_words(list(raw)))
        got = []
        try:
            for it in TckFile._read(f, hdr, buffer_size=d['req'] / tck.MEGABYTE):
                got.append(f32_to_bits(it))
            end = 'ok'
        except ValueError:
            end = 'ERR:ValueError'
        except Exception as e:  # noqa: BLE001
            end = err_token(e)
        case.extra['got'] = got
        return res + ' items=%s end=%s' % (enc_sls(got), end)
    if op == 'tckr':
        raw = tck_file_bytes(d['off'], d['data'], d['ragged'])
        f = io.BytesIO(raw)
        f.seek(d['start'])
        hdr = TckFile._read_header(f)
        gen = TckFile._read(f, hdr, buffer_size=d['req'] / tck.MEGABYTE)
        out = run_history(gen, f, d['acts'], lambda it: enc_sl(f32_to_bits(it)), 'ERR:ValueError')
        del gen
        pass  # CPython closes an unreferenced generator at once (refcount); no gc.collect() needed
        case.extra['final'] = f.tell()
        return out
    if op == 'nameenc':
        try:
            enc = trk.encode_value_in_name(d['k'], bytes(d['name']).decode('latin1'))
        except ValueError:
            return 'ERR:ValueError'
        arr = np.zeros(1, dtype='S20')
        arr[0] = enc
        try:
            n, v = trk.decode_value_from_name(arr[0])
            dec = enc_name(list(n.encode('latin1'))) + '/' + str(v)
        except Exception as e:  # noqa: BLE001
            dec = err_token(e) if not isinstance(e, ValueError) else 'ERR:ValueError'
        return 'enc=' + enc_words(list(enc)) + ' dec=' + dec
    if op == 'namedec':
        try:
            n, v = trk.decode_value_from_name(bytes(d['enc']))
            return enc_name(list(n.encode('latin1'))) + '/' + str(v)
        except ValueError:
            return 'ERR:ValueError'
        except Exception as e:  # noqa: BLE001
            return err_token(e)
    if op == 'slices':
        # the name-table loop of TrkFile.load, observed through a real load of a crafted file whose
        # single point carries its own column index in every scalar column
        nb = d['nb']
        words = [1, 0, 0, 0] + [int(np.array(float(i), '<f4').view('<u4')) for i in range(nb)]
        raw = craft_trk(nb, 0, 1, d['fields'], [], words)
        try:
            t = TrkFile.load(io.BytesIO(raw)).tractogram
        except ValueError:
            return 'ERR:ValueError'
        except Exception as e:  # noqa: BLE001
            return err_token(e)
        toks = []
        for k, v in t.data_per_point.items():
            col = [int(x) for x in np.asarray(v[0]).ravel()]
            # (a slice reaching beyond the nb columns is clipped by NumPy)
            toks.append('%s=%d:%d' % (enc_name(list(k.encode('latin1'))), col[0] if col else nb, col[-1] + 1 if col else nb))
        return ','.join(toks) if toks else '-'
    if op == 'aff':
        h = TrkFile.create_empty_header()
        h.update(geom_header(d['g']))
        try:
            a = trk.get_affine_trackvis_to_rasmm(h)
            b = trk.get_affine_rasmm_to_trackvis(h)
        except ValueError:
            return 'ERR:ValueError'
        case.extra['a'], case.extra['b'] = a, b
        return aff12(a) + ' ' + aff12(b)
    if op == 'tview':
        t = build_tractogram([tuple(i) for i in d['items']], d['ins'])
        for st in d['steps']:
            t = t.copy() if st[0] == 'deepcopy' else t[py_index(st)]
        its = []
        for it in list(t.to_world(lazy=True)):       # exactly what both `save` methods iterate over; items kept first
            pts = [tuple(row) for row in f32_to_bits(np.asarray(it.streamline))]
            a_ = [(list(k.encode('latin1')), [words_of(r) for r in np.asarray(v).reshape(len(pts), -1)])
                  for k, v in it.data_for_points.items()]
            b_ = [(list(k.encode('latin1')), words_of(v)) for k, v in it.data_for_streamline.items()]
            its.append((pts, a_, b_))
        case.extra['its'] = its
        return enc_items(its)
    if op in ('trk', 'trkh'):
        t = build_tractogram(d['items'], d['ins'], d.get('ras'), d.get('build'))
        junk = junk_bytes(d['junk'])
        b = io.BytesIO()
        b.write(junk)
        try:
            hdr_in = case_header(d)
        except SetupMismatch as e:
            return 'SETUP-MISMATCH ' + str(e)
        try:
            TrkFile(t, header=hdr_in).save(b)
        except ValueError:
            return 'ERR:ValueError'
        except ZeroDivisionError:
            return 'ERR:ZeroDivisionError'
        except Exception as e:  # noqa: BLE001
            return err_token(e)
        raw = b.getvalue()
        case.extra['raw'] = raw
        n, ns, np_, sf, pf, words = parse_trk_bytes(raw[len(junk):])
        hdr = 'n=%d ns=%d np=%d sf=%s pf=%s data=%s' % (n, ns, np_, ','.join(enc_name(x) for x in sf),
                                                       ','.join(enc_name(x) for x in pf), enc_words(words))
        f = io.BytesIO(raw)
        f.seek(len(junk))
        try:
            loaded = TrkFile.load(f, lazy_load=False)
        except Exception as e:  # noqa: BLE001
            return hdr + ' load=' + err_token(e)
        case.extra['pos_eager'] = f.tell()
        its = items_of_tractogram(loaded.tractogram)
        case.extra['loaded'] = its
        # items obtained by iterating the LAZILY loaded tractogram (LazyTractogram.data applies the pending affine)
        f2 = io.BytesIO(raw)
        f2.seek(len(junk))
        lits = []
        try:
            for it in TrkFile.load(f2, lazy_load=True).tractogram:
                pts = [tuple(canon_zero(w) for w in row) for row in f32_to_bits(np.asarray(it.streamline))]
                a_ = [(list(k.encode('latin1')), [words_of(r) for r in np.asarray(v).reshape(len(pts), -1)])
                      for k, v in it.data_for_points.items()]
                b_ = [(list(k.encode('latin1')), words_of(v)) for k, v in it.data_for_streamline.items()]
                lits.append((pts, a_, b_))
        except Exception as e:  # noqa: BLE001
            return hdr + ' load=' + enc_items_ordered(its) + ' lazy=' + err_token(e)
        case.extra['lazy_items'] = lits
        return hdr + ' load=' + enc_items_ordered(its) + ' lazy=' + enc_items_ordered(lits)
    if op == 'trkr':
        raw = junk_bytes(d['junk']) + craft_trk(d['ns'], d['np'], d['announced'], [], [], d['words'])
        f = io.BytesIO(raw)
        f.seek(d['junk'])
        hdr = TrkFile._read_header(f)
        f.seek(d['start'])
        gen = TrkFile._read(f, hdr)
        out = run_history(gen, f, d['acts'], show_rec)
        del gen
        pass  # CPython closes an unreferenced generator at once (refcount); no gc.collect() needed
        case.extra['final'] = f.tell()
        return out
    if op == 'trkb':
        from nibabel.streamlines.header import Field
        from nibabel.streamlines.tractogram_file import HeaderError
        raw = trkb_bytes(d)
        case.extra['raw'] = raw
        f = io.BytesIO(raw)
        try:
            hdr = TrkFile._read_header(f)
        except HeaderError:
            return 'ERR:HeaderError'
        except Exception as e:  # noqa: BLE001
            return err_token(e)
        head = 'e=%s ns=%d np=%d n=%d ver=%d sf=%s pf=%s reenc=true' % (
            hdr[Field.ENDIANNESS], hdr[Field.NB_SCALARS_PER_POINT], hdr[Field.NB_PROPERTIES_PER_STREAMLINE],
            hdr[Field.NB_STREAMLINES], hdr['version'],
            ','.join(enc_name(list(bytes(x).rstrip(b'\0'))) for x in hdr['scalar_name']),
            ','.join(enc_name(list(bytes(x).rstrip(b'\0'))) for x in hdr['property_name']))
        items, end = [], 'ok'
        try:
            for rec in TrkFile._read(f, hdr):
                items.append(show_rec(rec))
        except Exception as e:  # noqa: BLE001
            end = err_token(e)
        case.extra['final'] = f.tell()
        return head + ' items=' + (';'.join(items) if items else '-') + ' end=' + end
    if op == 'hdrp':
        from nibabel.streamlines.tractogram_file import HeaderError
        f = io.BytesIO(bytes(d['raw']))
        f.seek(min(3, len(d['raw'])))
        try:
            off = TckFile._read_header(f)['_offset_data']
        except HeaderError:
            return 'ERR:HeaderError'
        except IndexError:
            return 'ERR:short'
        except ValueError:
            return 'ERR:ValueError'
        case.extra['pos'] = f.tell()
        return str(off)
    if op == 'lzaff':
        return impl_lzaff(case, d)
    if op == 'bigtck':
        return 'general'
    if op == 'general':
        return 'general'
    raise ValueError(op)


def aff_matrix(a12):
    a = [Fraction(x) for x in a12]
    return np.array([[a[0], a[1], a[2], a[9]], [a[3], a[4], a[5], a[10]], [a[6], a[7], a[8], a[11]], [0, 0, 0, 1]], dtype=float)


def impl_lzaff(case, d):
    tck, trk, Tractogram = _nib()
    from nibabel.streamlines.tractogram import LazyTractogram
    lazy = d['mode'] == 'l'
    sl = bits_to_f32([w for t in d['sl'] for w in t])
    R = aff_matrix(d['R']) if d['R'] else None
    cur = Tractogram([sl.copy()], affine_to_rasmm=R)
    toks = []
    case.extra['states'] = []

    def show(c):
        return 'P=%s;R=%s' % (aff12(c._affine_to_apply) if lazy else '-',
                              aff12(c.affine_to_rasmm) if c.affine_to_rasmm is not None else 'none')
    if lazy and not d['ops']:
        cur = LazyTractogram.from_tractogram(cur)
    for o in d['ops']:
        try:
            if o[0] == 'w':
                cur = cur.to_world(lazy=True) if lazy else cur.to_world()
            else:
                cur = cur.apply_affine(aff_matrix(o[1]), lazy=True) if lazy else cur.apply_affine(aff_matrix(o[1]))
        except ValueError:
            toks.append('ERR:ValueError')
            return ' '.join(toks)
        toks.append(show(cur))
        case.extra['states'].append((np.array(cur._affine_to_apply, dtype=float) if lazy else None,
                                     None if cur.affine_to_rasmm is None else np.array(cur.affine_to_rasmm, dtype=float),
                                     [np.asarray(x, dtype=float).copy() for x in cur.streamlines]))

    def bits(a):
        return [tuple(canon_zero(w) for w in row) for row in f32_to_bits(np.asarray(a))]
    pts = bits(list(cur.streamlines)[0])
    toks.append('pts=' + enc_sl(pts))
    case.extra['resaved'] = {}
    for name, cls, hdr in (('trk', trk.TrkFile, geom_header(d['g'])), ('tck', tck.TckFile, None)):
        b = io.BytesIO()
        try:
            cls(cur, header=hdr).save(b)
            back = [bits(s_) for s_ in cls.load(io.BytesIO(b.getvalue())).streamlines]
            lback = [bits(s_) for s_ in cls.load(io.BytesIO(b.getvalue()), lazy_load=True).streamlines]
            case.extra['resaved'][name] = (back, lback)
            toks.append(name + '=' + (enc_sl(back[0]) if len(back) == 1 else 'n%d' % len(back)))
        except ValueError:
            toks.append(name + '=ERR:ValueError')
    return ' '.join(toks)


def enc_items_ordered(items):
    """items with dict entries in the order the loader produced them"""
    def one(it):
        pts, dpp, dps = it
        a = '+'.join(enc_name(n) + '=' + '|'.join(enc_words(r) for r in rows) for n, rows in dpp) if dpp else '-'
        b = '+'.join(enc_name(n) + '=' + enc_words(ws) for n, ws in dps) if dps else '-'
        return enc_sl(pts) + '/' + a + '/' + b
    return ';'.join(one(i) for i in items) if items else '-'


def tck_nan():
    return 0x7FC00000


def tck_inf():
    return 0x7F800000


def craft_trk(ns, np_, announced, sfields, pfields, words):
    """a TRK file (header written by hand into the default structured array) + data words"""
    _, trk, _ = _nib()
    h = trk.TrkFile._default_structarr('little')
    h['nb_scalars_per_point'] = ns
    h['nb_properties_per_streamline'] = np_
    h['nb_streamlines'] = announced
    for i, fld in enumerate(sfields):
        h['scalar_name'][i] = bytes(fld)
    for i, fld in enumerate(pfields):
        h['property_name'][i] = bytes(fld)
    return h.tobytes() + np.array(words, dtype='<u4').tobytes()


# ------------------------------------------------------------------ oracle (the property, stated on the real code)

def ref_tck_parse(data):
    """reference TCK parse: split at all-NaN triples, drop empty pieces; tail must be one all-inf triple"""
    def isnan(w):
        return (w & 0x7F800000) == 0x7F800000 and (w & 0x7FFFFF) != 0

    def isinf(w):
        return (w & 0x7FFFFFFF) == 0x7F800000
    out, cur = [], []
    for t in data:
        if all(isnan(w) for w in t):
            if cur:
                out.append(cur)
            cur = []
        else:
            cur.append(list(t))
    ok = len(cur) == 1 and all(isinf(w) for w in cur[0])
    return out, ok


def finite_bits(sls):
    return all(((w >> 23) & 0xFF) != 0xFF for s in sls for t in s for w in t)


def consume(tf, how):
    """the streamlines of a loaded TractogramFile as bit lists under a CONSUMPTION pattern:
    each  = convert every streamline as soon as it is yielded (streaming consumer);
    keep  = `list(tf.streamlines)` first, convert afterwards (a consumer that collects the lazily yielded arrays);
    items = `list(tf.tractogram)` first (TractogramItems kept), convert afterwards;
    kth   = keep every second array, convert the others at once;
    interleave = two iterators over `.streamlines` advanced alternately, arrays kept (own file handle each: paths only)"""
    conv = lambda a: f32_to_bits(np.asarray(a))   # noqa: E731
    if how == 'each':
        return [conv(x) for x in tf.streamlines]
    if how == 'keep':
        return [conv(x) for x in list(tf.streamlines)]
    if how == 'items':
        return [conv(it.streamline) for it in list(tf.tractogram)]
    if how == 'kth':
        got = [x if i % 2 else conv(x) for i, x in enumerate(tf.streamlines)]
        return [conv(x) if i % 2 else x for i, x in enumerate(got)]
    if how == 'interleave':
        a, b = iter(tf.streamlines), iter(tf.streamlines)
        A, B = [], []
        for x in a:
            A.append(x)
            y = next(b, None)
            if y is not None:
                B.append(y)
        B.extend(b)
        A, B = [conv(x) for x in A], [conv(x) for x in B]
        return A if A == B else 'interleaved iterators differ: %s / %s' % (str(A)[:80], str(B)[:80])
    raise ValueError(how)


LAZY_CONSUMERS = ('each', 'keep', 'items', 'kth')


ALL_VARIANTS = ((False, 'each'), (False, 'keep')) + tuple((True, h) for h in LAZY_CONSUMERS)
BASIC_VARIANTS = ((False, 'each'), (True, 'each'), (True, 'keep'))


def load_variants(cls, raw, start, variants=ALL_VARIANTS):
    """yield (label, streamlines-as-bit-lists or exception, position-ok) for eager/lazy x consumption pattern, fileobj"""
    res = []
    for lazy, how in variants:
        label = ('lazy' if lazy else 'eager') + ('' if how == 'each' else '/' + how)
        f = io.BytesIO(raw)
        f.seek(start)
        try:
            tf = cls.load(f, lazy_load=lazy)
            pass  # CPython closes an unreferenced generator at once (refcount); no gc.collect() needed
            p0 = f.tell()
            sl = consume(tf, how)
            p1 = f.tell()
            if lazy and how in ('each', 'keep'):   # a second pass must give the same
                sl2 = consume(tf, how)
                if sl2 != sl:
                    sl = 'second lazy pass differs'
            res.append((label, sl, (p0, p1), tf))
        except Exception as e:  # noqa: BLE001
            res.append((label, e, (f.tell(), f.tell()), None))
    return res


def ref_voxmm_to_ras(g, p):
    """independent reference for one point: voxmm -> voxel (corner -> centre) -> axes of the affine -> RAS mm"""
    vs = [Fraction(v) for v in g['vs']]
    a = [Fraction(x) for x in g['aff']]
    A = [[a[0], a[1], a[2]], [a[3], a[4], a[5]], [a[6], a[7], a[8]]]
    tr = a[9:12]
    vox = [p[i] / vs[i] - Fraction(1, 2) for i in range(3)]
    # anatomical axis and direction of every header axis / affine axis
    lab = {'L': (0, -1), 'R': (0, 1), 'P': (1, -1), 'A': (1, 1), 'I': (2, -1), 'S': (2, 1)}
    hax = [lab[c] for c in g['order'].upper()]
    aax = []
    for j in range(3):
        col = [A[i][j] for i in range(3)]
        i = max(range(3), key=lambda k: abs(col[k]))
        aax.append((i, 1 if col[i] > 0 else -1))
    out = [None] * 3
    for j, (ax, dr) in enumerate(aax):
        i = [k for k in range(3) if hax[k][0] == ax][0]
        out[j] = vox[i] if hax[i][1] == dr else (g['dims'][i] - 1) - vox[i]
    return [sum(A[i][j] * out[j] for j in range(3)) + tr[i] for i in range(3)]


def involutive(g):
    """do the header's voxel order and the affine's axes name the anatomical axes in the same order (flips allowed)?
    (nibabel applies `inv_ornt_aff(ornt_transform(header, affine), dims)` — documented as the map from the
    transformed array back to the original — in the direction header->affine, so for a non-identity axis
    permutation the permutation/`dims` are those of the inverse map; the composed affine is still invertible
    and save/load round-trips, which is all C16 states, so the anatomical reference is only checked when the
    permutation is the identity)"""
    lab = {'L': 0, 'R': 0, 'P': 1, 'A': 1, 'I': 2, 'S': 2}
    hax = [lab[c] for c in g['order'].upper()]
    a = [Fraction(x) for x in g['aff']]
    aax = [max(range(3), key=lambda i: abs(a[3 * i + j])) for j in range(3)]
    perm = [hax.index(aax[j]) for j in range(3)]
    return perm == [0, 1, 2]


def oracle(case, out):
    d = case.data
    op = d['op']
    tck, trk, Tractogram = _nib()
    TckFile, TrkFile = tck.TckFile, trk.TrkFile
    ex = case.extra or {}
    if op == 'off':
        n, real = out.split()
        if n != real:
            return f'TCK header of text length {d["L"]} announces data offset {n} but the data start at byte {real}'
        raw = ex['raw']
        hdr = TckFile._read_header(io.BytesIO(raw + b'\0' * 12))
        if hdr['_offset_data'] != len(raw):
            return f'_read_header gives _offset_data {hdr["_offset_data"]} for a header of {len(raw)} bytes'
        return None
    if op == 'buf':
        b = int(out)
        if b <= 0 or b % 12:
            return f'TCK reader buffer of {b} bytes is not a positive multiple of 12 (request {d["req"]})'
        return None
    if op in ('tckw', 'view'):
        if out.startswith('ERR'):
            return f'TckFile.save failed: {out}'
        n, real, _ = out.split(' ', 2)
        if n != real:
            return f'TCK file announces data offset {n} but data start at {real} (header text length {d["L"]})'
        if not finite_bits(d['sls']):
            return None
        if op == 'view':
            _, sel = resolve_steps(len(d['sls']), d['steps'])
            logical = [d['sls'][i] for i in sel]
            how_built = f' [tractogram = Tractogram(sls) after {d["steps"]}]'
        else:
            logical = d['sls']
            how_built = f' [tractogram built as {d.get("build")!r}, header source {d.get("hsrc")!r}]' if d.get('build') or d.get('hsrc') else ''
        want = [[list(t) for t in s] for s in logical if len(s)]
        raw = ex['raw']
        for start in ((0, 7, len(raw)) if op == 'tckw' else (0,)):
            for label, sl, pos, _ in load_variants(TckFile, raw, start, (ALL_VARIANTS if op == 'tckw' else BASIC_VARIANTS) if start == 0 else ((False, 'each'), (True, 'keep'))):
                if isinstance(sl, Exception):
                    return f'TCK {label} load of a saved tractogram raised {sl!r}' + how_built
                if sl != want:
                    return f'TCK {label} load != saved streamlines (bit patterns): got {str(sl)[:150]} want {str(want)[:150]}' + how_built
                if pos != (start, start):
                    return f'TCK {label} load from a file object at {start} left it at {pos[0]} (after load) / {pos[1]} (after iteration)'
        # buffers of 12, 24, 36, 108 bytes through the public load, each with a consumer that KEEPS the lazy arrays
        pick = (d['L'] + len(raw)) % 2
        for mb, extra in (((0, 'each'), (7, 'kth')) if pick else ((3, 'items'), (25, 'each'))) if op == 'tckw' else ((3, 'each'), (25, 'kth')):
            old = tck.MEGABYTE
            tck.MEGABYTE = mb
            try:
                for label, sl, pos, _ in load_variants(TckFile, raw, 0, (((False, 'each'),) if mb in (0, 25) else ()) + ((True, 'keep'), (True, extra))):
                    if isinstance(sl, Exception) or sl != want:
                        return f'TCK {label} load depends on the buffer size (MEGABYTE={mb}): {str(sl)[:200]} want {str(want)[:150]}'
            finally:
                tck.MEGABYTE = old
        if op == 'tckw' and (d['L'] + len(d['sls'])) % 5 == 0:
            with tempfile.TemporaryDirectory() as tmp:
                p = os.path.join(tmp, 'a.tck')
                import nibabel as nib
                nib.streamlines.save(build_tck_tractogram(dict(d, ras=None)), p, header=tck_header_for(d['L']))
                for mb in (None, 5):
                    old = tck.MEGABYTE
                    if mb is not None:
                        tck.MEGABYTE = mb
                    try:
                        for lazy in (False, True):
                            for how in (('each', 'keep', 'items', 'kth', 'interleave') if lazy else ('each',)):
                                got = consume(nib.streamlines.load(p, lazy_load=lazy), how)
                                if got != want:
                                    return (f'TCK save/load by path (lazy={lazy}, consumer {how}, MEGABYTE={mb}) differs: '
                                            f'{str(got)[:150]} want {str(want)[:150]}') + how_built
                    finally:
                        tck.MEGABYTE = old
        return None
    if op == 'tckf':
        raw = ex['raw']
        real = raw.index(b'\nEND\n') + 5
        if not out.startswith('ann=%d ' % real):
            return f'TCK file announces {out.split(" ")[0]} but its data start at byte {real} (header text length {d["L"]})'
        if finite_bits(d['sls']):
            want = [[list(t) for t in s_] for s_ in d['sls'] if len(s_)]
            if ex.get('got') != want or not out.endswith('end=ok'):
                return f'TCK file round trip (buffer request {d["req"]}) differs: {str(ex.get("got"))[:150]} want {str(want)[:150]}'
        return None
    if op == 'tckr':
        want, ok = ref_tck_parse(d['data'])
        toks = out.split(' ') if out else []
        late = [t for t in toks if t.startswith('LATE-DIFF')]
        if late:
            return (f'TCK reader (buffer request {d["req"]}): streamline number {late[0].split(":")[1]} yielded by the lazy reader '
                    f'changed after later reads (history {d["acts"]}) — a consumer that keeps the arrays gets different coordinates')
        toks = [t for t in toks if not t.startswith('LATE-DIFF')]
        # items delivered, in order, must be a prefix of the reference parse (valid, non-ragged files: all of it)
        got = [t for t in toks if t.startswith('n:') and not t.startswith('n:stop') and not t.startswith('n:ERR')]
        for i, t in enumerate(got):
            body = t[2:].rsplit('@', 1)[0]
            if i >= len(want) or body != enc_sl(want[i]):
                return f'TCK reader (buffer request {d["req"]}) yields {body} as item {i}; whole-stream parse gives {want[i] if i < len(want) else None}'
        acts = d['acts']
        closed = 'c' in acts or any(t.startswith('n:stop') or t.startswith('n:ERR') for t in toks)
        if d['ragged'] == 0 and ok and 'c' not in acts and acts.count('n') > len(want):
            if len(got) != len(want) or any(t.startswith('n:ERR') for t in toks):
                return f'TCK reader (buffer request {d["req"]}) on a valid stream: {out[:200]}; want {len(want)} items'
        if d['ragged'] == 0 and not ok and 'c' not in acts and acts.count('n') > len(want):
            if not any(t.startswith('n:ERR') for t in toks):
                return f'TCK reader accepted a stream without the inf-inf-inf end marker: {out[:200]}'
        if closed and ex.get('final') != d['start']:
            return f'TCK reader left the file object at {ex.get("final")}, it was at {d["start"]} (history {acts})'
        if toks and closed:
            last = int(toks[-1].rsplit('@', 1)[1])
            if last != d['start']:
                return f'TCK reader: position {last} after the generator ended/was closed, start was {d["start"]} (history {acts})'
        return None
    if op == 'nameenc':
        name, k = d['name'], d['k']
        if out.startswith('ERR'):
            fits = len(name) <= 20 and (k <= 1 or len(name) + 1 + len(str(k)) <= 20)
            return f'encode_value_in_name refused ({k}, {name}) which fits in 20 bytes' if fits else None
        if 0 in name or k < 1 or (not name and k == 1):
            return None
        want = 'dec=' + enc_name(name) + '/' + str(k)
        if not out.endswith(want):
            return f'name codec does not round-trip ({name}, {k}): {out}'
        return None
    if op in ('namedec', 'slices'):
        return None
    if op == 'aff':
        if out.startswith('ERR'):
            return f'get_affine_trackvis_to_rasmm raised on a valid header {d["g"]}: {out}'
        a, b = ex['a'].astype(float), ex['b'].astype(float)
        if not np.array_equal(a @ b, np.eye(4)) or not np.array_equal(b @ a, np.eye(4)):
            return f'rasmm->trackvis is not the inverse of trackvis->rasmm for {d["g"]}'
        g = d['g']
        if not involutive(g):
            return None
        for p in ([0, 0, 0], [1, 0, 0], [0, 1, 0], [0, 0, 1], [Fraction(3, 4), Fraction(-5, 2), 7]):
            p = [Fraction(x) for x in p]
            want = ref_voxmm_to_ras(g, p)
            got = [sum(Fraction(float(a[i, j])) * p[j] for j in range(3)) + Fraction(float(a[i, 3])) for i in range(3)]
            if got != want:
                return f'trackvis->rasmm affine maps voxmm {p} to {got}, reference {want} ({g})'
        return None
    if op == 'tview':
        items = [tuple(i) for i in d['items']]
        _, sel = resolve_steps(len(items), d['steps'])

        def norm1(its):
            return [([tuple(t) for t in pts], sorted((list(n), [list(r) for r in rows]) for n, rows in a),
                     sorted((list(n), list(ws)) for n, ws in b)) for pts, a, b in its]
        want = norm1([items[i] for i in sel])
        if norm1(ex.get('its', [])) != want:
            return (f'iterating tractogram{d["steps"]}.to_world(lazy=True) (what save writes) yields '
                    f'{str(norm1(ex.get("its", [])))[:200]} but the selected items are {str(want)[:200]}')
        return None
    if op in ('trk', 'trkh'):
        items = [tuple(i) for i in d['items']]
        ctx = ''
        if d.get('build'):
            ctx += f' [tractogram built as {d["build"]!r}]'
        if d.get('sup'):
            ctx += (f' [header handed to save: {d["sup"]["mode"]}, carrying scalar_name={[bytes(f) for f in d["sup"]["sf"]]} '
                    f'property_name={[bytes(f) for f in d["sup"]["pf"]]} counts {d["sup"]["ns"]}/{d["sup"]["np"]}/{d["sup"]["n"]}]')
        if out.startswith('SETUP-MISMATCH'):
            return 'TRK reference file for the supplied header: ' + out
        if out.startswith('ERR'):
            return f'TrkFile.save failed on a valid tractogram: {out}' + ctx
        if 'load=ERR' in out:
            return f'TrkFile.load failed on a saved tractogram: {out[-80:]}'
        want = [([tuple(canon_zero(w) for w in t) for t in it[0]], sorted((list(n), [list(r) for r in rows]) for n, rows in it[1]),
                 sorted((list(n), list(ws)) for n, ws in it[2])) for it in items]

        def norm(its):
            return [([tuple(t) for t in pts], sorted((list(n), [list(r) for r in rows]) for n, rows in a),
                     sorted((list(n), list(ws)) for n, ws in b)) for pts, a, b in its]
        got = norm(ex['loaded'])
        if got != want:
            return f'TRK eager load != saved tractogram: got {str(got)[:200]} want {str(want)[:200]}' + ctx
        junk = d['junk']
        if ex['pos_eager'] != junk:
            return f'TRK eager load from a file object at {junk} left it at {ex["pos_eager"]}'
        raw = ex['raw']
        f = io.BytesIO(raw)
        f.seek(junk)
        lz = TrkFile.load(f, lazy_load=True)
        pass  # CPython closes an unreferenced generator at once (refcount); no gc.collect() needed
        if f.tell() != junk:
            return f'TRK lazy load from a file object at {junk} left it at {f.tell()}'
        lt = lz.tractogram
        lsl = [np.asarray(x) for x in lt.streamlines]
        ldpp = {k: [np.asarray(x) for x in lt.data_per_point[k]] for k in lt.data_per_point}
        ldps = {k: [np.asarray(x) for x in lt.data_per_streamline[k]] for k in lt.data_per_streamline}
        if f.tell() != junk:
            return f'TRK lazy iteration left the file object at {f.tell()}, it was at {junk}'
        lazy_items = []
        for i, sl_ in enumerate(lsl):
            pts = [tuple(canon_zero(w) for w in row) for row in f32_to_bits(sl_)]
            a = [(list(k.encode('latin1')), [words_of(r) for r in v[i].reshape(len(pts), -1)]) for k, v in ldpp.items()]
            b = [(list(k.encode('latin1')), words_of(v[i])) for k, v in ldps.items()]
            lazy_items.append((pts, a, b))
        if norm(lazy_items) != want:
            return f'TRK lazy load != eager load: {str(norm(lazy_items))[:200]} want {str(want)[:200]}' + ctx
        sl2 = [[tuple(canon_zero(w) for w in row) for row in f32_to_bits(np.asarray(s))] for s in lz.streamlines]
        if sl2 != [w[0] for w in want] or f.tell() != junk:
            return f'TRK second lazy .streamlines pass differs or moved the file position ({f.tell()} vs {junk})'
        if items and (d['ins'] % 4 == 0) and junk == 0:
            import nibabel as nib
            with tempfile.TemporaryDirectory() as tmp:
                p = os.path.join(tmp, 'a.trk')
                nib.streamlines.save(build_tractogram(items, d['ins'], d.get('ras'), d.get('build')), p, header=case_header(d))
                for lazy in (False, True):
                    t = nib.streamlines.load(p, lazy_load=lazy).tractogram
                    if lazy:
                        t = Tractogram([np.asarray(s) for s in t.streamlines],
                                       data_per_point={k: list(v) for k, v in t.data_per_point.items()},
                                       data_per_streamline={k: list(v) for k, v in t.data_per_streamline.items()})
                    if norm(items_of_tractogram(t)) != want:
                        return f'TRK save/load by path (lazy={lazy}) differs from the saved tractogram' + ctx
        # iterating the lazily loaded tractogram itself (what a re-save does) must give the same RAS+mm items
        it_items = []
        for it in list(lz.tractogram):      # the items are KEPT first, converted afterwards
            pts = [tuple(canon_zero(w) for w in row) for row in f32_to_bits(np.asarray(it.streamline))]
            a = [(list(k.encode('latin1')), [words_of(r) for r in np.asarray(v).reshape(len(pts), -1)])
                 for k, v in it.data_for_points.items()]
            b = [(list(k.encode('latin1')), words_of(v)) for k, v in it.data_for_streamline.items()]
            it_items.append((pts, a, b))
        if f.tell() != junk:
            return f'TRK lazy item iteration left the file object at {f.tell()}, it was at {junk}'
        if norm(it_items) != want:
            return (f'LAZY-ITEMS: iterating the lazily loaded TRK tractogram yields items that differ from the eager ones '
                    f'(not brought to RAS+mm): {str(norm(it_items)[0][0])[:80]} want {str(want[0][0])[:80]}')
        if ex.get('lazy_items') is not None and norm(ex['lazy_items']) != want:
            return 'LAZY-ITEMS: item iteration of the lazy tractogram (impl pass) differs from the eager items'
        # re-saving the lazily loaded tractogram (TCK, and TRK with the default header) keeps the RAS+mm coordinates
        if items and d['ins'] % 3 == 0:
            import random as _random
            g2 = rand_geom(_random.Random(d['ins']))
            for cls, hdr2 in ((TckFile, None), (TrkFile, None), (TrkFile, geom_header(g2))):
                o = io.BytesIO()
                cls(lz.tractogram, header=hdr2).save(o)
                back = cls.load(io.BytesIO(o.getvalue())).streamlines
                got2 = [[tuple(canon_zero(w) for w in row) for row in f32_to_bits(np.asarray(s_))] for s_ in back]
                if got2 != [w[0] for w in want]:
                    return (f'RE-SAVE: lazily loaded TRK tractogram re-saved as {cls.__name__} '
                            f'({"same default" if hdr2 is None else "different"} header) reloads with different '
                            f'RAS+mm coordinates: {str(got2)[:120]} want {str([w[0] for w in want])[:120]}')
            if f.tell() != junk:
                return f'TRK re-save of the lazy tractogram left the source file object at {f.tell()}, it was at {junk}'
        return None
    if op == 'trkr':
        toks = out.split(' ') if out else []
        late = [t for t in toks if t.startswith('LATE-DIFF')]
        if late:
            return f'TRK reader: record number {late[0].split(":")[1]} yielded by the lazy reader changed after later reads'
        acts = d['acts']
        closed = 'c' in acts or any(t.startswith('n:stop') or t.startswith('n:ERR') for t in toks)
        if closed and ex.get('final') != d['start']:
            return f'TRK reader left the file object at {ex.get("final")}, it was at {d["start"]} (history {acts})'
        if toks and closed and int(toks[-1].rsplit('@', 1)[1]) != d['start']:
            return f'TRK reader: position after the generator ended is not the start {d["start"]} (history {acts}): {toks[-1]}'
        return None
    if op == 'trkb':
        if d['cut'] is not None or d['hs_swapped'] or d['hdr_size'] != 1000 or d['version'] not in (1, 2, 3) or not d.get('valid'):
            return None
        if not out.startswith('e=%s ' % d['e']):
            return f'TRK header written in byte order {d["e"]} with hdr_size 1000 is read as: {out[:60]}'
        if not out.endswith('end=ok'):
            return f'TRK reader failed on a valid {d["e"]} file: {out[-60:]}'
        if ex.get('final') != 0:
            return f'TRK reader left the file object at {ex.get("final")}, it was at 0'
        # independent decode of the records; public loads of the file in BOTH byte orders must give it
        ns, np_ = d['ns'], d['np']
        ws = d['words']
        if not ws and (ns or np_):
            # a hand-made header announcing scalars/properties with NO record: `save` never writes this (an empty
            # tractogram is saved with both counts 0), so it is outside C16; observed: the eager load raises
            # IndexError (`properties[:, slice_]` on a 1-D empty array) while the lazy load succeeds
            return None
        i, ref = 0, []
        while i < len(ws):
            m = ws[i]
            rows = [ws[i + 1 + r * (3 + ns): i + 1 + (r + 1) * (3 + ns)] for r in range(m)]
            i += 1 + m * (3 + ns)
            ref.append(([np.array(r_[:3], '<u4').view('<f4').astype(float) - 0.5 for r_ in rows],
                        [r_[3:] for r_ in rows], ws[i:i + np_]))
            i += np_
        for e2 in (d['e'], '<' if d['e'] == '>' else '>'):
            raw2 = trkb_bytes(dict(d, e=e2))
            for lazy in (False, True):
                try:
                    tf = TrkFile.load(io.BytesIO(raw2), lazy_load=lazy)
                    sls = [np.asarray(x, dtype=float) for x in tf.streamlines]
                    tr = tf.tractogram
                    dpp = {k: [np.asarray(x) for x in tr.data_per_point[k]] for k in tr.data_per_point}
                    dps = {k: [np.asarray(x) for x in tr.data_per_streamline[k]] for k in tr.data_per_streamline}
                except Exception as e:  # noqa: BLE001
                    return f'TRK load (lazy={lazy}) of a valid file in byte order {e2} raised {e!r}'
                if len(sls) != len(ref):
                    return f'TRK load (lazy={lazy}, byte order {e2}) returns {len(sls)} streamlines, file holds {len(ref)}'
                for j, (pts, scal, props) in enumerate(ref):
                    if sls[j].shape != (len(pts), 3) or not np.array_equal(sls[j], np.array(pts).reshape(-1, 3)):
                        return f'TRK load (lazy={lazy}, byte order {e2}): streamline {j} = {sls[j].tolist()} want {[list(p_) for p_ in pts]}'
                    if ns:
                        got = np.concatenate([np.asarray(dpp[k][j]).reshape(len(pts), -1) for k in dpp], axis=1)
                        if [words_of(r_) for r_ in got] != [list(r_) for r_ in scal]:
                            return f'TRK load (lazy={lazy}, byte order {e2}): per-point data of streamline {j} differ'
                    if np_:
                        got = np.concatenate([np.asarray(dps[k][j]).ravel() for k in dps])
                        if words_of(got) != list(props):
                            return f'TRK load (lazy={lazy}, byte order {e2}): per-streamline data of streamline {j} differ'
        return None
    if op == 'hdrp':
        if not out.startswith('ERR') and ex.get('pos') != min(3, len(d['raw'])):
            return f'TckFile._read_header moved the file position to {ex.get("pos")}'
        return None
    if op == 'lzaff':
        if d['R'] is None:
            return None
        R0 = aff_matrix(d['R'])
        raw = bits_to_f32([w for t in d['sl'] for w in t]).astype(float)
        world = raw @ R0[:3, :3].T + R0[:3, 3]
        for k, (P, R, sls) in enumerate(ex.get('states', [])):
            if R is None:
                return f'affine_to_rasmm became None after step {k}'
            got = sls[0] @ R[:3, :3].T + R[:3, 3]
            if not np.array_equal(got, world):
                return (f'after step {k} of {d["ops"]} ({d["mode"]}) affine_to_rasmm·streamlines = {got.tolist()} '
                        f'but the RAS+mm coordinates were {world.tolist()}')
            if P is not None and not np.array_equal(R @ P, R0):
                return f'after step {k}: affine_to_rasmm · _affine_to_apply = {(R @ P).tolist()} != initial affine_to_rasmm'
        if 'ERR' in out.split(' pts=')[0]:
            return f'to_world/apply_affine raised although affine_to_rasmm was given: {out[:80]}'
        wbits = [tuple(canon_zero(w) for w in row) for row in f32_to_bits(world.astype('<f4'))]
        for name, (back, lback) in ex.get('resaved', {}).items():
            for lab, b_ in (('eager', back), ('lazy', lback)):
                if b_ != [wbits]:
                    return (f'RE-SAVE: tractogram with pending affines ({d["mode"]}, {d["ops"]}) re-saved as {name} '
                            f'({lab} load) gives {str(b_)[:120]}, RAS+mm coordinates were {wbits}')
        for name in ('trk', 'tck'):
            if name + '=ERR' in out:
                return f'{name} save of a tractogram with a known space raised: {out[-60:]}'
        return None
    if op == 'bigtck':
        return oracle_bigtck(d)
    if op == 'general':
        return oracle_general(d)
    return None


def mk_bigtck(d):
    return mk('bigtck', None, d, ('bigtck', repr(sorted(d.items()))), 'bigtck')


def oracle_bigtck(d):
    """TCK files LARGER than the default 4 MB read buffer through the public API (path and file object):
    later buffers start mid-streamline and hold many delimiters; `edge` places a delimiter exactly at /
    next to the first buffer boundary"""
    import nibabel as nib
    tck, trk, Tractogram = _nib()
    rs = np.random.RandomState(d['seed'])
    rows_per_buf = (4 * 1048576 + (12 - (4 * 1048576) % 12)) // 12
    target = int(rows_per_buf * d['bufs']) + d['edge']
    lens, tot = [], 0
    while tot < target:
        m = int(rs.randint(1, d['mmax'] + 1))
        if tot + m + 1 > target:
            m = target - tot - 1
            if m < 1:
                break
        lens.append(m)
        tot += m + 1
    lens += [int(x) for x in rs.randint(1, d['mmax'] + 1, size=d['extra'])]
    allpts = (rs.randn(sum(lens), 3) * 40).astype('<f4')
    cuts = np.cumsum(lens)[:-1]
    sls = np.split(allpts, cuts)
    t = Tractogram(sls, affine_to_rasmm=np.eye(4))
    with tempfile.TemporaryDirectory() as tmp:
        p = os.path.join(tmp, 'big.tck')
        nib.streamlines.save(t, p)
        if os.path.getsize(p) <= 4 * 1048576 * d['bufs'] * 0.99:
            return 'bigtck generator: file smaller than intended'
        variants = []
        for lazy in (False, True):
            variants.append(('path lazy=%s' % lazy, lambda lazy=lazy: nib.streamlines.load(p, lazy_load=lazy), None))
        fh = open(p, 'rb')
        try:
            fh.seek(5)
            variants.append(('fileobj eager', lambda: tck.TckFile.load(fh), fh))
            variants.append(('fileobj lazy', lambda: tck.TckFile.load(fh, lazy_load=True), fh))
            for label, fn, fobj in variants:
                try:
                    tf = fn()
                    n = 0
                    off = 0
                    # lazily loaded streamlines are COLLECTED first (a consumer that keeps the arrays), then compared
                    for got in (list(tf.streamlines) if label in ('path lazy=True', 'fileobj lazy') else tf.streamlines):
                        got = np.asarray(got)
                        if n >= len(lens):
                            return f'big TCK ({label}): more streamlines than the {len(lens)} saved'
                        want = allpts[off:off + lens[n]]
                        if got.shape != want.shape or not np.array_equal(got.view('<u4'), want.view('<u4')):
                            return (f'big TCK ({label}): streamline {n} (rows {off}..{off + lens[n]} of the data, '
                                    f'buffer holds {rows_per_buf} rows) differs from the saved one')
                        off += lens[n]
                        n += 1
                    if n != len(lens):
                        return f'big TCK ({label}): {n} streamlines loaded, {len(lens)} saved'
                except Exception as e:  # noqa: BLE001
                    return f'big TCK ({label}) raised {e!r}'
                if fobj is not None and fobj.tell() != 5:
                    return f'big TCK ({label}) left the file object at {fobj.tell()}, it was at 5'
        finally:
            fh.close()
    return None


def oracle_general(d):
    tck, trk, Tractogram = _nib()
    import random
    r = random.Random(d['seed'])
    rs = np.random.RandomState(d['seed'] % (2 ** 31))
    n = d['n']
    sls = [(rs.randn(r.randint(1, d['m']), 3) * d['scale']).astype('f4') for _ in range(n)]
    cls = tck.TckFile if d['fmt'] == 'tck' else trk.TrkFile
    dpp = dps = None
    hdr = {}
    if d['fmt'] == 'trk':
        from nibabel.streamlines.header import Field
        if d['k'] and n:
            dpp = {'fa': [rs.rand(len(s), d['k']).astype('f4') for s in sls]}
            dps = {'mean': [rs.rand(d['k']).astype('f4') for _ in sls], 'id': [rs.rand(1).astype('f4') for _ in sls]}
        perm = list(range(3))
        r.shuffle(perm)
        A = np.zeros((4, 4))
        for j in range(3):
            A[perm[j], j] = r.choice([-1, 1]) * r.uniform(0.3, 3.0)
        if d['shear']:
            A[:3, :3] += rs.randn(3, 3) * 0.05
        A[:3, 3] = rs.randn(3) * 30
        A[3, 3] = 1
        hdr = {Field.VOXEL_ORDER: r.choice(ORDERS).encode(), Field.VOXEL_SIZES: [r.uniform(0.2, 4) for _ in range(3)],
               Field.DIMENSIONS: [r.randint(1, 200) for _ in range(3)], Field.VOXEL_TO_RASMM: A}
    else:
        hdr = tck_header_for(r.choice([51, 55, 60, 82, 83, 84, 85, 200]))
    t = Tractogram(sls, data_per_point=dpp, data_per_streamline=dps, affine_to_rasmm=np.eye(4))
    b = io.BytesIO()
    b.write(junk_bytes(d['junk'] if d['fmt'] == 'trk' else 0))
    start = b.tell()
    cls(t, header=hdr).save(b)
    raw = b.getvalue()
    pos0 = start if d['fmt'] == 'trk' else d['junk'] % (len(raw) + 1)
    outs = []
    for mb in ([None] if d['fmt'] == 'trk' else [None, 0, 5]):
        old = tck.MEGABYTE
        if mb is not None:
            tck.MEGABYTE = mb
        try:
            for label, sl, pos, tf in load_variants(cls, raw, pos0, BASIC_VARIANTS + ((True, 'items'),) if mb is None else ((False, 'each'), (True, 'keep'))):
                if isinstance(sl, Exception):
                    return f'{d["fmt"]} {label} load raised {sl!r}'
                if pos != (pos0, pos0):
                    return f'{d["fmt"]} {label} load from a file object at {pos0} left it at {pos}'
                arrs = [np.array(s, dtype='<u4').view('<f4') for s in sl]
                if len(arrs) != n:
                    return f'{d["fmt"]} {label} load returns {len(arrs)} streamlines, saved {n}'
                for got, want in zip(arrs, sls):
                    if got.shape != want.shape:
                        return f'{d["fmt"]} {label}: streamline shape {got.shape} != {want.shape}'
                    if d['fmt'] == 'tck':
                        if not np.array_equal(got.view('<u4'), want.view('<u4')):
                            return f'TCK {label} load is not bit-exact'
                    elif not np.allclose(got, want, rtol=1e-4, atol=1e-3 * max(1.0, d['scale'])):
                        return f'TRK {label} load differs beyond single precision: {got[:2]} vs {want[:2]}'
                if d['fmt'] == 'trk' and dpp and label == 'eager':
                    tr = tf.tractogram
                    if sorted(tr.data_per_point.keys()) != ['fa'] or sorted(tr.data_per_streamline.keys()) != ['id', 'mean']:
                        return f'TRK data names differ: {list(tr.data_per_point.keys())} {list(tr.data_per_streamline.keys())}'
                    for i in range(n):
                        if not np.array_equal(np.asarray(tr.data_per_point['fa'][i]), dpp['fa'][i]) or \
                                not np.array_equal(np.asarray(tr.data_per_streamline['mean'][i]), dps['mean'][i]) or \
                                not np.array_equal(np.asarray(tr.data_per_streamline['id'][i]), dps['id'][i]):
                            return 'TRK per-point / per-streamline data differ after the round trip'
                outs.append(sl)
        finally:
            tck.MEGABYTE = old
    for o in outs[1:]:
        if d['fmt'] == 'tck':
            if o != outs[0]:
                return 'tck: lazy/eager or buffer-size variants disagree'
        else:   # lazy TRK applies the affine in float64 per streamline, eager in float32 on the whole buffer
            for x, y in zip(o, outs[0]):
                xa, ya = np.array(x, dtype='<u4').view('<f4'), np.array(y, dtype='<u4').view('<f4')
                if xa.shape != ya.shape or not np.allclose(xa, ya, rtol=1e-4, atol=1e-3 * max(1.0, d['scale'])):
                    return 'trk: lazy and eager loads disagree beyond single precision'
    return None


def signature(case, what):
    d = case.data
    if what.startswith('LAZY-ITEMS'):
        return 'trk:lazy-items-space'
    if what.startswith('RE-SAVE'):
        return 'trk:lazy-resave'
    w = what.lower()
    if 'left it at' in w or 'left the file' in w or 'position' in w:
        return d['op'] + ':position'
    if 'offset' in w:
        return d['op'] + ':offset'
    if 'buffer' in w:
        return d['op'] + ':buffer'
    if 'lazy' in w:
        return d['op'] + ':lazy'
    return d['op'] + ':other'


def shrink_candidates(case):
    d = case.data
    op = d['op']
    if op == 'tckw':
        sls = d['sls']
        for i in range(len(sls)):
            yield mk_tckw(d['L'], sls[:i] + sls[i + 1:], d.get('ras'), d.get('build'), d.get('bseed', 0), d.get('hsrc'))
        for i, s in enumerate(sls):
            if len(s) > 1:
                yield mk_tckw(d['L'], sls[:i] + [s[:-1]] + sls[i + 1:], d.get('ras'), d.get('build'), d.get('bseed', 0), d.get('hsrc'))
        if d['L'] != 51:
            yield mk_tckw(51, sls, d.get('ras'), d.get('build'), d.get('bseed', 0), d.get('hsrc'))
        if d.get('build') or d.get('hsrc') or d.get('ras'):
            yield mk_tckw(d['L'], sls)
    elif op == 'tckr':
        data = d['data']
        if len(d['acts']) > 1:
            yield mk_tckr(d['off'], d['req'], d['ragged'], d['start'], d['acts'][:-1], data)
        for i in range(len(data)):
            yield mk_tckr(d['off'], d['req'], d['ragged'], d['start'], d['acts'], data[:i] + data[i + 1:])
        if d['start']:
            yield mk_tckr(d['off'], d['req'], d['ragged'], 0, d['acts'], data)
    elif op == 'trk':
        items = [tuple(i) for i in d['items']]
        for i in range(len(items)):
            if len(items) > 1:
                yield mk_trk(d['g'], items[:i] + items[i + 1:], d['junk'], d['ins'], d.get('ras'), d.get('build'))
        if d['junk']:
            yield mk_trk(d['g'], items, 0, d['ins'], d.get('ras'), d.get('build'))
        if any(it[1] or it[2] for it in items):
            yield mk_trk(d['g'], [(it[0], [], []) for it in items], d['junk'], d['ins'], d.get('ras'), d.get('build'))
        for i, it in enumerate(items):
            if len(it[0]) > 1:
                it2 = (it[0][:-1], [(n, rows[:-1]) for n, rows in it[1]], it[2])
                yield mk_trk(d['g'], items[:i] + [it2] + items[i + 1:], d['junk'], d['ins'], d.get('ras'), d.get('build'))
    elif op == 'trkh':
        items = [tuple(i) for i in d['items']]
        for i in range(len(items)):
            if len(items) > 1:
                yield mk_trkh(d['g'], items[:i] + items[i + 1:], d['junk'], d['ins'], d['sup'], d.get('build'))
        if d['junk'] or d.get('build'):
            yield mk_trkh(d['g'], items, 0, d['ins'], d['sup'], None)
        for i, it in enumerate(items):
            if len(it[0]) > 1:
                it2 = (it[0][:-1], [(n, rows[:-1]) for n, rows in it[1]], it[2])
                yield mk_trkh(d['g'], items[:i] + [it2] + items[i + 1:], d['junk'], d['ins'], d['sup'], d.get('build'))
    elif op == 'view':
        if len(d['steps']) > 1:
            yield mk_view(d['L'], d['sls'], d['steps'][:-1])
            if resolve_step(len(d['sls']), d['steps'][0]) is None:
                yield mk_view(d['L'], d['sls'], d['steps'][1:])
        for i, s_ in enumerate(d['sls']):
            if len(s_) > 1:
                yield mk_view(d['L'], d['sls'][:i] + [s_[:-1]] + d['sls'][i + 1:], d['steps'])
    elif op == 'trkr':
        if len(d['acts']) > 1:
            yield mk_trkr(d['ns'], d['np'], d['announced'], d['junk'], d['start'], d['acts'][:-1], d['words'])
        if d['junk']:
            yield mk_trkr(d['ns'], d['np'], d['announced'], 0, max(0, d['start'] - d['junk']), d['acts'], d['words'])


# ------------------------------------------------------------------ generators

def rand_point(rng, lim=64):
    return [qbits(rng.randint(-4 * lim, 4 * lim)) for _ in range(3)]


def rand_word(rng):
    """random float32 bit pattern that is not a NaN (NaN payloads are not preserved by float64 round trips)"""
    w = rng.getrandbits(32)
    if (w & 0x7F800000) == 0x7F800000 and (w & 0x7FFFFF):
        w &= 0xFF800000
    return w


def rand_sls(rng, nmax, mmax):
    return [[rand_point(rng) for _ in range(rng.randint(1, mmax))] for _ in range(rng.randint(0, nmax))]


def rand_geom(rng, simple=False):
    perm = list(range(3))
    rng.shuffle(perm)
    zooms = [rng.choice([Fraction(1, 2), 1, 2, 4]) * rng.choice([-1, 1]) for _ in range(3)]
    m = [[Fraction(0)] * 3 for _ in range(3)]
    for j in range(3):
        m[perm[j]][j] = Fraction(zooms[j])
    tr = [Fraction(rng.randint(-256, 256), 4) for _ in range(3)]
    order = rng.choice(ORDERS)
    if rng.random() < 0.1:
        order = order.lower()
    g = {'order': order, 'vs': [enc_frac(rng.choice([Fraction(1, 4), Fraction(1, 2), 1, 2, 4])) for _ in range(3)],
         'dims': [rng.randint(1, 64) for _ in range(3)],
         'aff': [enc_frac(m[i][j]) for i in range(3) for j in range(3)] + [enc_frac(x) for x in tr]}
    if simple:
        g = {'order': 'RAS', 'vs': ['1', '1', '1'], 'dims': [1, 1, 1],
             'aff': ['1', '0', '0', '0', '1', '0', '0', '0', '1', '0', '0', '0']}
    return g


NAME_ALPHA = [ord(c) for c in 'abcxyzFA_09 -'] + [233, 255]


def rand_name(rng, maxlen=8):
    return [rng.choice(NAME_ALPHA) for _ in range(rng.randint(1, maxlen))]


def rand_items(rng, nmax, mmax, kmax):
    n = rng.randint(0, nmax)
    npp = rng.choice([0, 0, 1, 2, 3])
    nps = rng.choice([0, 0, 1, 2, 3])
    pnames = sorted({tuple(rand_name(rng)) for _ in range(npp)})
    snames = sorted({tuple(rand_name(rng)) for _ in range(nps)})
    pk = [rng.randint(1, kmax) for _ in pnames]
    sk = [rng.randint(1, kmax) for _ in snames]
    items = []
    for _ in range(n):
        m = rng.randint(1, mmax)
        pts = [rand_point(rng, 32) for _ in range(m)]
        dpp = [(list(nm), [[rand_word(rng) if rng.random() < 0.2 else qbits(rng.randint(-99, 99)) for _ in range(k)]
                           for _ in range(m)]) for nm, k in zip(pnames, pk)]
        dps = [(list(nm), [qbits(rng.randint(-99, 99)) for _ in range(k)]) for nm, k in zip(snames, sk)]
        items.append((pts, dpp, dps))
    return items


def rand_items_with(rng, pcols, scols, n, mmax):
    """n items with the given (name, k) per-point / per-streamline schema (sorted by name)"""
    pcols, scols = sorted((tuple(a), k) for a, k in pcols), sorted((tuple(a), k) for a, k in scols)
    items = []
    for _ in range(n):
        m = rng.randint(1, mmax)
        pts = [rand_point(rng, 32) for _ in range(m)]
        dpp = [(list(nm), [[qbits(rng.randint(-99, 99)) for _ in range(k)] for _ in range(m)]) for nm, k in pcols]
        dps = [(list(nm), [qbits(rng.randint(-99, 99)) for _ in range(k)]) for nm, k in scols]
        items.append((pts, dpp, dps))
    return items


def rand_view_steps(rng, n):
    """a history of view-producing steps on a sequence of n elements"""
    steps, cur = [], n
    for _ in range(rng.choice([1, 1, 2, 2, 3])):
        r = rng.random()
        if r < 0.12:
            steps.append(['seqcopy'])
            continue
        if r < 0.17:
            steps.append(['deepcopy'])
            continue
        if cur == 0:
            break
        k = rng.choice(['rev', 'perm', 'perm', 'sub', 'slice', 'mask', 'range', 'dup', 'neg'])
        if k == 'rev':
            st = ['slice', None, None, -1]
        elif k == 'perm':
            p = list(range(cur))
            rng.shuffle(p)
            st = [rng.choice(['list', 'nd']), p]
        elif k == 'sub':
            st = [rng.choice(['list', 'nd']), [rng.randrange(cur) for _ in range(rng.randint(1, cur))]]
        elif k == 'dup':
            st = ['list', [rng.randrange(cur) for _ in range(cur + rng.randint(0, 2))]]
        elif k == 'neg':
            st = ['list', [-1 - i for i in range(cur)]]
        elif k == 'slice':
            st = ['slice', rng.choice([None, 0, 1, -2]), rng.choice([None, cur, -1, cur - 1]), rng.choice([None, 1, 2, -1, -2])]
        elif k == 'range':
            st = ['range', cur - 1, -1, -1] if rng.random() < 0.5 else ['range', 0, cur, 2]
        else:
            st = ['mask', [rng.random() < 0.6 for _ in range(cur)]]
        steps.append(st)
        cur = len(resolve_step(cur, st))
    return steps


def rand_sup(rng, pool, g, ins):
    """a header that already carries counts and name tables, and the items it is used for"""
    def cols(prob):
        return [(nm, rng.choice([1, 1, 2, 3])) for nm in pool if rng.random() < prob]
    mode = rng.choice(['loaded', 'loaded', 'loaded-lazy', 'loaded+geom', 'dict', 'dict'])
    sup = {'mode': mode}
    if mode == 'dict':
        def table():
            fs = schema_fields(cols(0.6))
            rng.shuffle(fs)
            if fs and rng.random() < 0.3:
                fs.insert(rng.randrange(len(fs)), [])                     # an empty slot before a name
            if rng.random() < 0.2:
                fs += [[]] * rng.randint(1, 3) + [list(rng.choice(pool))]   # a name far behind
            return fs[:10]
        sup.update(sf=table(), pf=table(), ns=rng.choice([0, 1, 3, 7]), np=rng.choice([0, 1, 2, 5]), n=rng.choice([0, 2, 99]))
    else:
        pA, sA = cols(0.6), cols(0.6)
        itemsA = rand_items_with(rng, pA, sA, rng.choice([0, 1, 2, 3]), 3)
        pA, sA = items_schema(itemsA)
        sup.update(itemsA=itemsA, sf=schema_fields(pA), pf=schema_fields(sA), ns=sum(k for _, k in pA), np=sum(k for _, k in sA),
                   n=len(itemsA))
        if mode == 'loaded+geom':
            sup['gA'] = rand_geom(rng)
    return sup


def digit_boundary_lengths(upto):
    """header text lengths L whose offset N = L + 14 + digits crosses 10^k (window of +-4 around each)"""
    out = []
    k = 2
    while 10 ** k <= upto:
        base = 10 ** k - 14 - k
        out.extend(range(base - 5, base + 6))
        k += 1
    return [L for L in out if L == 51 or L >= 55]


def rand_aff12(rng):
    """signed permutation x zoom in {1/2,1,2} + quarter-unit translation, as aff12 strings: these (and their
    products) are inverted EXACTLY by np.linalg.inv, so the stream is exact (sheared matrices are not)"""
    perm = list(range(3))
    rng.shuffle(perm)
    m = [[Fraction(0)] * 3 for _ in range(3)]
    for j in range(3):
        m[perm[j]][j] = Fraction(rng.choice([Fraction(1, 2), 1, 2])) * rng.choice([-1, 1])
    tr = [Fraction(rng.randint(-32, 32), 4) for _ in range(3)]
    return [enc_frac(m[i][j]) for i in range(3) for j in range(3)] + [enc_frac(x) for x in tr]


HDR_LINES = [b'p: xxx', b'  spaced key :  value  ', b'continuation line', b'', b'   ', b'a:b:c', b': v', b'key:', b'END ', b'\tEND',
             b'ENDX', b'end', b'file: . 77', b'file: x 12', b'file: .', b'file: . 12a', b'file:', b'file : . 5', b' file: . 0060 trailing',
             b'FILE: . 9', b'datatype: Float32LE', b'count: 0000000001', b'q:\x0b. 9\x0c', b'p:\x1c1\x1f', b'file: .\t31', b'roi: 1 2 3',
             b'file', b'file . 3']


def rand_tck_header_bytes(rng, i):
    """header texts for the TCK header parser: the writer's shape plus adversarial lines (early END, earlier /
    repeated `file` entries, continuation lines, odd white space, missing END, wrong magic)"""
    lines = [b'count: 0000000002', b'datatype: Float32LE']
    if i % 17 == 0:
        lines = []
    for _ in range(rng.choice([0, 0, 1, 2, 3, 5])):
        lines.insert(rng.randint(0, len(lines)), rng.choice(HDR_LINES))
    body = b'\n'.join(lines)
    magic = b'mrtrix tracks' if i % 23 else rng.choice([b'mrtrix track', b'Mrtrix tracks', b''])
    head = magic + (b'\n' if i % 29 else b'X') + body
    n = len(head) + 14 + len(str(len(head) + 14 + len(str(len(head) + 14))))
    r = i % 13
    if r == 0:
        tail = b'\nfile: . %d' % n                      # no END
    elif r == 1:
        tail = b'\nEND\n'                               # no file entry: the reader guesses
    elif r == 2:
        tail = b'\nEND'                                 # no file entry, END is the last line without newline
    elif r == 3:
        tail = b'\nfile: . %d\nEND' % n
    elif r == 4:
        tail = b'\nfile: . %d\n\n  END  \nfile: . 3\n' % n
    else:
        tail = b'\nfile: . %d\nEND\n' % n
    data = rng.choice([b'', b'\x00' * 12, b'\nEND\nfile: . 1\n', b'abc\ndef'])
    return head + tail + data


ACTS = ['n', 'c', 'nc', 'nn', 'nnc', 'ncn', 'nnnc', 'cn', 'nnnnnnnnnnnn', 'nnnnnnnnnnnnnnnnnnnnnnnnc', 'ncc']


def rand_tck_data(rng, malformed):
    nan, inf = tck_nan(), tck_inf()
    sls = rand_sls(rng, 4, 4)
    data = []
    for s in sls:
        data.extend(s)
        data.append([nan] * 3)
        if malformed and rng.random() < 0.2:
            data.append([nan, nan | rng.randint(1, 1000), nan | 0x80000000])     # second delimiter (other NaN payloads/sign)
    data.append([inf] * 3)
    if malformed:
        r = rng.random()
        if r < 0.15:
            data.pop()                                   # no EOF marker
        elif r < 0.3:
            data[-1] = [inf | 0x80000000] * 3            # -inf marker
        elif r < 0.4:
            data[-1] = [inf, inf, qbits(4)]              # not all inf
        elif r < 0.5:
            data.append([inf] * 3)                       # two markers
        elif r < 0.6 and len(data) > 2:
            i = rng.randrange(len(data) - 1)
            data[i] = [nan, data[i][1], data[i][2]]      # partial NaN point (not a delimiter)
        elif r < 0.7 and len(data) > 2:
            data.insert(rng.randrange(len(data)), [inf] * 3)   # inf point inside
        elif r < 0.8 and len(data) > 1:
            del data[rng.randrange(len(data)):]          # cut
    return data


def cases(rng, tier):
    out = []
    big = tier != 'quick'
    # ---- header offset arithmetic: every length in a range + every digit boundary
    for L in [51] + list(range(55, 1300 if big else 400)):
        out.append(mk_off(L))
    for L in digit_boundary_lengths(10 ** 6 if big else 10 ** 5):
        out.append(mk_off(L))
    # ---- buffer size
    for req in list(range(0, 41)) + [rng.randrange(0, 5000) for _ in range(20)]:
        out.append(mk_buf(req, 'arg'))
    for mb in [0, 1, 2, 3, 5, 6, 7, 12, 25]:
        out.append(mk_buf(4 * mb, 'global'))
    # ---- TCK write (+ public loads in the oracle)
    bl = digit_boundary_lengths(10 ** 4)
    for i in range({'quick': 500, 'thorough': 6000, 'search': 1000}[tier]):
        L = rng.choice(bl) if i % 2 else rng.choice([51, 55, 56, 70, 90, 300])
        out.append(mk_tckw(L, rand_sls(rng, 4 if i % 4 else 7, 5), rand_aff12(rng) if i % 3 == 0 else None,
                           rng.choice(BUILDS) if i % 2 == 0 else None, rng.randrange(1 << 16), 'loaded' if i % 5 == 0 else None))
    out.append(mk_tckw(51, []))
    out.append(mk_tckw(51, [], None, None, 0, 'loaded'))
    # ---- ArraySequence views handed to save: histories of slice / list / integer-array / mask / range indexing and copies
    for i in range({'quick': 500, 'thorough': 4000, 'search': 1000}[tier]):
        sls = rand_sls(rng, 6, 4)
        out.append(mk_view(rng.choice([51, 55, 70, 84, 85]), sls, rand_view_steps(rng, len(sls))))
    # ---- TCK file at byte level (whole file bytes compared with the model's, then read back)
    for i in range({'quick': 300, 'thorough': 4000, 'search': 600}[tier]):
        L = rng.choice([51, 55, 56, 60, 79, 80, 81, 82, 83, 84, 85, 86, 90, 120]) if i % 4 else rng.choice([977, 981, 982, 983, 984])
        out.append(mk_tckf(L, rng.choice([0, 0, 12, 13, 30, 100, 5000]), rand_sls(rng, 3, 4)))
    # ---- TCK chunked reader, consumer histories, positions
    for i in range({'quick': 5000, 'thorough': 60000, 'search': 8000}[tier]):
        data = rand_tck_data(rng, malformed=(i % 3 == 0))
        req = rng.choice([0, 0, 5, 12, 13, 24, 30, 47, 60, 96, 1000])
        ragged = rng.choice([1, 3, 4, 8, 11]) if i % 11 == 0 else 0
        off = rng.choice([90, 99, 100, 101, 128, 1000])
        flen = off + 12 * len(data) + ragged
        start = rng.choice([0, 0, 5, off, flen, flen + 3, rng.randrange(0, flen + 1)])
        acts = rng.choice(ACTS) if i % 2 else 'n' * (len(data) + 2)
        out.append(mk_tckr(off, req, ragged, start, acts, data))
    # ---- name codec
    for k in [0, 1, 2, 3, 9, 10, 11, 99, 100, 12345]:
        for ln in [0, 1, 2, 16, 17, 18, 19, 20, 21]:
            out.append(mk_nameenc(k, [97 + (i % 26) for i in range(ln)]))
    for _ in range(200 if not big else 2000):
        out.append(mk_nameenc(rng.choice([1, 1, 2, 3, 7, 10, 33, 100, 4096]), rand_name(rng, 21) if rng.random() < .9 else []))
    for enc in ([], [0], [0, 0], [97], [97, 0], [97, 0, 50], [97, 0, 50, 0, 0], [97, 0, 120], [97, 0, 98, 0, 99], [0, 51],
                [97, 0, 49, 48], [97, 98, 0, 48], [97, 0, 0, 50]):
        out.append(mk_namedec(enc))
    for _ in range(100 if not big else 1000):
        enc = [rng.choice([0, 0, 48, 49, 50, 57, 97, 98]) for _ in range(rng.randint(0, 8))]
        out.append(mk_namedec(enc))
    # ---- name table -> column slices (through a real load of a crafted file)
    for _ in range({'quick': 300, 'thorough': 4000, 'search': 600}[tier]):
        fields, tot = [], 0
        for _ in range(rng.randint(0, 5)):
            nm = rand_name(rng, 6) if rng.random() < 0.85 else rng.choice([[97], [98]])
            k = rng.choice([1, 1, 2, 3, 12])
            r = rng.random()
            if r < 0.75:
                fields.append(nm + ([0] + [ord(ch) for ch in str(k)] if k > 1 else []))
                tot += k
            elif r < 0.85:
                fields.append([])                                   # unused field in the middle
            elif r < 0.9:
                fields.append(nm + [0] + [ord(ch) for ch in '0'])   # value 0: skipped
            elif r < 0.95:
                fields.append(nm + [0, 120])                        # int('x'): ValueError
            else:
                fields.append(nm + [0, 49, 0, 50])                  # two NULs: HeaderError
        nb = max(0, tot + rng.choice([0, 0, 0, 1, 2, -1]))
        if nb <= 40 and all(0 < len(f) <= 20 or not f for f in fields):
            out.append(mk_slices(nb, fields))
    # ---- composed affine
    for order in ORDERS:
        g = rand_geom(rng)
        g['order'] = order
        out.append(mk_aff(g))
    for _ in range({'quick': 1500, 'thorough': 20000, 'search': 3000}[tier]):
        out.append(mk_aff(rand_geom(rng)))
    # ---- whole TRK save/load
    for i in range({'quick': 1200, 'thorough': 15000, 'search': 2500}[tier]):
        g = rand_geom(rng, simple=(i % 10 == 0))
        if i < 48:
            g['order'] = ORDERS[i]
        out.append(mk_trk(g, rand_items(rng, 4 if i % 4 else 7, 4, 3), rng.choice([0, 0, 7, 1000, 4099]), rng.randrange(1 << 16),
                          rand_aff12(rng) if i % 3 == 1 else None, rng.choice(BUILDS) if i % 2 == 0 else None))
    # ---- what save iterates over for a tractogram WITH named data after a history of indexing steps
    for i in range({'quick': 400, 'thorough': 3000, 'search': 800}[tier]):
        pool = sorted({tuple(rand_name(rng, 5)) for _ in range(3)})
        pc = [(list(nm), rng.choice([1, 2])) for nm in pool if rng.random() < 0.5]
        sc = [(list(nm), rng.choice([1, 2, 3])) for nm in pool if rng.random() < 0.5]
        its = rand_items_with(rng, pc, sc, rng.randint(0, 6), 4)
        out.append(mk_tview(its, rand_view_steps(rng, len(its)), rng.randrange(1 << 16)))
    # ---- TRK save under a header that ALREADY carries counts and name tables (header of a loaded file with more /
    #      fewer / other / the same named arrays, or a hand-made dict), crossed with how the tractogram was built
    for i in range({'quick': 600, 'thorough': 5000, 'search': 1200}[tier]):
        g = rand_geom(rng, simple=(i % 10 == 0))
        pool = sorted({tuple(rand_name(rng, 6)) for _ in range(4)})
        ins = rng.randrange(1 << 16)
        sup = rand_sup(rng, [list(x) for x in pool], g, ins)
        pB = [(list(nm), rng.choice([1, 1, 2, 3])) for nm in pool if rng.random() < 0.45]
        sB = [(list(nm), rng.choice([1, 1, 2, 3])) for nm in pool if rng.random() < 0.45]
        items = rand_items_with(rng, pB, sB, rng.choice([0, 1, 2, 3, 4]), 3)
        out.append(mk_trkh(g, items, rng.choice([0, 0, 7, 1000]), ins, sup, rng.choice(BUILDS) if i % 3 == 0 else None))
    # ---- TRK record reader, histories, positions, count mismatches
    for i in range({'quick': 3000, 'thorough': 40000, 'search': 6000}[tier]):
        ns, np_ = rng.choice([0, 0, 1, 2]), rng.choice([0, 0, 1, 3])
        recs = []
        for _ in range(rng.randint(0, 4)):
            m = rng.randint(1, 3)
            recs.append([m] + [rng.getrandbits(31) for _ in range(m * (3 + ns) + np_)])
        words = [w for rc in recs for w in rc]
        announced = rng.choice([len(recs), len(recs), 0, len(recs) + 1, max(0, len(recs) - 1)])
        if i % 7 == 0 and words:
            del words[rng.randrange(len(words)):]
        junk = rng.choice([0, 0, 9, 1000])
        flen = junk + 1000 + 4 * len(words)
        start = rng.choice([junk, junk, 0, flen, rng.randrange(0, flen + 1)])
        acts = rng.choice(ACTS) if i % 2 else 'n' * (len(recs) + 2)
        out.append(mk_trkr(ns, np_, announced, junk, start, acts, words))
    # ---- TCK chunked reader: data much larger than the buffer, buffers of >= 2 points that start
    #      mid-streamline and hold >= 2 delimiters (many short streamlines)
    for i in range({'quick': 1200, 'thorough': 15000, 'search': 2000}[tier]):
        nan, inf = tck_nan(), tck_inf()
        data = []
        for _ in range(rng.randint(5, 16)):
            data.extend(rand_point(rng) for _ in range(rng.randint(1, 3) if rng.random() < 0.85 else rng.randint(6, 14)))
            data.append([nan] * 3)
        data.append([inf] * 3)
        if i % 9 == 0:
            data.pop()
        req = rng.choice([13, 24, 30, 40, 47, 50, 60, 80, 96, 110])
        off = rng.choice([90, 100, 1000])
        flen = off + 12 * len(data)
        start = rng.choice([0, 0, 5, off, flen, rng.randrange(0, flen + 1)])
        acts = rng.choice(ACTS) if i % 3 == 0 else 'n' * (len(data) + 2)
        out.append(mk_tckr(off, req, 0, start, acts, data))
    # ---- TRK files in BOTH byte orders (hdr_size decides), versions, bad hdr_size, cuts
    for i in range({'quick': 500, 'thorough': 6000, 'search': 900}[tier]):
        ns, np_ = rng.choice([0, 0, 1, 2, 3]), rng.choice([0, 0, 1, 2])
        recs = []
        for _ in range(rng.randint(0, 3)):
            m = rng.randint(1, 3)
            rc = [m]
            for _ in range(m):
                rc += rand_point(rng) + [rand_word(rng) for _ in range(ns)]
            rc += [qbits(rng.randint(-99, 99)) for _ in range(np_)]
            recs.append(rc)
        words = [w for rc in recs for w in rc]
        sf, pf = [], []
        if ns and rng.random() < 0.5:
            sf = [[97], [98, 99]][:ns] if ns <= 2 and rng.random() < 0.5 else [[120, 0] + [ord(c) for c in str(ns)]] if ns > 1 else [[113]]
        if np_ and rng.random() < 0.5:
            pf = [[109]] if np_ == 1 else [[109, 0, 50]]
        d = {'e': rng.choice('<>'), 'ns': ns, 'np': np_, 'announced': rng.choice([len(recs), len(recs), 0]),
             'version': 2, 'hdr_size': 1000, 'hs_swapped': False, 'sf': sf, 'pf': pf, 'words': words, 'cut': None,
             'valid': True}
        r = i % 10
        if r == 0:
            d.update(version=rng.choice([1, 3, 0, 4, 33554432]), valid=False)
            d['valid'] = d['version'] in (1, 3)
        elif r == 1:
            d.update(hdr_size=rng.choice([0, 999, 1001, 3892510720, 1000 * 256]), valid=False)
        elif r == 2:
            d.update(hs_swapped=True, valid=False)
        elif r == 3:
            d.update(announced=rng.choice([len(recs) + 1, max(0, len(recs) - 1)]), valid=False)
        elif r == 4 and words:
            d.update(cut=1000 + 4 * rng.randrange(len(words)), valid=False)
        elif r == 5:
            d.update(cut=rng.choice([0, 6, 500, 996, 999]), valid=False)
        out.append(mk_trkb(d))
    # ---- TCK header PARSER (line-oriented) on adversarial header texts
    for i in range({'quick': 600, 'thorough': 8000, 'search': 1000}[tier]):
        out.append(mk_hdrp(rand_tck_header_bytes(rng, i)))
    # ---- pending affines: histories of apply_affine / to_world on Tractogram (eager) and LazyTractogram,
    #      affine_to_rasmm != identity (or unknown), then re-saved under a DIFFERENT TRK header and as TCK
    for i in range({'quick': 600, 'thorough': 8000, 'search': 1000}[tier]):
        R = rand_aff12(rng) if i % 12 else None
        ops = []
        for _ in range(rng.choice([0, 1, 1, 2, 2, 3])):
            ops.append(('w',) if rng.random() < 0.3 else ('a', rand_aff12(rng)))
        sl = [rand_point(rng, 8) for _ in range(rng.randint(1, 3))]
        out.append(mk_lzaff('l' if i % 3 else 'e', R, ops, rand_geom(rng, simple=(i % 7 == 0)), sl))
    # ---- TCK files larger than the 4 MB buffer through the public API (oracle only)
    if tier == 'quick':
        # edge != 0: the second buffer starts mid-streamline (non-empty leftover) and holds many delimiters
        for edge in (rng.choice([-1, -7, -40]), rng.choice([1, 2, 30])):
            out.append(mk_bigtck({'seed': rng.randrange(1 << 30), 'bufs': 1, 'edge': edge, 'mmax': rng.choice([100, 300]), 'extra': 40}))
    else:
        for edge in (-1, 0, 1, 7):
            out.append(mk_bigtck({'seed': rng.randrange(1 << 30), 'bufs': 1, 'edge': edge, 'mmax': rng.choice([3, 40, 300]), 'extra': 500}))
        out.append(mk_bigtck({'seed': rng.randrange(1 << 30), 'bufs': 2, 'edge': 0, 'mmax': 200, 'extra': 100}))
        out.append(mk_bigtck({'seed': rng.randrange(1 << 30), 'bufs': 2.5, 'edge': 3, 'mmax': 5, 'extra': 100}))
    # ---- general floating-point stream (oracle only)
    for i in range({'quick': 400, 'thorough': 6000, 'search': 1000}[tier]):
        out.append(mk_general({'seed': rng.randrange(1 << 30), 'fmt': 'tck' if i % 2 else 'trk', 'n': rng.randint(0, 5),
                               'm': rng.randint(1, 6), 'k': rng.choice([0, 1, 3]), 'scale': rng.choice([1.0, 50.0, 1e-3]),
                               'junk': rng.choice([0, 3, 1000]), 'shear': rng.random() < 0.3}))
    return out


# ------------------------------------------------------------------ regeneration (Leg T)

class _Untranslatable(Exception):
    pass


def _tr_expr(node, env):
    """translate a side-effect-free integer expression to Lean (Nat); `env` maps Python names to
    ('int', lean) or ('str', lean-expression-of-its-length)"""
    if isinstance(node, ast.Constant) and isinstance(node.value, int) and not isinstance(node.value, bool) \
            and node.value >= 0:
        return str(node.value)
    if isinstance(node, ast.Name):
        if node.id in env and env[node.id][0] == 'int':
            return env[node.id][1]
        raise _Untranslatable('unknown integer name ' + node.id)
    if isinstance(node, ast.BinOp):
        ops = {ast.Add: '+', ast.Mult: '*', ast.FloorDiv: '/', ast.Mod: '%'}
        if type(node.op) in ops:
            return '(%s %s %s)' % (_tr_expr(node.left, env), ops[type(node.op)], _tr_expr(node.right, env))
        if isinstance(node.op, ast.Sub):
            # only `y - (x % y)`, which cannot go below zero, is accepted (Nat subtraction truncates)
            r = node.right
            if isinstance(r, ast.BinOp) and isinstance(r.op, ast.Mod) and ast.dump(r.right) == ast.dump(node.left):
                return '(%s - %s)' % (_tr_expr(node.left, env), _tr_expr(r, env))
            raise _Untranslatable('subtraction that may be negative: ' + ast.unparse(node))
        raise _Untranslatable('operator ' + ast.unparse(node))
    if isinstance(node, ast.Call) and isinstance(node.func, ast.Name) and node.func.id == 'len' and len(node.args) == 1:
        return _tr_strlen(node.args[0], env)
    raise _Untranslatable(ast.unparse(node))


def _tr_strlen(node, env):
    if isinstance(node, ast.Name) and node.id in env and env[node.id][0] == 'str':
        return env[node.id][1]
    if isinstance(node, ast.JoinedStr):
        parts = []
        for v in node.values:
            if isinstance(v, ast.Constant) and isinstance(v.value, str):
                parts.append(str(len(v.value.encode())))
            elif isinstance(v, ast.FormattedValue) and v.conversion == -1 and v.format_spec is None:
                parts.append('decDigits %s' % _tr_expr(v.value, env))
            else:
                raise _Untranslatable('format spec in ' + ast.unparse(node))
        return '(' + ' + '.join(parts) + ')' if parts else '0'
    raise _Untranslatable('length of ' + ast.unparse(node))


def _find_func(tree, cls, name):
    for n in ast.walk(tree):
        if isinstance(n, ast.ClassDef) and n.name == cls:
            for m in n.body:
                if isinstance(m, ast.FunctionDef) and m.name == name:
                    return m
    raise _Untranslatable(f'{cls}.{name} not found')


def _straight_line(stmts, env, tracked, lets):
    """translate the assignments to `tracked` names in a straight-line statement list"""
    for st in stmts:
        if isinstance(st, ast.Assign) and len(st.targets) == 1 and isinstance(st.targets[0], ast.Name):
            nm = st.targets[0].id
            if nm not in tracked:
                continue
            if tracked[nm] == 'int':
                e = _tr_expr(st.value, env)
                lets.append(f'let {nm} := {e}')
                env[nm] = ('int', nm)
            else:
                e = _tr_strlen(st.value, env)
                lets.append(f'let {nm}_len := {e}')
                env[nm] = ('str', nm + '_len')
        elif isinstance(st, ast.AugAssign) and isinstance(st.target, ast.Name) and st.target.id in tracked:
            nm = st.target.id
            if not isinstance(st.op, ast.Add) or tracked[nm] != 'int':
                raise _Untranslatable(ast.unparse(st))
            e = _tr_expr(st.value, env)
            lets.append(f'let {nm} := {nm} + {e}')
        elif isinstance(st, (ast.If, ast.For, ast.While, ast.Try, ast.With)):
            # control flow is fine as long as it does not touch the tracked names
            for sub in ast.walk(st):
                if isinstance(sub, ast.Name) and isinstance(sub.ctx, ast.Store) and sub.id in tracked:
                    raise _Untranslatable('tracked name assigned under control flow: ' + sub.id)


def _seek_spec(fn):
    """(whence, in_finally) of the reader generator `fn` (an ast.FunctionDef): where is
    `f.seek(start_position, os.SEEK_xxx)` relative to the yields?"""
    def whence_of(st):
        if isinstance(st, ast.Expr) and isinstance(st.value, ast.Call) and ast.unparse(st.value.func) == 'f.seek' \
                and len(st.value.args) == 2 and not st.value.keywords and ast.unparse(st.value.args[0]) == 'start_position':
            return {'os.SEEK_SET': 'set', 'os.SEEK_CUR': 'cur'}.get(ast.unparse(st.value.args[1]), '?')
        return None
    withs = [n for n in fn.body if isinstance(n, ast.With)]
    if len(withs) != 1 or ast.unparse(withs[0].items[0]) != 'Opener(fileobj) as f':
        raise _Untranslatable(fn.name + ': expected one `with Opener(fileobj) as f:` block')
    body = withs[0].body
    if not body or ast.unparse(body[0]) != 'start_position = f.tell()':
        raise _Untranslatable(fn.name + ': `start_position = f.tell()` is not the first statement of the with block')
    stores = [n for n in ast.walk(fn) if isinstance(n, ast.Name) and n.id == 'start_position' and isinstance(n.ctx, ast.Store)]
    if len(stores) != 1:
        raise _Untranslatable(fn.name + ': start_position assigned more than once')
    seeks = [(st, whence_of(st)) for st in ast.walk(fn) if whence_of(st) is not None]
    if len(seeks) != 1 or seeks[0][1] == '?':
        raise _Untranslatable(fn.name + ': expected exactly one f.seek(start_position, os.SEEK_SET|os.SEEK_CUR)')
    seek, whence = seeks[0]
    yields = [n for n in ast.walk(fn) if isinstance(n, (ast.Yield, ast.YieldFrom))]
    if not yields:
        raise _Untranslatable(fn.name + ' is not a generator')
    for t in [n for n in ast.walk(fn) if isinstance(n, ast.Try)]:
        if seek in t.finalbody:
            if len(t.finalbody) != 1 or t.handlers or t.orelse or t not in body:
                raise _Untranslatable(fn.name + ': unexpected shape of the try/finally around the reader loop')
            inside = {id(n) for b in t.body for n in ast.walk(b)}
            if not all(id(y) in inside for y in yields):
                raise _Untranslatable(fn.name + ': a yield outside the try/finally')
            if body.index(t) != 1 or len(body) != 2:
                raise _Untranslatable(fn.name + ': statements between f.tell() and the try, or after the try')
            return whence, True
    if body[-1] is seek:
        return whence, False
    raise _Untranslatable(fn.name + ': the seek back to start_position is neither in a finally clause nor the last statement')


def _name_table_spec(fn, field, const):
    """how `TrkFile.save` fills the header field `field` ('scalar_name' / 'property_name'): returns 'zero-table' when the
    names are written into a fresh `np.zeros(<const>, dtype='S20')` table that then replaces the WHOLE field
    (`header[field][:] = table`), 'in-place' when they are written straight into `header[field][i]`"""
    assigns = [n for n in ast.walk(fn) if isinstance(n, ast.Assign) and len(n.targets) == 1]
    whole = [n for n in assigns if ast.unparse(n.targets[0]) == f"header['{field}'][:]"]
    inplace = [n for n in assigns if ast.unparse(n.targets[0]) == f"header['{field}'][i]"]
    other = [n for n in assigns if ast.unparse(n.targets[0]).startswith(f"header['{field}']") and n not in whole and n not in inplace]
    if other:
        raise _Untranslatable(f'unexpected assignment to header[{field!r}]: ' + ast.unparse(other[0]))
    if inplace and not whole:
        return 'in-place'
    if len(whole) != 1 or inplace or not isinstance(whole[0].value, ast.Name):
        raise _Untranslatable(f'header[{field!r}] is not assigned exactly once as a whole from a local table')
    tbl = whole[0].value.id
    inits = [n for n in assigns if ast.unparse(n.targets[0]) == tbl]
    if len(inits) != 1 or ast.unparse(inits[0].value) != f"np.zeros({const}, dtype='S20')":
        raise _Untranslatable(f'{tbl} is not initialised once as np.zeros({const}, dtype=\'S20\')')
    loops = [n for n in ast.walk(fn) if isinstance(n, ast.For) and ast.unparse(n.target) in ('i, name', '(i, name)')
             and any(isinstance(b, ast.Assign) and ast.unparse(b.targets[0]) == f'{tbl}[i]' for b in n.body)]
    if len(loops) != 1 or not ast.unparse(loops[0].iter).startswith('enumerate('):
        raise _Untranslatable(f'the loop filling {tbl} was not found')
    fill = [b for b in loops[0].body if isinstance(b, ast.Assign) and ast.unparse(b.targets[0]) == f'{tbl}[i]'][0]
    if ast.unparse(fill.value) != 'encode_value_in_name(nb_values, name)':
        raise _Untranslatable('name table slot is filled with ' + ast.unparse(fill.value))
    stores = [n for n in ast.walk(fn) if isinstance(n, ast.Subscript) and isinstance(n.ctx, ast.Store)
              and ast.unparse(n.value) == tbl]
    if len(stores) != 1 or not inits[0].lineno < loops[0].lineno < whole[0].lineno:
        raise _Untranslatable(f'{tbl} is written elsewhere too')
    return 'zero-table'


def _empty_branch_zeroes(fn):
    """does the `except StopIteration:` handler of `TrkFile.save` (empty tractogram) set the three counts to 0?"""
    for h in [n for n in ast.walk(fn) if isinstance(n, ast.ExceptHandler) and n.type is not None and ast.unparse(n.type) == 'StopIteration']:
        z = {ast.unparse(st.targets[0]) for st in h.body if isinstance(st, ast.Assign) and ast.unparse(st.value) == '0'}
        return {'header[Field.NB_STREAMLINES]', 'header[Field.NB_SCALARS_PER_POINT]', 'header[Field.NB_PROPERTIES_PER_STREAMLINE]'} <= z
    raise _Untranslatable('no `except StopIteration` branch in TrkFile.save')


def regen():
    src_tck = open(os.path.join(REPO, 'nibabel', 'streamlines', 'tck.py')).read()
    src_trk = open(os.path.join(REPO, 'nibabel', 'streamlines', 'trk.py')).read()
    tree = ast.parse(src_tck)
    # ---- _write_header: the offset lines and the text around the number
    fn = _find_func(tree, 'TckFile', '_write_header')
    env = {}
    lets = []
    # `out` is the header text; only its length matters
    env['out'] = ('str', 'lenOut')
    _straight_line(fn.body, env, {'hdr_offset': 'int', 'offset_repr': 'str'}, lets)
    if 'hdr_offset' not in env:
        raise _Untranslatable('hdr_offset is not computed in _write_header')
    pre = suf = None
    nwrites = 0
    for st in fn.body:
        if isinstance(st, ast.Expr) and isinstance(st.value, ast.Call) and ast.unparse(st.value.func) == 'fileobj.write':
            nwrites += 1
            arg = st.value.args[0]
            if isinstance(arg, ast.Call) and isinstance(arg.func, ast.Attribute) and arg.func.attr == 'encode' \
                    and isinstance(arg.func.value, ast.JoinedStr):
                vals = arg.func.value.values
                if len(vals) == 3 and isinstance(vals[1], ast.FormattedValue) and ast.unparse(vals[1].value) == 'hdr_offset' \
                        and vals[1].format_spec is None:
                    pre, suf = len(vals[0].value.encode()), len(vals[2].value.encode())
                    if not vals[2].value.endswith('END\n'):
                        raise _Untranslatable('header does not end with END')
            elif ast.unparse(arg) != 'out':
                raise _Untranslatable('unexpected write in _write_header: ' + ast.unparse(st))
    if pre is None or nwrites != 2:
        raise _Untranslatable('`file: . <offset>` write not found (or extra writes) in _write_header')
    off_def = 'def tckHdrOffset (lenOut : Nat) : Nat :=\n' + ''.join('  ' + l + '\n' for l in lets) + '  hdr_offset\n'
    # ---- _read: the buffer rounding
    fr = _find_func(tree, 'TckFile', '_read')
    env2 = {'buffer_size': ('int', 'buffer_size')}
    lets2 = []
    coord = None
    for st in fr.body:
        if isinstance(st, ast.Assign) and ast.unparse(st.targets[0]) == 'coordinate_size':
            if ast.unparse(st.value) != '3 * dtype.itemsize':
                raise _Untranslatable('coordinate_size = ' + ast.unparse(st.value))
            coord = 3 * 4
            env2['coordinate_size'] = ('int', 'coordinate_size')
        elif isinstance(st, ast.Assign) and ast.unparse(st.targets[0]) == 'buffer_size':
            if ast.unparse(st.value) != 'int(buffer_size * MEGABYTE)':
                raise _Untranslatable('buffer_size = ' + ast.unparse(st.value))
        elif isinstance(st, ast.AugAssign) and ast.unparse(st.target) == 'buffer_size':
            if not isinstance(st.op, ast.Add):
                raise _Untranslatable(ast.unparse(st))
            lets2.append('let buffer_size := buffer_size + ' + _tr_expr(st.value, env2))
    if coord is None or len(lets2) != 1:
        raise _Untranslatable('buffer rounding lines of TckFile._read not found')
    # ---- constants (from the imported modules of the working tree)
    tck, trk, _ = _nib()
    nanw = [int(x) for x in tck.TckFile.FIBER_DELIMITER.astype('<f4').view('<u4').ravel()]
    infw = [int(x) for x in tck.TckFile.EOF_DELIMITER.astype('<f4').view('<u4').ravel()]
    if len(set(nanw)) != 1 or len(set(infw)) != 1 or len(nanw) != 3 or len(infw) != 3:
        raise _Untranslatable('delimiters are not 1x3 constant rows')
    import inspect
    maxlen = inspect.signature(trk.encode_value_in_name).parameters['max_name_len'].default
    name_item = trk.header_2_dtype['scalar_name'].subdtype
    prop_item = trk.header_2_dtype['property_name'].subdtype
    seek_tck = _seek_spec(fr)
    seek_trk = _seek_spec(_find_func(ast.parse(src_trk), 'TrkFile', '_read'))
    from nibabel.streamlines.header import Field
    hd = trk.header_2_dtype
    fsave = _find_func(ast.parse(src_trk), 'TrkFile', 'save')
    tbl_specs = (_name_table_spec(fsave, 'scalar_name', 'MAX_NB_NAMED_SCALARS_PER_POINT'),
                 _name_table_spec(fsave, 'property_name', 'MAX_NB_NAMED_PROPERTIES_PER_STREAMLINE'))
    if tbl_specs[0] != tbl_specs[1]:
        raise _Untranslatable('the two name tables of TrkFile.save are filled in different ways: %s / %s' % tbl_specs)
    in_place = 'true' if tbl_specs[0] == 'in-place' else 'false'
    empty_zeroes = 'true' if _empty_branch_zeroes(fsave) else 'false'

    def off(name, kind=None):
        dt, o = hd.fields[name][0], hd.fields[name][1]
        if kind is not None and dt.base.str[1:] != kind:
            raise _Untranslatable(f'TRK header field {name} has dtype {dt}, expected {kind}')
        return int(o)
    offs = {'Ns': off(Field.NB_SCALARS_PER_POINT, 'i2'), 'ScalarNames': off('scalar_name', 'S20'),
            'Np': off(Field.NB_PROPERTIES_PER_STREAMLINE, 'i2'), 'PropNames': off('property_name', 'S20'),
            'B': off(Field.VOXEL_TO_RASMM), 'N': off(Field.NB_STREAMLINES, 'i4'), 'Version': off('version', 'i4'),
            'HdrSize': off('hdr_size', 'i4')}
    names = list(hd.names)
    if names[names.index('property_name') + 1] != Field.VOXEL_TO_RASMM or names[-3:] != [Field.NB_STREAMLINES, 'version', 'hdr_size'] \
            or names[names.index(Field.NB_SCALARS_PER_POINT):names.index(Field.VOXEL_TO_RASMM)] != \
            [Field.NB_SCALARS_PER_POINT, 'scalar_name', Field.NB_PROPERTIES_PER_STREAMLINE, 'property_name']:
        raise _Untranslatable('TRK header field order changed')

    def spec(sp):
        return '⟨.%s, %s⟩' % (sp[0], 'true' if sp[1] else 'false')
    body = f'''import NibabelModel.Model.C16
import NibabelModel.Model.C16_Ext
import NibabelModel.Model.C16_Save
/-! GENERATED on every run by harness/props/c16.py `regen()` from nibabel/streamlines/tck.py and trk.py
    of the working tree — do not edit.  The `_eq_model` theorems tie the hand-written model to the
    current source text; the property theorems in Props/C16 are stated about these definitions. -/
namespace Nb.C16.Gen
open Nb.C16

/-- translated from the AST of `TckFile._write_header` (`out` = header text, `lenOut = len(out)`) -/
{off_def}
/-- `len` of the text written before / after the number in `fileobj.write(f'\\nfile: . {{hdr_offset}}\\nEND\\n')` -/
def tckFilePrefixLen : Nat := {pre}
def tckFileSuffixLen : Nat := {suf}

/-- translated from `TckFile._read`: `coordinate_size = 3 * dtype.itemsize` (float32), then the rounding line;
    the argument is `int(buffer_size * MEGABYTE)` -/
def coordinate_size : Nat := {coord}
def tckBufferBytes (buffer_size : Nat) : Nat :=
  {lets2[0]}
  buffer_size

def megabyte : Nat := {int(tck.MEGABYTE)}
def nanWord : Nat := {nanw[0]}
def infWord : Nat := {infw[0]}
def trkHeaderSize : Nat := {int(trk.TrkFile.HEADER_SIZE)}
def trkHeaderItemsize : Nat := {int(trk.header_2_dtype.itemsize)}
def trkMaxNameLen : Nat := {int(maxlen)}
def trkNameFieldLen : Nat := {int(name_item[0].itemsize)}
def trkPropFieldLen : Nat := {int(prop_item[0].itemsize)}
def trkMaxScalars : Nat := {int(trk.MAX_NB_NAMED_SCALARS_PER_POINT)}
def trkMaxProps : Nat := {int(trk.MAX_NB_NAMED_PROPERTIES_PER_STREAMLINE)}
def trkNameFields : Nat := {int(name_item[1][0])}
def trkPropFields : Nat := {int(prop_item[1][0])}

/-- read off the AST of `TckFile._read` / `TrkFile._read`: the `f.seek(start_position, os.SEEK_xxx)` and whether it is
    the only statement of the `finally:` clause of a `try` that encloses every `yield` (and directly follows
    `start_position = f.tell()`), or the last statement of the body -/
def tckReadSeek : SeekSpec := {spec(seek_tck)}
def trkReadSeek : SeekSpec := {spec(seek_trk)}

/-- byte offsets of the TRK header fields in `header_2_dtype` -/
def trkOffNs : Nat := {offs['Ns']}
def trkOffScalarNames : Nat := {offs['ScalarNames']}
def trkOffNp : Nat := {offs['Np']}
def trkOffPropNames : Nat := {offs['PropNames']}
def trkOffB : Nat := {offs['B']}
def trkOffN : Nat := {offs['N']}
def trkOffVersion : Nat := {offs['Version']}
def trkOffHdrSize : Nat := {offs['HdrSize']}

/-- read off the AST of `TrkFile.save`: are the encoded names written straight into the (inherited) header tables
    (`header['scalar_name'][i] = …`), or into a fresh `np.zeros(MAX_…, dtype='S20')` table that then replaces the whole
    field (`header['scalar_name'][:] = table`)?  And does the empty-tractogram branch zero the three counts? -/
def trkNameTablesInPlace : Bool := {in_place}
def trkEmptyZeroesCounts : Bool := {empty_zeroes}
def trkZeroTable : List (List Nat) := List.replicate trkMaxScalars (List.replicate trkNameFieldLen 0)

theorem trkSaveHeader_eq_model :
    (∀ sup items, Nb.C16.trkSaveItemsFrom trkNameTablesInPlace sup items = Nb.C16.trkSaveItemsH sup items) ∧
    trkEmptyZeroesCounts = true ∧ trkZeroTable = Nb.C16.zeroFields ∧
    List.replicate trkMaxProps (List.replicate trkPropFieldLen 0) = Nb.C16.zeroFields :=
  ⟨fun _ _ => rfl, by decide, by decide, by decide⟩
theorem readSeek_eq_model : tckReadSeek = Nb.C16.seekFixed ∧ trkReadSeek = Nb.C16.seekFixed := by decide
theorem trkOffsets_eq_model :
    trkOffNs = Nb.C16.trkOffNs ∧ trkOffScalarNames = Nb.C16.trkOffScalarNames ∧ trkOffNp = Nb.C16.trkOffNp ∧
    trkOffPropNames = Nb.C16.trkOffPropNames ∧ trkOffB = Nb.C16.trkOffB ∧ trkOffN = Nb.C16.trkOffN ∧
    trkOffVersion = Nb.C16.trkOffVersion ∧ trkOffHdrSize = Nb.C16.trkOffHdrSize := by decide
theorem tckHdrOffset_eq_model (n : Nat) : tckHdrOffset n = Nb.C16.tckHdrOffset n := rfl
theorem tckBufferBytes_eq_model (n : Nat) : tckBufferBytes n = Nb.C16.tckBufferBytes n := rfl
theorem consts_eq_model :
    tckFilePrefixLen = Nb.C16.tckFilePrefixLen ∧ tckFileSuffixLen = Nb.C16.tckFileSuffixLen ∧
    coordinate_size = Nb.C16.tckCoordSize ∧ nanWord = Nb.C16.nanWord ∧ infWord = Nb.C16.infWord ∧
    isNaN32 nanWord = true ∧ isInf32 infWord = true ∧
    trkHeaderSize = Nb.C16.trkHeaderSize ∧ trkHeaderItemsize = Nb.C16.trkHeaderSize ∧
    trkMaxNameLen = 20 ∧ trkNameFieldLen = 20 ∧ trkPropFieldLen = 20 ∧
    trkMaxScalars = 10 ∧ trkMaxProps = 10 ∧ trkNameFields = 10 ∧ trkPropFields = 10 ∧ 0 < megabyte := by decide

end Nb.C16.Gen
'''
    write_if_changed(os.path.join(LEAN, 'NibabelModel', 'Generated', 'C16.lean'), body)
    return ['Nb.C16.Gen.tckHdrOffset_eq_model', 'Nb.C16.Gen.tckBufferBytes_eq_model', 'Nb.C16.Gen.consts_eq_model',
            'Nb.C16.Gen.readSeek_eq_model', 'Nb.C16.Gen.trkOffsets_eq_model', 'Nb.C16.Gen.trkSaveHeader_eq_model']
