"""C02 — rescaled integer storage: bounded error, no wrap-around, or a loud refusal.

Real code: nibabel/arraywriters.py, volumeutils.py (array_to_file / apply_read_scaling), casting.py
(shared_range / floor_exact), analyze.py / spm99analyze.py / nifti1.py header refusals, MGHImage._write_data.

Streams
  exact / exact-int / exact-nan / const / refuse / a2f / spec   -> compared string-equal with the Lean model
        (every float operation inside nibabel is exact on these inputs: dyadic grids whose range is
        (shared type range) * 2**k, power-of-two slopes, float32-representable intercepts)
  general                                                       -> oracle only (exact Fraction arithmetic)
  readers (exhaustive) / rt-exact / rt-decisions / rt-general   -> header readers on every field state; construction
        routes x donor header states x images loaded from crafted files x pre-save get_fdata histories (Model/C02_Route)
"""
import io
import math
import os
import warnings
from fractions import Fraction as Fr

import numpy as np

from common import Case, errname, write_if_changed, LEAN

PID = 'C02'
LEAN_TARGETS = ['NibabelModel.Props.C02']
THEOREMS = [
    'Nb.C02.shared_range_contract',
    'Nb.C02.no_wrap',
    'Nb.C02.no_wrap_save',
    'Nb.C02.no_wrap_orig_counterexample',
    'Nb.C02.error_bound_gap',
    'Nb.C02.error_bound',
    'Nb.C02.error_bound_write',
    'Nb.C02.ideal_in_range_inter',
    'Nb.C02.ideal_in_range_slope',
    'Nb.C02.finite_range_brackets',
    'Nb.C02.error_bound_inter',
    'Nb.C02.error_bound_slope',
    'Nb.C02.stays_in_range',
    'Nb.C02.nan_inf',
    'Nb.C02.refusal',
    'Nb.C02.refusal_uint_mixed',
    'Nb.C02.mgh_clips_known_finding',
    'Nb.C02.iu2iu_exact',
    'Nb.C02.Gen.shared_table_ok',       # over the table REGENERATED from /repo by regen()
    'Nb.C02.to_file_map_eq_save',
    'Nb.C02.to_file_map_indep_of_header_dtype',
    'Nb.C02.to_file_map_restores_header',
    'Nb.C02.save_history_independent',
    'Nb.C02.no_wrap_to_file_map',
    'Nb.C02.refusal_dtype_arg',
    'Nb.C02.make_writer_of_caps',
    'Nb.C02.Gen.caps_table_ok',         # over the capability flags REGENERATED from /repo by regen()
    # end to end (from `save … = .ok (s, b, raws)` to every element of raws) and audit items
    'Nb.C02.save_float_element',
    'Nb.C02.save_error_bound_nifti',
    'Nb.C02.save_error_bound_spm',
    'Nb.C02.error_bound_const',
    'Nb.C02.nan_fit_ideal_noop',
    'Nb.C02.stays_in_range_sharp',
    'Nb.C02.save_header_accepts',
    'Nb.C02.nan_fill_bound',
    'Nb.C02.iu2iu_exact_int',
    # construction routes, header fields on disk, readers, get_fdata histories (Model/C02_Route)
    'Nb.C02.reader_inverts_writer',
    'Nb.C02.spm2_stale_intercept_orig_counterexample',
    'Nb.C02.reader_inverts_pre_fix_spm2_writer',
    'Nb.C02.reader_flat_counterexample',
    'Nb.C02.route_invisible',
    'Nb.C02.save_ignores_working_copies',
    'Nb.C02.save_from_cache_counterexample',
    'Nb.C02.load_data_spec',
    'Nb.C02.Gen.slot_table_ok',          # the five tables below are REGENERATED from /repo by regen()
    'Nb.C02.Gen.conv_table_ok',
    'Nb.C02.Gen.reset_table_ok',
    'Nb.C02.Gen.set_table_ok',
    'Nb.C02.Gen.reader_table_ok',
]
ASSUMPTIONS = [
    'hand-written Lean model of arraywriters / array_to_file / shared_range / header refusals (Model/C02.lean) in exact '
    'rational arithmetic, tied to the code by the exact correspondence streams of this run (raw integers, stored '
    'slope/intercept as exact rationals, error kinds) and by the decision-level stream on inexact inputs',
    'IEEE rounding inside NumPy is NOT modelled: the stored float32 slope/intercept are free rationals in the theorems '
    '(their distance to the ideal values appears as explicit error terms); the evaluation of (v - inter) / slope in the '
    'working float type is checked only by the oracle, which allows 3 * 2**-p * |v - inter| for it',
    'choice of the working float type: NumPy promotion table modelled (workingPrec), the overflow-driven upgrade of '
    'best_write_scale_ftype is not',
    'casting.floor_exact / shared_range are modelled on exact integers; Generated/C02Types.lean re-checks the model '
    'against the values nibabel computes now for every (float32/float64, integer type) pair',
    'oracle reference: fractions.Fraction arithmetic on the stored slope / intercept and the raw integers read back',
    'AnalyzeImage.to_file_map (dtype= save argument, consumable header fields, try/finally restore, caller-fixed '
    'scaling) is modelled (toFileMap / saveSeq) and compared with the real code on the tfm-* streams through '
    'to_file_map / to_filename / nib.save / to_bytes / to_stream; the NIfTI wrapper (dtype aliases), nib.save class '
    'conversion, byte order and file I/O are NOT modelled — they are exercised by the streams and must be invisible; a '
    'save step with a FLOAT on-disk type inside a history is not modelled (its result is not observed, the header after '
    'the whole history is)',
    'caller-fixed scaling (slope / inter preset in the header): nibabel documents "array written as it is"; the oracle '
    'there checks no wrap-around / no undefined cast / stored scaling = preset, not the half-step bound',
    'Model/C02_Route.lean (hand-written): raw header fields, from_header by field NAME, the constructor reset, '
    'set_slope_inter at field level, get_slope_inter of every header class incl. the SPM2 gl/cal fallback, ArrayProxy '
    'None -> 1/0, and an alias model of get_fdata / _fdata_cache; tied to the code by the rt-* / readers streams and by '
    'Generated/C02Readers.lean (five decision tables evaluated on the working tree each run, model proved equal on '
    'every row); float32 storage of the fields, the dtype of the loaded array (NumPy promotion, modelled as loadedIn) '
    'and the float conversion inside get_fdata(dtype=...) (a parameter `cast`) are not verified',
    'oracle references for the rt-* / readers streams: a reader table written from the format descriptions '
    '(ref_read_si) and a reference of which arrays alias the image data (ref_history); crafted files are built by '
    'patching the two float slots (and gl/cal fields) into the bytes of a header nibabel wrote',
]
RULE = ('tfm-* streams: ~55% of all save cases are re-run as a to_file_map HISTORY on one image: on-disk type chosen by '
        'the dtype= SAVE ARGUMENT (header holding the array dtype = fresh image, or any other supported type) or by the '
        'header; class variants Nifti1Image / Nifti1Pair / Nifti2Image / Nifti2Pair / Spm99 / Spm2 / Analyze; image built '
        'fresh, with a header, with the constructor dtype=, with set_data_dtype, or LOADED from a file (array proxy); '
        'saved through to_file_map / to_filename / nib.save (incl. conversion by extension, .gz) / to_bytes / to_stream; '
        'big-endian headers; dtype= spelled as dtype object / name / scalar type / byte-swapped dtype; image array a '
        'non-contiguous view of a larger array; 0-2 earlier saves (any dtype= incl. float types, failing or not) on the same image; '
        'slope / inter preset in the header (caller-fixed scaling); observable = stored slope / inter, raw integers, '
        'error kind AND the header (dtype, slope, inter) after the history; '
        'layouts: about half of all save cases are 3-D arrays with 2-5 memory slabs in C or F order (values in memory order; '
        'NaN/inf placement varied over slabs, first non-finite value in a later slab, extremes before/in/after it); '
        'spec-fr stream: volumeutils.finite_range itself on such layouts vs the model and an exact reference; '
        'decisions stream: every general-stream NIfTI/SPM case whose writer decisions are not within rounding distance of '
        'flipping is also compared with the model at decision level (slope == 1, inter == 0, sign of slope, refusal); '
        'exact streams: dyadic grids (A + j) * 2**k with range = shared type range * 2**k, quarter-step offsets (rint ties), '
        'NaN / +-inf mixtures, constants, int->int (intercept only, sign flip, range scaling), refusals, x every class '
        '(NIfTI slope+inter, SPM slope only, Analyze / MGH none) x every integer on-disk dtype the class supports; '
        'array_to_file stream with free dyadic (slope, inter, mn, mx) incl. thresholds far outside the type range; '
        'general stream: float16/32/64 and (u)int8..64 inputs (constants, one-sided ranges touching type limits, '
        '1e-40..1e38, non-float32 values, NaN/inf mixtures, all-NaN, all-zero).  A case is non-trivial when scaling is '
        'needed (or refused); distinct by (op, class, in dtype, out dtype, values).  '
        'readers stream (EXHAUSTIVE): 7 header classes x slope field {valid +-, 1, 0, NaN, +-inf} x intercept field '
        '{finite, 0, NaN, +-inf} (x 5 gl/cal states for SPM2) read back through write_to / from_fileobj; '
        'rt-* streams (30% of all save cases re-run in the quick tier, 15% in the others): target class x donor class (every ordered pair of the 7 Analyze-family '
        'classes + MGH donors) x route {own-class header, from_image, K(data, aff, header=donor image header), raw donor '
        'header as read from a file, from_header} x donor scale fields in any state (valid / 0 / NaN / +-inf slope, '
        'finite / 0 / NaN / +-inf intercept, ordinary fresh states) x data source {in-memory array | FILE crafted with '
        'those fields (+ SPM2 gl/cal) and loaded = scaled array proxy} x direct assignment to the non-consumable slot 2 '
        'x pre-save history of 0-5 steps {get_fdata(float16/32/64, fill/unchanged), in-place zero / clip / negate of the '
        'returned array, uncache, in-place edit of np.asanyarray(img.dataobj)} x header dtype / dtype= argument x '
        '{to_file_map, to_filename, to_bytes}; observable = slope / inter as the READER of the target class gets them '
        'from disk, raw integers, the raw float slots on disk and in the image header afterwards.')

PENDING_FINDINGS = [
    {'property': 'C02', 'signature': 'mgh:out-of-range-clipped-not-refused', 'status': 'open',
     'what': 'MGH stores out-of-range / non-integer values clipped and rounded instead of refusing '
             '(format has no scaling fields)',
     'input': {'op': 'save', 'cls': 'mgh', 'in': 'float32', 'out': 'int16',
               'vals': ['0x1.0000000000000p-2', '0x1.8000000000000p+0', '0x1.86a0000000000p+16',
                        '-0x1.1170000000000p+16'], 'stream': 'finding'}},
    {'property': 'C02', 'signature': 'noscale:inf-with-all-zero-finite', 'status': 'open',
     'what': 'Analyze / MGH (no scaling fields): when every finite value is 0 the writer sees "no scaling needed" and '
             '+-inf are written as the integer type limits ([0, -inf, inf] -> int16 stores [0, -32768, 32767]) instead of '
             'the largest / smallest finite input (NIfTI writes zeros)',
     'input': {'op': 'save', 'cls': 'analyze', 'in': 'float64', 'out': 'int16',
               'vals': ['0x0.0p+0', '-inf', 'inf'], 'stream': 'finding'}},
    {'property': 'C02', 'signature': 'int64:beyond-float64-precision', 'status': 'open',
     'what': '64-bit integers beyond 2**53 lose their low bits in the float64 working type of array_to_file '
             '([2**62, 2**62+500, 2**62+1000] int64 -> int16 stores [0, 0, 1024] with slope 1)',
     'input': {'op': 'save', 'cls': 'nifti', 'in': 'int64', 'out': 'int16',
               'vals': [str(2 ** 62), str(2 ** 62 + 500), str(2 ** 62 + 1000)], 'stream': 'finding'}},
]

INT_TYPES = ['uint8', 'int8', 'uint16', 'int16', 'uint32', 'int32', 'uint64', 'int64']
FLT_TYPES = ['float16', 'float32', 'float64']
FPREC = {'float16': 11, 'float32': 24, 'float64': 53}
CLS_OUT = {
    'nifti': INT_TYPES,
    'spm': ['uint8', 'int16', 'int32'],
    'analyze': ['uint8', 'int16', 'int32'],
    'mgh': ['uint8', 'int16', 'int32'],
}
CLS_WRITER = {'nifti': 'slopeinter', 'spm': 'slope', 'spm2': 'slope', 'analyze': 'plain', 'mgh': 'mgh'}
# image classes behind each model class (the Analyze family shares AnalyzeImage.to_file_map)
KLS = {'nifti': ['Nifti1Image', 'Nifti1Pair', 'Nifti2Image', 'Nifti2Pair'], 'spm': ['Spm99AnalyzeImage'],
       'spm2': ['Spm2AnalyzeImage'], 'analyze': ['AnalyzeImage']}
SINGLE_FILE = ('Nifti1Image', 'Nifti2Image')
KLS_EXT = {'Nifti1Image': ['.nii', '.nii.gz'], 'Nifti2Image': ['.nii', '.nii.gz'], 'Nifti1Pair': ['.img', '.hdr'],
           'Nifti2Pair': ['.img'], 'Spm99AnalyzeImage': ['.img'], 'Spm2AnalyzeImage': ['.img', '.img.gz'],
           'AnalyzeImage': ['.img', '.hdr']}
HDR_TYPES = INT_TYPES + ['float32', 'float64']
_SUPPORTED = {}


def supported_dtypes(kls):
    """the data types the header class of image class `kls` accepts NOW (read from the working tree)"""
    if kls not in _SUPPORTED:
        import nibabel as nib
        hc = getattr(nib, kls).header_class
        ok = []
        for t in HDR_TYPES:
            try:
                hc().set_data_dtype(np.dtype(t))
                ok.append(t)
            except Exception:
                pass
        _SUPPORTED[kls] = ok
    return _SUPPORTED[kls]


class HarnessError(Exception):
    """a generator produced an input that is not what it claims (never a nibabel behaviour)"""


def irange(name):
    ii = np.iinfo(name)
    return int(ii.min), int(ii.max)


# --------------------------------------------------------------------------- exact helpers (independent reference)

def rint_he(x):
    """round half to even on a Fraction"""
    fl = x.numerator // x.denominator
    rem = x - fl
    if rem > Fr(1, 2) or (rem == Fr(1, 2) and fl % 2):
        return fl + 1
    return fl


def floor_exact(p, v):
    a = abs(v)
    if a < 2 ** p:
        return v
    g = 2 ** (a.bit_length() - p)
    return (v // g) * g


def shared(p, omin, omax):
    return -floor_exact(p, -omin), floor_exact(p, omax)


def working_prec(in_name):
    if in_name in FPREC:
        return max(24, FPREC[in_name])
    lo, hi = irange(in_name)
    return 24 if (lo >= -32768 and hi <= 65535) else 53


def parse_val(s, in_name):
    """value string -> Fraction | 'nan' | 'inf' | '-inf'"""
    if s in ('nan', 'inf', '-inf'):
        return s
    if in_name in FPREC:
        return Fr(float.fromhex(s))
    return Fr(int(s))


def val_str(x, in_name):
    """numpy scalar / python number -> value string"""
    if in_name in FPREC:
        f = float(x)
        if math.isnan(f):
            return 'nan'
        if math.isinf(f):
            return 'inf' if f > 0 else '-inf'
        return f.hex()
    return str(int(x))


def fr_str(x):
    return str(x.numerator) if x.denominator == 1 else f'{x.numerator}/{x.denominator}'


def finite_range(vals):
    fin = [v for v in vals if isinstance(v, Fr)]
    return (min(fin), max(fin)) if fin else None, any(v == 'nan' for v in vals)


def can_cast(in_name, out_name):
    if in_name in FPREC:
        return False
    a, b = irange(in_name)
    lo, hi = irange(out_name)
    return lo <= a and b <= hi


def scaling_needed(in_name, out_name, vals, slope_writer=False):
    """exact replay of ArrayWriter.scaling_needed / SlopeArrayWriter.scaling_needed"""
    if can_cast(in_name, out_name) or not vals:
        return False
    fr, _ = finite_range(vals)
    if fr == (0, 0):
        return False
    if in_name in FPREC:
        return fr is not None if slope_writer else True
    lo, hi = irange(out_name)
    return not (fr[0] >= lo and fr[1] <= hi)


def ideal_scale(writer, in_name, out_name, vals):
    """Exact replay of the writer's decisions.  Returns ('err', kind) or
    ('ok', [(s*, b*, (L', H')), ...]) — candidate ideals (several where a float-dependent predicate may flip);
    (L', H') is the integer range the ideal map sends [mn, mx] into."""
    omin, omax = irange(out_name)
    o32 = shared(24, omin, omax)
    if writer in ('plain', 'mgh'):
        if writer == 'plain' and scaling_needed(in_name, out_name, vals):
            return ('err', 'WriterError')
        return ('ok', [(Fr(1), Fr(0), (omin, omax))])
    if not scaling_needed(in_name, out_name, vals, True):
        return ('ok', [(Fr(1), Fr(0), (omin, omax))])
    (mn, mx), has_nan = finite_range(vals)
    isflt = in_name in FPREC
    if isflt and has_nan:
        mn, mx = min(mn, 0), max(mx, 0)

    def range_scale(mn, mx):
        if writer == 'slope':
            if omin == 0:
                if mn < 0 < mx:
                    return ('err', 'WriterError')
                s = mn / omax if mx <= 0 else mx / omax
            else:
                s = max(mx / omax, mn / Fr(omin))
            return ('ok', [(s, Fr(0), (omin, omax))])
        if mx == mn:
            return ('ok', [(Fr(1), mn, (0, 0))])
        s0 = (mx - mn) / (o32[1] - o32[0])
        if o32[0] == 0 and abs(mx) < abs(mn):
            b, s = mx + o32[0] * s0, -s0
        else:
            b, s = mn - o32[0] * s0, s0
        return ('ok', [(s, b, o32)])

    if isflt:
        return range_scale(mn, mx)
    mn, mx = int(mn), int(mx)
    if writer == 'slopeinter':
        if mx - mn <= o32[1] - o32[0]:
            if o32[0] == 0:
                inter = floor_exact(24, mn - o32[0])
            else:
                inter = floor_exact(24, mn + (mx - mn + 1) // 2)
            if mx - inter <= o32[1]:
                return ('ok', [(Fr(1), Fr(inter), o32)])
    if omin == 0 and mx <= 0 and abs(mn) <= o32[1]:
        return ('ok', [(Fr(-1), Fr(0), o32)])
    return range_scale(Fr(mn), Fr(mx))


# --------------------------------------------------------------------------- cases

def in_token(in_name):
    if in_name in FPREC:
        return 'f%d' % FPREC[in_name]
    a, b = irange(in_name)
    return f'i{a}:{b}'


def out_token(out_name):
    a, b = irange(out_name)
    return f'{a}:{b}'


def line_vals(vals):
    return ','.join(v if isinstance(v, str) else fr_str(v) for v in vals) if vals else '-'


def var_eligible(cls, in_name, out_name, vals):
    """the writer's DECISIONS (slope == 1, inter == 0, sign of slope, refusal) can be compared with the exact model even
    though the stored numbers are rounded: magnitudes far from float32 under/overflow, no decision within rounding
    distance of flipping"""
    if cls not in ('nifti', 'spm', 'spm2'):
        return False
    fin = [v for v in vals if isinstance(v, Fr)]
    if in_name not in FPREC and any(abs(v) > 2 ** 53 for v in fin):
        return False
    kind, cands = ideal_scale(CLS_WRITER[cls], in_name, out_name, vals)
    if kind == 'err':
        return True
    s, b, _ = cands[0]
    lo, hi = Fr(1, 2 ** 60), Fr(2 ** 60)
    if not (lo <= abs(s) <= hi) or (b != 0 and not (lo <= abs(b) <= hi)):
        return False
    if s != 1 and abs(s - 1) < Fr(1, 2 ** 20):
        return False
    if any(v == 'nan' for v in vals) and fin:
        mn, mx = min(min(fin), 0), max(max(fin), 0)
        edge = min(abs(mn), abs(mx))
        if edge != 0 and edge < Fr(1, 2 ** 18) * (mx - mn):
            return False
    return True


def mk_save(cls, in_name, out_name, valstrs, stream, exact, shape=None, order='C'):
    """`valstrs` are the elements in MEMORY order; `shape`/`order` give the array layout (None = the 1-D column
    (n, 1, 1)); with order 'C' the first axis, with 'F' the last axis, is the slowest (finite_range walks its slabs)"""
    vals = [parse_val(s, in_name) for s in valstrs]
    line = None
    lcls = 'spm' if cls == 'spm2' else cls
    op = 'save'
    if exact:
        line = f'C02 save {lcls} {in_token(in_name)} {out_token(out_name)} {line_vals(vals)}'
    elif stream == 'general' and var_eligible(cls, in_name, out_name, vals):
        # inexact floats: compare the writer's decisions only
        op, stream = 'var', 'decisions'
        line = f'C02 var {lcls} {in_token(in_name)} {out_token(out_name)} {line_vals(vals)}'
    data = {'op': op, 'cls': cls, 'in': in_name, 'out': out_name, 'vals': list(valstrs), 'stream': stream,
            'exact': bool(exact)}
    if shape is not None:
        data['shape'], data['order'] = list(shape), order
    need = scaling_needed(in_name, out_name, vals)
    key = ('save', cls, in_name, out_name, tuple(valstrs), tuple(shape or ()), order) if need else None
    return Case(line, data, key, stream)


def dt_token(name):
    return in_token(name)[1:] if name not in FPREC else in_token(name)


def opt_fr(x):
    return '_' if x is None else fr_str(Fr(x))


def mk_tfm(cls, kls, in_name, hd, sl, it, args, valstrs, stream, exact, how='tfm', mk='hdr', bo='<', ext=None,
           shape=None, order='C', sp='dtype', view=False):
    """`img.to_file_map(dtype=arg)` HISTORY on one image of class `kls` (model class `cls`): the image is built the way
    `mk` says with header data type `hd` (a dtype name) and preset header slope / inter `sl` / `it` (None = NaN, the
    normal state), then saved once per element of `args` (None = no dtype argument, else the `dtype=` argument); the
    LAST save is the observed one and is made through API `how`.  Its on-disk type must be an integer type."""
    out_name = args[-1] or hd
    if out_name in FPREC:
        raise HarnessError('observed save must have an integer on-disk type')
    vals = [parse_val(v, in_name) for v in valstrs]
    lcls = 'spm' if cls == 'spm2' else cls
    preset = sl is not None or it is not None
    lvl = None
    if exact or preset:
        lvl = 'full'
    elif stream != 'tfm-noline' and var_eligible(cls, in_name, out_name, vals):
        lvl = 'dec'
    line = None
    if lvl:
        line = (f'C02 {"tfm" if lvl == "full" else "tfmd"} {lcls} {in_token(in_name)} {dt_token(hd)} {opt_fr(sl)} {opt_fr(it)} '
                + ';'.join('_' if a is None else dt_token(a) for a in args) + ' ' + line_vals(vals))
    data = {'op': 'tfm', 'cls': cls, 'kls': kls, 'in': in_name, 'hd': hd, 'sl': None if sl is None else fr_str(Fr(sl)),
            'it': None if it is None else fr_str(Fr(it)), 'args': list(args), 'out': out_name, 'vals': list(valstrs),
            'how': how, 'mk': mk, 'bo': bo, 'ext': ext, 'sp': sp, 'view': bool(view), 'stream': stream,
            'exact': bool(exact), 'lvl': lvl}
    if shape is not None:
        data['shape'], data['order'] = list(shape), order
    need = preset or scaling_needed(in_name, out_name, vals)
    key = (('tfm', cls, kls, in_name, hd, data['sl'], data['it'], tuple(args), how, mk, bo, sp, view, tuple(valstrs),
            tuple(shape or ()), order) if need else None)
    return Case(line, data, key, stream)


def mk_fr(in_name, valstrs, shape=None, order='C'):
    """finite_range itself (volumeutils.finite_range(arr, check_nan=True)) against the model's finiteRange"""
    vals = [parse_val(s, in_name) for s in valstrs]
    data = {'op': 'fr', 'in': in_name, 'vals': list(valstrs), 'stream': 'spec-fr'}
    if shape is not None:
        data['shape'], data['order'] = list(shape), order
    return Case(f'C02 fr {in_token(in_name)} {line_vals(vals)}', data,
                ('fr', in_name, tuple(valstrs), tuple(shape or ()), order), 'spec-fr')


def mk_a2f(in_name, out_name, s, b, mn, mx, n2z, valstrs, stream='a2f'):
    vals = [parse_val(v, in_name) for v in valstrs]
    o = lambda x: '_' if x is None else fr_str(x)
    line = (f'C02 a2f {in_token(in_name)} {out_token(out_name)} {fr_str(s)} {fr_str(b)} {o(mn)} {o(mx)} '
            f'{1 if n2z else 0} {line_vals(vals)}')
    data = {'op': 'a2f', 'in': in_name, 'out': out_name, 's': fr_str(s), 'b': fr_str(b),
            'mn': None if mn is None else fr_str(mn), 'mx': None if mx is None else fr_str(mx), 'n2z': bool(n2z),
            'vals': list(valstrs), 'stream': stream}
    return Case(line, data, ('a2f', in_name, out_name, fr_str(s), fr_str(b), o(mn), o(mx), n2z, tuple(valstrs)), stream)


def mk_spec(op, p, arg):
    if op == 'shr':
        return Case(f'C02 shr {p} {out_token(arg)}', {'op': 'shr', 'p': p, 'out': arg, 'stream': 'spec'},
                    ('shr', p, arg), 'spec')
    return Case(f'C02 fe {p} {arg}', {'op': 'fe', 'p': p, 'v': str(arg), 'stream': 'spec'}, ('fe', p, arg), 'spec')


def case_from_data(d):
    if d['op'] in ('save', 'var'):
        st = d.get('stream', 'corpus')
        return mk_save(d['cls'], d['in'], d['out'], d['vals'], 'general' if d['op'] == 'var' else st, d.get('exact', False),
                       d.get('shape'), d.get('order', 'C'))
    if d['op'] == 'tfm':
        return mk_tfm(d['cls'], d['kls'], d['in'], d['hd'], None if d['sl'] is None else Fr(d['sl']),
                      None if d['it'] is None else Fr(d['it']), d['args'], d['vals'], d.get('stream', 'corpus'),
                      d.get('exact', False), d.get('how', 'tfm'), d.get('mk', 'hdr'), d.get('bo', '<'), d.get('ext'),
                      d.get('shape'), d.get('order', 'C'), d.get('sp', 'dtype'), d.get('view', False))
    if d['op'] == 'fr':
        return mk_fr(d['in'], d['vals'], d.get('shape'), d.get('order', 'C'))
    if d['op'] == 'rd':
        return mk_rd(d['kls'], d['F'][0], d['F'][1], d.get('gl'))
    if d['op'] == 'rt':
        return mk_rt(d['kls'], d['dkls'], d['route'], d.get('via', 'ctor'), d['F'], d.get('gl'), d.get('post'),
                     d.get('pre') or [], d['src'], d['in'], d['vals'], d['hd'], d.get('arg'), d.get('how', 'tfm'),
                     d.get('stream', 'corpus'))
    if d['op'] == 'a2f':
        f = lambda x: None if x is None else Fr(x)
        return mk_a2f(d['in'], d['out'], Fr(d['s']), Fr(d['b']), f(d['mn']), f(d['mx']), d['n2z'], d['vals'],
                      d.get('stream', 'a2f'))
    if d['op'] == 'shr':
        return mk_spec('shr', d['p'], d['out'])
    if d['op'] == 'fe':
        return mk_spec('fe', d['p'], int(d['v']))
    raise ValueError(d)


# --------------------------------------------------------------------------- implementation side

FLT_OF_P = {24: np.float32, 53: np.float64, 64: np.longdouble}
ERR_ENUM = ('WriterError', 'HeaderDataError', 'HeaderTypeError', 'ValueError')


def canon_err(e):
    from nibabel.arraywriters import WriterError
    from nibabel.spatialimages import HeaderDataError, HeaderTypeError
    for klass, name in ((WriterError, 'WriterError'), (HeaderDataError, 'HeaderDataError'),
                        (HeaderTypeError, 'HeaderTypeError'), (ValueError, 'ValueError')):
        if isinstance(e, klass):
            return 'ERR:' + name
    return errname(e)


def np_array(in_name, valstrs):
    dt = np.dtype(in_name)
    if in_name in FPREC:
        arr = np.array([float(s) if s in ('nan', 'inf', '-inf') else float.fromhex(s) for s in valstrs], dtype=np.float64)
        out = arr.astype(dt)
        # the value strings must denote values of the input dtype exactly
        for a, b in zip(arr, out):
            if not (np.isnan(a) and np.isnan(b)) and float(a) != float(b):
                raise HarnessError(f'value {a!r} is not a {in_name}')
        return out
    return np.array([int(s) for s in valstrs], dtype=dt)


def laid_out(d):
    """the input array in the memory layout the case describes"""
    flat = np_array(d['in'], d['vals'])
    if d.get('shape'):
        arr = flat.reshape(tuple(d['shape']), order=d.get('order', 'C'))
        if int(np.prod(d['shape'])) != len(d['vals']):
            raise HarnessError('shape does not match the number of values')
        return arr
    return flat.reshape((-1, 1, 1))


def unravel(arr, d):
    """elements of a read-back array in the order of d['vals'] (memory order of the input)"""
    return np.asarray(arr).ravel(order=d.get('order', 'C') if d.get('shape') else 'C')


def image_class(cls):
    import nibabel as nib
    from nibabel.freesurfer.mghformat import MGHImage
    return {'nifti': nib.Nifti1Image, 'spm': nib.Spm99AnalyzeImage, 'spm2': nib.Spm2AnalyzeImage,
            'analyze': nib.AnalyzeImage, 'mgh': MGHImage}[cls]


def run_save(d, case):
    klass = image_class(d['cls'])
    data = laid_out(d)
    hdr = klass.header_class()
    hdr.set_data_dtype(np.dtype(d['out']))
    img = klass(data, np.eye(4), hdr)
    img.set_data_dtype(np.dtype(d['out']))
    fm = klass.make_file_map()
    for k in fm:
        fm[k].fileobj = io.BytesIO()
    with warnings.catch_warnings(record=True) as wl:
        warnings.simplefilter('always')
        try:
            img.to_file_map(fm)
        except Exception as e:
            return canon_err(e)
        back = klass.from_file_map(fm)
        raw = unravel(back.dataobj.get_unscaled(), d)
        reloaded = unravel(back.dataobj, d)
    if raw.dtype.newbyteorder('=') != np.dtype(d['out']):
        return 'ERR:on-disk-dtype-' + raw.dtype.name
    s, b = float(back.dataobj.slope), float(back.dataobj.inter)
    if not (math.isfinite(s) and math.isfinite(b)):
        return f'ERR:nonfinite-scaling-{s}-{b}'
    if case is not None:
        case.extra = {'reloaded': reloaded}
    return (f'ok {fr_str(Fr(s))} {fr_str(Fr(b))} [' + ','.join(str(int(q)) for q in raw) + ']' + cast_warning(wl))


def _bytes_map(klass):
    fm = klass.make_file_map()
    for k in fm:
        fm[k].fileobj = io.BytesIO()
    return fm


def build_image(d, klass, data):
    """the image the case describes (construction route `mk`, header dtype `hd`, byte order `bo`, preset slope/inter)"""
    hd = np.dtype(d['hd'])
    mk = d.get('mk', 'hdr')
    if mk in ('fresh', 'loaded'):
        if np.dtype(d['in']) != hd:
            raise HarnessError('fresh / loaded images have the array dtype in the header')
        img = klass(data, np.eye(4))
        if mk == 'loaded':                       # array proxy over a file written with the array's own dtype
            fm0 = _bytes_map(klass)
            img.to_file_map(fm0)
            img = klass.from_file_map(fm0)
    elif mk == 'ctor':
        img = klass(data, np.eye(4), dtype=hd)
    elif mk == 'set':
        hdr = klass.header_class()
        other = [t for t in supported_dtypes(d['kls']) if t != d['hd']]
        hdr.set_data_dtype(np.dtype(other[len(d['vals']) % len(other)]))
        img = klass(data, np.eye(4), hdr)
        img.set_data_dtype(hd)
    else:
        hdr = klass.header_class(endianness=d.get('bo', '<')) if d.get('bo', '<') == '>' else klass.header_class()
        hdr.set_data_dtype(hd)
        img = klass(data, np.eye(4), hdr)
    if img.get_data_dtype().newbyteorder('=') != hd:
        raise HarnessError(f'image header dtype {img.get_data_dtype()} is not {hd}')
    if d['sl'] is not None or d['it'] is not None:
        if d['it'] is None:
            img.header.set_slope_inter(float(Fr(d['sl'])))
        else:
            img.header.set_slope_inter(float(Fr(d['sl'])), float(Fr(d['it'])))
    return img


def header_state(img):
    hdr = img.header
    dt = img.get_data_dtype()
    tok = dt_token(np.dtype(dt).newbyteorder('=').name) if not isinstance(dt, str) else 'alias:' + dt

    def fld(has, name):
        if not has:
            return '_'
        x = float(hdr[name])
        return '_' if math.isnan(x) else fr_str(Fr(x))
    return f'H {tok} {fld(hdr.has_data_slope, "scl_slope")} {fld(hdr.has_data_intercept, "scl_inter")}'


def run_tfm(d, case):
    import tempfile
    import nibabel as nib
    klass = getattr(nib, d['kls'])
    data = laid_out(d)
    if d.get('view'):
        # the image array is a NON-CONTIGUOUS view: every other plane of a larger array whose other planes hold
        # extreme values (they must not influence anything)
        ax = 0 if (d.get('order', 'C') == 'C' or not d.get('shape')) else data.ndim - 1
        shp = list(data.shape)
        shp[ax] *= 2
        big = np.empty(shp, dtype=data.dtype, order=d.get('order', 'C') if d.get('shape') else 'C')
        junk = np.finfo(data.dtype).max if data.dtype.kind == 'f' else np.iinfo(data.dtype).max
        big[...] = junk
        sl_ = [slice(None)] * data.ndim
        sl_[ax] = slice(0, None, 2)
        big[tuple(sl_)] = data
        data = big[tuple(sl_)]
        if data.flags.c_contiguous and data.flags.f_contiguous and data.size > 1:
            raise HarnessError('view is contiguous')
    with warnings.catch_warnings():
        warnings.simplefilter('ignore')
        img = build_image(d, klass, data)
        for a in d['args'][:-1]:                      # earlier saves of the history: outcome not observed
            try:
                img.to_file_map(_bytes_map(klass), **({} if a is None else {'dtype': np.dtype(a)}))
            except Exception:
                pass
    a = d['args'][-1]
    sp = d.get('sp', 'dtype')          # spelling of the dtype= argument
    kw = {} if a is None else {'dtype': np.dtype(a) if sp == 'dtype' else a if sp == 'name' else np.dtype(a).type
                               if sp == 'type' else np.dtype(a).newbyteorder('S')}
    how = d.get('how', 'tfm')
    with tempfile.TemporaryDirectory() if how in ('fn', 'nibsave', 'conv') else io.BytesIO() as tmp, \
            warnings.catch_warnings(record=True) as wl:
        warnings.simplefilter('always')
        try:
            if how == 'tfm':
                fm = _bytes_map(klass)
                img.to_file_map(fm, **kw)
                back = klass.from_file_map(fm)
            elif how == 'bytes':
                back = klass.from_bytes(img.to_bytes(**kw))
            elif how == 'stream':
                bio = io.BytesIO()
                img.to_stream(bio, **kw)
                bio.seek(0)
                back = klass.from_stream(bio)
            else:
                ext = d.get('ext') or KLS_EXT[d['kls']][0]
                if how == 'conv':                   # nib.save converts the image to the class the extension asks for
                    ext = '.img' if d['kls'] in SINGLE_FILE else '.nii'
                path = os.path.join(tmp, 'c02' + ext)
                if how == 'fn':
                    img.to_filename(path, **kw)
                else:
                    nib.save(img, path, **kw)
                back = nib.load(path) if how != 'fn' else klass.from_filename(path)
        except Exception as e:
            return canon_err(e) + ' ' + header_state(img)
        raw = unravel(back.dataobj.get_unscaled(), d)
        reloaded = unravel(back.dataobj, d)
        s, b = float(back.dataobj.slope), float(back.dataobj.inter)
    hs = header_state(img)
    if raw.dtype.newbyteorder('=') != np.dtype(d['out']):
        return 'ERR:on-disk-dtype-' + raw.dtype.name + ' ' + hs
    if not (math.isfinite(s) and math.isfinite(b)):
        return f'ERR:nonfinite-scaling-{s}-{b} ' + hs
    if case is not None:
        case.extra = {'reloaded': reloaded}
    return (f'ok {fr_str(Fr(s))} {fr_str(Fr(b))} [' + ','.join(str(int(q)) for q in raw) + ']' + cast_warning(wl)
            + ' ' + hs)


def split_h(out):
    res, sep, h = out.partition(' H ')
    return res, (sep + h).strip()


def run_any(d, case):
    """result line `ok s b [raw]` / `ERR:…` of a save-like case (without the header tail)"""
    if d['op'] == 'tfm':
        return split_h(run_tfm(d, case))[0]
    if d['op'] == 'rt':
        return run_rt(d, case).split(' H ')[0].split(' D ')[0]
    return run_save(d, case)


def cast_warning(wl):
    """' W:invalid-cast' when NumPy warned about an undefined float -> int cast of DATA being written
    (volumeutils._write_data / array_to_file).  The same warning raised by the writer's nan-fill representability
    PROBE (arraywriters._range_scale: `nan_fill_i == np.array(nan_fill_i, dtype=out_dtype)`, probe value 2**63 or
    2**31 for NaN-containing data) is not a property violation — the data written are correct — and is ignored."""
    for w in wl:
        if 'invalid value encountered in cast' in str(w.message) and not str(w.filename).endswith('arraywriters.py'):
            return ' W:invalid-cast'
    return ''


def run_a2f(d):
    from nibabel.volumeutils import array_to_file
    data = np_array(d['in'], d['vals'])
    s, b = Fr(d['s']), Fr(d['b'])
    sf, bf = np.float32(float(s)), np.float32(float(b))
    if not (Fr(float(sf)) == s and Fr(float(bf)) == b):
        raise HarnessError('a2f slope/inter must be float32 values')
    mn = None if d['mn'] is None else float(Fr(d['mn']))
    mx = None if d['mx'] is None else float(Fr(d['mx']))
    if mn is not None:
        mn = data.dtype.type(mn) if d['in'] in FPREC else int(mn)
    if mx is not None:
        mx = data.dtype.type(mx) if d['in'] in FPREC else int(mx)
    f = io.BytesIO()
    with warnings.catch_warnings(record=True) as wl:
        warnings.simplefilter('always')
        try:
            array_to_file(data, f, np.dtype(d['out']), 0, intercept=bf, divslope=sf, mn=mn, mx=mx, nan2zero=d['n2z'])
        except Exception as e:
            return canon_err(e)
    raw = np.frombuffer(f.getvalue(), dtype=np.dtype(d['out']))
    cw = cast_warning(wl)
    if cw and d['in'] in FPREC and not d['n2z'] and any(v == 'nan' for v in d['vals']):
        return 'ERR:CastNaN'
    return 'ok [' + ','.join(str(int(q)) for q in raw) + ']' + cw


def impl(case):
    d = case.data
    if d['op'] == 'save':
        return run_save(d, case)
    if d['op'] == 'var':
        out = run_save(d, case)
        case.extra = dict(case.extra or {}, full=out)
        if out.startswith('ok ') and ' W:' not in out:
            s, b, _, _ = parse_ok(out)
            return f'ok {1 if s == 1 else 0} {1 if b == 0 else 0} {"+" if s > 0 else "-"}'
        return out.split(' ')[0] if out.startswith('ERR') else out
    if d['op'] == 'tfm':
        out = run_tfm(d, case)
        if d.get('lvl') == 'dec':
            res, h = split_h(out)
            case.extra = dict(case.extra or {}, full=res)
            if res.startswith('ok ') and ' W:' not in res:
                s, b, _, _ = parse_ok(res)
                res = f'ok {1 if s == 1 else 0} {1 if b == 0 else 0} {"+" if s > 0 else "-"}'
            elif res.startswith('ERR'):
                res = res.split(' ')[0]
            return res + ' ' + h
        return out
    if d['op'] == 'a2f':
        return run_a2f(d)
    if d['op'] == 'rt':
        return impl_rt(case)
    if d['op'] == 'rd':
        return run_rd(d)
    from nibabel import casting
    if d['op'] == 'fr':
        from nibabel.volumeutils import finite_range as nib_finite_range
        mn, mx, has_nan = nib_finite_range(laid_out(d), check_nan=True)
        if d['in'] in FPREC:
            mn, mx = float(mn), float(mx)
            if mn == math.inf and mx == -math.inf:
                return f'none {1 if has_nan else 0}'
            if not (math.isfinite(mn) and math.isfinite(mx)):
                return f'nonfinite:{mn}:{mx} {1 if has_nan else 0}'
            return f'{fr_str(Fr(mn))} {fr_str(Fr(mx))} {1 if has_nan else 0}'
        return f'{int(mn)} {int(mx)} {1 if has_nan else 0}'
    if d['op'] == 'shr':
        mn, mx = casting.shared_range(FLT_OF_P[d['p']], np.dtype(d['out']))
        return f'{int(mn)} {int(mx)}'
    if d['op'] == 'fe':
        v = int(d['v'])
        return f'{int(casting.floor_exact(v, FLT_OF_P[d["p"]]))} {int(casting.ceil_exact(v, FLT_OF_P[d["p"]]))}'
    raise ValueError(d)


# --------------------------------------------------------------------------- oracle

def parse_ok(out):
    """'ok s b [..]' -> (s, b, raws, warn)"""
    warn = ''
    if ' W:' in out:
        out, _, warn = out.partition(' W:')
    toks = out.split(' ')
    body = toks[-1][1:-1]
    raws = [int(x) for x in body.split(',')] if body else []
    if len(toks) == 4:
        return Fr(toks[1]), Fr(toks[2]), raws, warn
    return None, None, raws, warn


def ulp32(x):
    """spacing of float32 at |x| (subnormal spacing below 2**-126): bound of the rounding error of a stored float32"""
    x = abs(Fr(x))
    if x == 0:
        return Fr(1, 2 ** 149)
    e = x.numerator.bit_length() - x.denominator.bit_length()
    if Fr(2) ** e > x:
        e -= 1
    return Fr(2) ** (max(e, -126) - 23)


def oracle_save(case, out):
    """The property on the real code, in exact Fraction arithmetic on the STORED slope s / intercept b and the raw
    integers q read back.  For every finite input v (and 0 for NaN, mx / mn for +inf / -inf):

        |q*s + b - v|  <=  |s|/2 + R + G + W

    R (rounding of the stored slope / intercept) = min( ulp32(b) + ulp32(s)*Q ,                       [a priori]
                                                        |b - b*| + |s - s*| * max(|L'|,|H'|) )          [exact replay]
        (s*, b*) = ideal values of the writer variant selected, obtained by replaying the writer's decisions exactly
        (`ideal_scale`); [L', H'] = integer range that variant aims at (theorem Nb.C02.error_bound_gap).  With NaN in
        the data the nan2zero re-fit may move the intercept by a rounding-size amount: 2 ulp32 allowed in addition.
    G (gap term, theorem error_bound_gap) = |s| * max(H' - both_mx, both_mn - L', 0): slope-only writers scale to the
        integer TYPE range but array_to_file clips to shared_range(working float, out): e.g. int32 through a float32
        working type tops out at 2147483520, 127 steps below the ideal image of the maximum.
    W (evaluation of (v - b)/s in the working float with p significand bits; NOT the property's rounding of the stored
        numbers, but inseparable from it): two roundings, relative error < (2u + u^2) of the scaled value x, u = 2**-p,
        i.e. < 3u*|v - b| in data units; plus one float32 subnormal spacing 2**-148 when p = 24.
    Not allowed: any loss in converting the INPUT to the working float (64-bit integers beyond 2**53) — open finding.
    """
    d = case.data
    cls, in_name, out_name = d['cls'], d['in'], d['out']
    vals = [parse_val(s, in_name) for s in d['vals']]
    omin, omax = irange(out_name)
    Q = max(abs(omin), abs(omax))
    if out.startswith('ERR:'):
        if out in ('ERR:WriterError', 'ERR:HeaderDataError', 'ERR:HeaderTypeError', 'ERR:ValueError', 'ERR:AssertionError'):
            return None      # a loud refusal is always within the property (AssertionError: nibabel's own asserts)
        return f'save raised an unexpected exception {out} for {cls} {in_name}->{out_name} {d["vals"][:6]}'
    if not out.startswith('ok '):
        return 'unparseable implementation output ' + out[:80]
    s, b, raws, warn = parse_ok(out)
    if warn:
        return (f'NumPy RuntimeWarning "invalid value encountered in cast" in the data path while saving {cls} {in_name}->{out_name} '
                f'{d["vals"][:6]}')
    if len(raws) != len(vals):
        return f'{len(raws)} values read back, {len(vals)} written'
    if s == 0:
        return 'stored slope is 0'
    fr, has_nan = finite_range(vals)
    p = working_prec(in_name)
    u = Fr(1, 2 ** p)
    bmn, bmx = shared(p, omin, omax)
    # candidate ideals for the writer variant actually selected
    kind, cands = ideal_scale(CLS_WRITER[cls], in_name, out_name, vals)
    if kind == 'err':
        cands = []   # the model refuses but the implementation wrote: judge the numbers written on their own
    apriori = ulp32(b) + ulp32(s) * Q
    gap_type = max(omax - bmx, bmn - omin, 0)

    def tol_for(v):
        """allowed |reload - v| for a finite target value v (exact)"""
        work = 3 * u * abs(v - b) + (Fr(1, 2 ** 148) if p == 24 else 0)
        t_apriori = abs(s) / 2 + apriori + abs(s) * gap_type + work
        best = None
        for (s_, b_, (L, H)) in cands:
            gap = max(H - bmx, bmn - L, 0)
            t = abs(s) / 2 + abs(b - b_) + abs(s - s_) * max(abs(L), abs(H), 1) + abs(s) * gap + work
            # nan2zero intercept re-fit (arraywriters.py:676-684) moves the intercept by a rounding-size amount
            if has_nan:
                t += 2 * ulp32(b_) + 2 * ulp32(s_) * max(abs(L), abs(H), 1)
            best = t if best is None else max(best, t)
        return t_apriori if best is None else min(t_apriori, best)

    if fr is None:
        mn = mx = None
    else:
        mn, mx = fr
    reloaded = (case.extra or {}).get('reloaded') if isinstance(case.extra, dict) else None
    for i, (v, q) in enumerate(zip(vals, raws)):
        if not (omin <= q <= omax):
            return f'raw value {q} outside the on-disk type range [{omin}, {omax}]'
        r = q * s + b
        if v == 'nan':
            target, what = Fr(0), 'NaN must reload as (approximately) zero'
        elif v == 'inf':
            if mx is None:
                continue
            target, what = mx, '+inf must reload as the largest finite input'
        elif v == '-inf':
            if mn is None:
                continue
            target, what = mn, '-inf must reload as the smallest finite input'
        else:
            target, what = v, 'finite value must reload within half a stored step plus the slope/intercept rounding'
            # wrap test: the raw value is the clipped, rounded scaled value
            x = (v - b) / s
            ideal = rint_he(x)
            expected = min(max(ideal, omin), omax)
            qtol = 1 + gap_type + int(4 * u * min(abs(ideal), Q)) + int(Fr(1, 2 ** 22) * Q if p == 24 else 0)
            if abs(q - expected) > qtol and (ideal < omin or ideal > omax):
                return (f'wrap-around: {cls} {in_name}->{out_name} value {float(v)!r} scales to {ideal} (outside the '
                        f'type range), stored as {q} instead of {expected}; slope {float(s)!r} inter {float(b)!r}')
        tol = tol_for(target)
        err = abs(r - target)
        if err > tol:
            return (f'{what}: {cls} {in_name}->{out_name} input #{i} {d["vals"][i]} stored as {q} reloads as '
                    f'{float(r)!r}; slope {float(s)!r} inter {float(b)!r}; error {float(err)!r} > bound {float(tol)!r} '
                    f'(= {float(err / abs(s)):.3f} vs {float(tol / abs(s)):.3f} stored steps)')
        if mn is not None and v != 'nan':
            slack = abs(s) + tol - abs(s) / 2
            if r < mn - slack or r > mx + slack:
                return (f'reloaded value {float(r)!r} leaves the finite input range [{float(mn)!r}, {float(mx)!r}] by '
                        f'more than one step: {cls} {in_name}->{out_name} input #{i}')
        if reloaded is not None and i < len(reloaded):
            rf = float(reloaded[i])
            if not math.isfinite(rf):
                return f'reloaded value #{i} is {rf!r}'
            if abs(Fr(rf) - r) > Fr(1, 2 ** 21) * (abs(q * s) + abs(b)) + Fr(1, 10 ** 300):
                return (f'apply_read_scaling: reloaded {rf!r} is not raw*slope+inter = {float(r)!r} '
                        f'({cls} {in_name}->{out_name} raw {q} slope {float(s)!r} inter {float(b)!r})')
    return None


def oracle_a2f(case, out):
    d = case.data
    if out.startswith('ERR:'):
        return None if out in ('ERR:ValueError', 'ERR:CastNaN') else 'array_to_file raised ' + out
    _, _, raws, warn = parse_ok(out)
    if warn:
        return 'NumPy RuntimeWarning "invalid value encountered in cast" in array_to_file'
    in_name, out_name = d['in'], d['out']
    vals = [parse_val(v, in_name) for v in d['vals']]
    s, b = Fr(d['s']), Fr(d['b'])
    omin, omax = irange(out_name)
    p = working_prec(in_name)
    bmn, bmx = shared(p, omin, omax)
    mn = None if d['mn'] is None else Fr(d['mn'])
    mx = None if d['mx'] is None else Fr(d['mx'])
    if mn is not None and mx is not None and (mx < mn or (mn == 0 and mx == 0)):
        return None if all(q == 0 for q in raws) else 'zeros expected'
    if in_name not in FPREC and s == 1 and b == 0:
        return None
    for v, q in zip(vals, raws):
        if not (omin <= q <= omax):
            return f'raw {q} outside type range'
        if isinstance(v, Fr):
            w = v
            if mn is not None:
                w = max(w, mn)
            if mx is not None:
                w = min(w, mx)
            if mn is not None and mx is not None and (mn > mx):
                continue
            exp = min(max(rint_he((w - b) / s), bmn), bmx)
            if abs(q - exp) > 1 + int(4 * Fr(1, 2 ** p) * abs(exp)):
                return (f'array_to_file: value {float(v)!r} (slope {float(s)!r}, inter {float(b)!r}, mn {d["mn"]}, mx '
                        f'{d["mx"]}) -> {out_name} stored {q}, expected the clipped rounded scaled value {exp} (wrap / wrong clip)')
    return None


def oracle_preset(case, res):
    """caller-fixed scaling (slope / inter preset in the header): nibabel writes the array AS IT IS (documented), so the
    half-step bound does not apply; what must still hold: a loud refusal or raw = the rounded value clipped into the
    on-disk type (no wrap-around), NaN -> 0, no undefined cast, the stored slope / inter are the caller's."""
    d = case.data
    if res.startswith('ERR:'):
        return None if res in ('ERR:WriterError', 'ERR:HeaderDataError', 'ERR:HeaderTypeError', 'ERR:ValueError') else \
            f'save with preset scaling raised {res}'
    s, b, raws, warn = parse_ok(res)
    if warn:
        return 'NumPy RuntimeWarning "invalid value encountered in cast" while saving with preset scaling'
    if s != Fr(d['sl']) or b != (Fr(d['it']) if d['it'] is not None else 0):
        return f'preset scaling ({d["sl"]}, {d["it"]}) stored as ({s}, {b})'
    vals = [parse_val(v, d['in']) for v in d['vals']]
    omin, omax = irange(d['out'])
    p = working_prec(d['in'])
    bmn, bmx = shared(p, omin, omax)
    for v, q in zip(vals, raws):
        if not (omin <= q <= omax):
            return f'raw {q} outside type range'
        if d['in'] not in FPREC:
            exp = min(max(int(v), omin), omax)
            if q != exp:
                return f'preset scaling: integer {v} -> {d["out"]} stored {q}, expected {exp} (wrap / wrong clip)'
            continue
        exp = 0 if v == 'nan' else bmx if v == 'inf' else bmn if v == '-inf' else min(max(rint_he(v), bmn), bmx)
        if abs(q - exp) > 1 + int(4 * Fr(1, 2 ** p) * abs(exp)):
            return f'preset scaling: value {v} -> {d["out"]} stored {q}, expected {exp} (wrap / wrong clip)'
    return None


def oracle_tfm(case, out):
    """the property on a `to_file_map(dtype=…)` history: the observed (last) save must meet exactly the same bound as
    a save whose on-disk type was put into the header — the way the type was chosen, the data type the header held
    before, the image class variant, the save API, the byte order and earlier saves are irrelevant."""
    d = case.data
    res, _ = split_h(out)
    if d.get('lvl') == 'dec':
        full = (case.extra or {}).get('full') if isinstance(case.extra, dict) else None
        res = full if full is not None else run_any(d, case)
    if d['sl'] is not None or d['it'] is not None:
        return oracle_preset(case, res)
    shim = Case(None, dict(d, op='save'), None, d['stream'], case.extra)
    return oracle_save(shim, res)


def oracle(case, out):
    d = case.data
    if d['op'] == 'tfm':
        return oracle_tfm(case, out)
    if d['op'] == 'rt':
        return oracle_rt(case, out)
    if d['op'] == 'rd':
        return oracle_rd(case, out)
    if d['op'] == 'save':
        return oracle_save(case, out)
    if d['op'] == 'var':
        full = (case.extra or {}).get('full') if isinstance(case.extra, dict) else None
        if full is None:
            full = run_save(d, case)
        return oracle_save(case, full)
    if d['op'] == 'a2f':
        return oracle_a2f(case, out)
    if d['op'] == 'fr':
        fr, has_nan = finite_range([parse_val(v, d['in']) for v in d['vals']])
        exp = ('none' if fr is None else f'{fr_str(fr[0])} {fr_str(fr[1])}') + f' {1 if has_nan else 0}'
        return None if out == exp else (f'finite_range of {d["in"]} array shape {d.get("shape")} order {d.get("order")} '
                                        f'= {out}, reference {exp}; values (memory order) {d["vals"][:12]}')
    if d['op'] == 'shr':
        omin, omax = irange(d['out'])
        exp = shared(min(d['p'], 64), omin, omax)
        return None if out == f'{exp[0]} {exp[1]}' else f'shared_range(p={d["p"]}, {d["out"]}) = {out}, exact reference {exp}'
    if d['op'] == 'fe':
        v = int(d['v'])
        exp = f'{floor_exact(d["p"], v)} {-floor_exact(d["p"], -v)}'
        return None if out == exp else f'floor_exact/ceil_exact(p={d["p"]}, {v}) = {out}, exact reference {exp}'
    return None


def _eff_input(d):
    """(input dtype name, parsed values) of the data the observed save writes"""
    if d['op'] == 'rt':
        ex = rt_expect(d)
        return ex['in_eff'], ex['vals']
    return d['in'], [parse_val(s, d['in']) for s in d['vals']]


def signature(case, what):
    d = case.data
    if d['op'] == 'rd':
        return 'reader:' + HK_OF[d['kls']]
    if d['op'] == 'rt' and (what.startswith('reader:') or 'loading a' in what or 'documented refusal' in what):
        return 'reader:' + HK_OF.get(d['dkls'], 'mgh')
    if d['op'] not in ('save', 'var', 'tfm', 'rt'):
        return 'C02:' + d['op']
    if d['op'] == 'tfm' and (d['sl'] is not None or d['it'] is not None):
        return f'preset-scaling:{d["cls"]}'
    in_name, vals = _eff_input(d)
    wrote = 'raised an unexpected' not in what
    fin = [v for v in vals if isinstance(v, Fr)]
    if (d['cls'] in ('analyze', 'mgh') and wrote and 'inf must reload' in what and fin and all(v == 0 for v in fin)):
        return 'noscale:inf-with-all-zero-finite'
    if (in_name in ('int64', 'uint64') and wrote and ('finite value must reload' in what or 'wrap-around' in what)
            and any(isinstance(v, Fr) and abs(v) > 2 ** 53 for v in vals)):
        # narrow: the failure must vanish once the float64 rounding of the 64-bit input itself is allowed
        if _passes_with_input_rounding(case):
            return 'int64:beyond-float64-precision'
    if d['cls'] == 'mgh' and wrote and scaling_needed(in_name, d['out'], vals):
        return 'mgh:out-of-range-clipped-not-refused'
    kind = 'wrap' if 'wrap' in what else 'nan' if 'NaN must' in what else 'inf' if 'inf must' in what else \
        'warning' if 'RuntimeWarning' in what else 'exception' if 'unexpected' in what else 'error-bound'
    return f'{"route" if d["op"] == "rt" else "scaling"}:{d["cls"]}:{kind}'


def _passes_with_input_rounding(case):
    """True when every element is within the bound of SOME integer within 2**-52 * |v| of the input value."""
    d = case.data
    out = run_any(d, None)
    if not out.startswith('ok ') or ' W:' in out:
        return False
    s, b, raws, _ = parse_ok(out)
    _, vals = _eff_input(d)
    for v, q in zip(vals, raws):
        if not isinstance(v, Fr):
            continue
        r = q * s + b
        if abs(r - v) > abs(s) / 2 + Fr(1, 2 ** 22) * (abs(b) + abs(s) * 2 ** 64) + Fr(1, 2 ** 51) * abs(v):
            return False
    return True


def _failure_sig(case):
    out = impl(case)
    bad = oracle(case, out)
    return signature(case, bad) if bad else None


def shrink_candidates(case):
    """drop one value at a time, keeping only candidates that fail with the SAME signature (so that shrinking a new
    violation can never slide into the input of a known finding)"""
    d = case.data
    if d['op'] == 'rt':
        yield from _shrink_rt(case)
        return
    if d['op'] not in ('save', 'a2f', 'var', 'tfm'):
        return
    try:
        sig0 = _failure_sig(case)
    except Exception:
        return
    vs = d['vals']
    cands = []
    if d['op'] == 'tfm':
        # simplify the configuration first: no history, in-memory save, plainest construction, native byte order
        simp = []
        if len(d['args']) > 1:
            simp.append(dict(d, args=d['args'][-1:]))
        if d.get('how', 'tfm') != 'tfm':
            simp.append(dict(d, how='tfm', ext=None))
        if d.get('bo', '<') != '<':
            simp.append(dict(d, bo='<'))
        if d.get('mk') in ('loaded', 'set', 'ctor'):
            simp.append(dict(d, mk='fresh' if d['hd'] == d['in'] and d['in'] not in ('int64', 'uint64') else 'hdr'))
        if d.get('sp', 'dtype') != 'dtype':
            simp.append(dict(d, sp='dtype'))
        if d.get('view'):
            simp.append(dict(d, view=False))
        if d['kls'] != KLS[d['cls']][0]:
            simp.append(dict(d, kls=KLS[d['cls']][0], ext=None))
        for d2 in simp:
            try:
                c2 = case_from_data(dict(d2, exact=False))
                if sig0 is None or _failure_sig(c2) == sig0:
                    yield c2
            except Exception:
                continue
    if d.get('shape'):
        shp, k = list(d['shape']), None
        ax = 0 if d.get('order', 'C') == 'C' else len(shp) - 1
        k, m = shp[ax], len(vs) // max(shp[ax], 1)
        for j in range(k if k > 2 else 0):          # drop one whole slab
            s2 = list(shp)
            s2[ax] = k - 1
            cands.append(dict(d, vals=vs[:j * m] + vs[(j + 1) * m:], shape=s2))
        flat = {kk: vv for kk, vv in d.items() if kk not in ('shape', 'order')}
        cands.append(flat)
    else:
        flat = d
    for d2 in cands:
        if d['op'] in ('save', 'var', 'tfm'):
            d2 = dict(d2, exact=False)
        c2 = case_from_data(d2)
        try:
            if sig0 is None or _failure_sig(c2) == sig0:
                yield c2
        except Exception:
            continue
    if d.get('shape'):
        return
    if len(vs) > 1:
        for i in range(len(vs)):
            d2 = dict(d, vals=vs[:i] + vs[i + 1:])
            if d['op'] in ('save', 'var', 'tfm'):
                d2['exact'] = False
            c2 = case_from_data(d2)
            try:
                if sig0 is None or _failure_sig(c2) == sig0:
                    yield c2
            except Exception:
                continue


def _shrink_rt(case):
    d = case.data
    try:
        sig0 = _failure_sig(case)
    except Exception:
        return
    simp = []
    pre = d.get('pre') or []
    for i in range(len(pre)):
        simp.append(dict(d, pre=pre[:i] + pre[i + 1:]))
    if d.get('post') is not None:
        simp.append(dict(d, post=None))
    if d.get('how', 'tfm') != 'tfm':
        simp.append(dict(d, how='tfm'))
    if d['route'] != 'same':
        simp.append(dict(d, route='same', via='ctor', dkls=d['kls']))
    if d.get('gl') is not None:
        simp.append(dict(d, gl=None))
    ordinary = ['nan', 'nan'] if HK_OF.get(d['dkls']) == 'nifti' else ['1', '0']
    if d['F'] != ordinary and d['src'] == 'arr':
        simp.append(dict(d, F=ordinary))
    if d.get('arg') is not None and d['hd'] != d['arg']:
        simp.append(dict(d, hd=d['arg'], arg=None))
    vs = d['vals']
    if len(vs) > 1:
        for i in range(len(vs)):
            simp.append(dict(d, vals=vs[:i] + vs[i + 1:]))
    for d2 in simp:
        try:
            c2 = case_from_data(d2)
            if sig0 is None or _failure_sig(c2) == sig0:
                yield c2
        except Exception:
            continue


# --------------------------------------------------------------------------- generators

def hexf(x):
    return float(x).hex()


def grid_vals(A, js, k, in_name):
    """values (A + j) * 2**k as value strings of the input dtype (must be exact)"""
    out = []
    for j in js:
        if isinstance(j, str):
            out.append(j)
            continue
        v = (Fr(A) + Fr(j)) * Fr(2) ** k
        if in_name in FPREC:
            f = float(v)
            assert Fr(f) == v
            out.append(f.hex())
        else:
            assert v.denominator == 1
            out.append(str(v.numerator))
    return out


def representable(valstrs, in_name):
    try:
        np_array(in_name, valstrs)
        return True
    except (HarnessError, OverflowError):
        return False


def gen_exact_float(rng, n):
    """NIfTI / SPM, float input, range = (shared float32 range) * 2**k on a quarter-step dyadic grid"""
    out = []
    for _ in range(n):
        cls = rng.choice(['nifti', 'nifti', 'spm'])
        out_name = rng.choice(CLS_OUT[cls])
        omin, omax = irange(out_name)
        bits = np.dtype(out_name).itemsize * 8
        if bits <= 16:
            in_name = rng.choice(['float64', 'float32', 'float32', 'float16' if bits == 8 else 'float32'])
        else:
            in_name = 'float64'
        frac = [0, Fr(1, 4), Fr(1, 2), Fr(3, 4)] if in_name != 'float16' else [0]
        with_nan = rng.random() < 0.3
        with_inf = rng.random() < 0.3
        if cls == 'nifti':
            lo, hi = shared(24, omin, omax)
            R = hi - lo
            unit = 1 if bits <= 32 else 2 ** 40
            if in_name == 'float16':
                A = rng.randrange(-300, 300)
                k = rng.randrange(-3, 4)
            elif in_name == 'float32':
                A = rng.randrange(-40, 40) if bits == 16 else rng.randrange(-4000, 4000)
                k = rng.randrange(-30, 30)
            else:
                A = rng.randrange(-2 ** 12, 2 ** 12) * (1 if bits <= 16 else 2 ** 8 if bits == 32 else 2 ** 40)
                k = rng.randrange(-40, 40)
            ua = 1 if bits <= 16 else 2 ** 8 if bits == 32 else 2 ** 40
            if rng.random() < 0.35 and omin == 0:
                A = -R - abs(A) if rng.random() < 0.5 else -(rng.randrange(R // 2, R + 1) // ua * ua)   # flip region
            if with_nan:
                A = rng.choice([0, -R, -(rng.randrange(0, R + 1) // ua * ua)])
            js = [0, R]
            if with_nan and A in (0, -R) and rng.random() < 0.5:
                js = [R] if A == 0 else [0]       # the NaN alone extends the range to 0
                js.append(rng.randrange(1, R // unit) * unit)
            for _ in range(rng.randrange(1, 7)):
                j = rng.randrange(0, R // unit + 1) * unit
                if unit == 1:
                    j = min(Fr(j) + rng.choice(frac), Fr(R))
                js.append(j)
        else:
            # SPM: slope only; in_max = omax * 2**k (positive data) / in_min = -omax * 2**k (uint, negative data) /
            # in_min = omin * 2**k (signed)
            A = 0
            if in_name == 'float16':
                k = rng.randrange(-3, 4)
            else:
                k = rng.randrange(-30, 30)
            mode = rng.choice(['pos', 'neg'] if omin == 0 else ['pos', 'negfull', 'both'])
            js = []
            if mode == 'pos':
                js = [omax] + [min(Fr(rng.randrange(0, omax + 1)) + rng.choice(frac), Fr(omax)) for _ in range(rng.randrange(1, 6))]
                if omin != 0 and rng.random() < 0.5:
                    js.append(-Fr(rng.randrange(0, omax)) - rng.choice(frac))
            elif mode == 'neg':
                js = [-omax] + [max(-Fr(rng.randrange(0, omax + 1)) - rng.choice(frac), Fr(-omax)) for _ in range(rng.randrange(1, 6))]
            elif mode == 'negfull':
                js = [omin] + [Fr(rng.randrange(omin, 1)) + rng.choice(frac) for _ in range(rng.randrange(1, 6))]
            else:
                js = [omin, rng.randrange(0, omax + 1)] + [Fr(rng.randrange(omin, omax)) + rng.choice(frac) for _ in range(rng.randrange(1, 5))]
            if rng.random() < 0.1 and omin == 0:
                js = [-rng.randrange(1, omax), rng.randrange(1, omax)]     # mixed sign -> WriterError
        if with_nan:
            js.insert(rng.randrange(0, len(js) + 1), 'nan')
        if with_inf:
            js.insert(rng.randrange(0, len(js) + 1), rng.choice(['inf', '-inf']))
            if rng.random() < 0.5:
                js.append(rng.choice(['inf', '-inf']))
        rng.shuffle(js)
        try:
            vs = grid_vals(A, js, k, in_name)
        except AssertionError:
            continue
        if not representable(vs, in_name):
            continue
        exact = exact_case(cls, in_name, out_name, [parse_val(v, in_name) for v in vs])
        out.append(mk_save(cls, in_name, out_name, vs, ('exact-nan' if with_nan else 'exact') if exact else 'general', exact))
    return out


def gen_exact_int(rng, n):
    """integer input: in range (no scaling), intercept only, sign flip, range scaling with range = R * 2**k, refusals"""
    out = []
    for _ in range(n):
        cls = rng.choice(['nifti', 'nifti', 'spm', 'analyze', 'mgh'])
        out_name = rng.choice(CLS_OUT[cls])
        in_name = rng.choice([t for t in INT_TYPES if t != out_name])
        omin, omax = irange(out_name)
        imin, imax = irange(in_name)
        lo32, hi32 = shared(24, omin, omax)
        R = hi32 - lo32
        mode = rng.choice(['fit', 'offset', 'flip', 'scale', 'scale', 'edge'])
        cap = 2 ** 52   # keep every value exactly representable in the float64 working type
        lo_ok, hi_ok = max(imin, -cap), min(imax, cap)
        if mode == 'fit':
            a, b_ = max(lo_ok, omin), min(hi_ok, omax)
            if a > b_:
                continue
            vs = [rng.randrange(a, b_ + 1) for _ in range(rng.randrange(1, 6))]
        elif mode == 'offset':
            w = rng.randrange(1, min(R, hi_ok - lo_ok) + 1) if min(R, hi_ok - lo_ok) >= 1 else 1
            if hi_ok - w < lo_ok:
                continue
            a = rng.randrange(lo_ok, hi_ok - w + 1)
            vs = [a, a + w] + [rng.randrange(a, a + w + 1) for _ in range(rng.randrange(0, 5))]
        elif mode == 'flip':
            if lo_ok >= 0:
                continue
            a = -rng.randrange(0, min(-lo_ok, hi32 + 3) + 1)
            vs = [a] + [-rng.randrange(0, -a + 1) for _ in range(rng.randrange(0, 5))]
        elif mode == 'scale':
            if cls == 'spm' or cls in ('analyze', 'mgh'):
                # slope-only: in_max = omax * 2**k
                k = rng.randrange(0, 20)
                top = omax * 2 ** k
                if top > hi_ok:
                    continue
                vs = [top] + [rng.randrange(0 if omin == 0 else max(lo_ok, omin * 2 ** k), top + 1) for _ in range(rng.randrange(1, 5))]
            else:
                k = rng.randrange(1, 24)
                w = R * 2 ** k
                if w > hi_ok - lo_ok:
                    continue
                a = rng.randrange(lo_ok, hi_ok - w + 1)
                a = a // (2 ** 30) * (2 ** 30) if abs(a) >= 2 ** 40 else a
                if a < lo_ok:
                    continue
                vs = [a, a + w] + [a + rng.randrange(0, 4 * R + 1) * 2 ** k // 4 for _ in range(rng.randrange(1, 6))]
                if max(abs(v) for v in vs) * 4 // 2 ** k >= 2 ** 52:
                    continue
        else:
            vs = [rng.choice([lo_ok, hi_ok, omin, omax, omin - 1, omax + 1, 0, -1, 1]) for _ in range(rng.randrange(1, 5))]
            vs = [min(max(v, lo_ok), hi_ok) for v in vs]
        vstr = [str(v) for v in vs]
        # 24-bit exactness of the intercept the writer will choose: let the model decide; inexact ones go to general
        exact = exact_int_case(cls, in_name, out_name, vs)
        out.append(mk_save(cls, in_name, out_name, vstr, 'exact-int' if exact else 'general', exact))
    return out


def is_f32(x):
    try:
        return Fr(float(np.float32(float(x)))) == x
    except OverflowError:
        return False


def sig_bits(x):
    """significant bits of a dyadic rational (None if not dyadic)"""
    if x == 0:
        return 0
    d = x.denominator
    if d & (d - 1):
        return None
    n = abs(x.numerator)
    return (n >> ((n & -n).bit_length() - 1)).bit_length()


def exact_case(cls, in_name, out_name, vals):
    """True when every float operation nibabel performs on this case is exact (then model == code bit for bit):
    ideal slope / intercept are float32 values, and v - b, (v - b) / s fit the working significand for every value,
    the thresholds and (NaN present) for 0."""
    kind, cands = ideal_scale(CLS_WRITER[cls], in_name, out_name, vals)
    if kind == 'err':
        return True
    s, b, _ = cands[0]
    if not (is_f32(s) and is_f32(b)):
        return False
    p = working_prec(in_name)
    targets = [v for v in vals if isinstance(v, Fr)]
    if any(v == 'nan' for v in vals):
        targets.append(Fr(0))
        nf = sig_bits(-b / s)
        if nf is None or nf > 24:
            return False
    for v in targets:
        for t in (v, v - b, (v - b) / s):
            n = sig_bits(t)
            if n is None or n > p:
                return False
            if t != 0 and not (Fr(1, 2 ** 100) < abs(t) < 2 ** 100):
                return False
    return True


def exact_int_case(cls, in_name, out_name, vs):
    return exact_case(cls, in_name, out_name, [Fr(v) for v in vs])


def gen_const_refuse(rng, n):
    out = []
    for _ in range(n):
        cls = rng.choice(['nifti', 'spm', 'analyze', 'mgh'])
        out_name = rng.choice(CLS_OUT[cls])
        in_name = rng.choice(['float32', 'float64'] if cls != 'mgh' else ['float32'])
        r = rng.random()
        omin, omax = irange(out_name)
        if r < 0.25:       # constant float32-representable value
            c = Fr(rng.randrange(-2 ** 20, 2 ** 20), 2 ** rng.randrange(0, 16))
            if cls == 'spm':
                c = Fr(omax if c >= 0 or omin != 0 else -omax) * Fr(2) ** rng.randrange(-10, 10)
            vs = [hexf(c)] * rng.randrange(1, 4)
            if cls == 'nifti' and rng.random() < 0.3:
                vs.append(rng.choice(['inf', '-inf']))
        elif r < 0.4:      # all zero / all NaN / all inf / empty range
            vs = rng.choice([['0x0p+0'] * 3, ['nan'] * 2, ['nan', 'inf'], ['inf', '-inf'], ['0x0p+0', 'nan'], ['-0x0p+0', '0x0p+0']])
        elif r < 0.7:      # floats that are integers within the type range (MGH / Analyze: no scaling fields)
            vs = [hexf(rng.randrange(omin, omax + 1)) for _ in range(rng.randrange(1, 5))]
            if in_name == 'float32' and not representable(vs, in_name):
                continue
        else:              # in-range halves, quarter values
            vs = [hexf(Fr(rng.randrange(4 * max(omin, -2 ** 20), 4 * min(omax, 2 ** 20)), 4)) for _ in range(rng.randrange(1, 5))]
        if not representable(vs, in_name):
            continue
        exact = exact_case(cls, in_name, out_name, [parse_val(v, in_name) for v in vs])
        out.append(mk_save(cls, in_name, out_name, vs, 'const' if exact else 'general', exact))
    return out


def gen_a2f(rng, n):
    """array_to_file with FREE stored (slope, inter) and thresholds — exercises the clip-threshold logic directly,
    including thresholds that scale far outside the type range (the pre-fix inversion)."""
    out = []
    for _ in range(n):
        out_name = rng.choice(INT_TYPES)
        in_name = rng.choice(['float64', 'float64', 'float32'])
        omin, omax = irange(out_name)
        k = rng.randrange(-8, 9)
        s = Fr(2) ** k * rng.choice([1, 1, -1])
        big = rng.random() < 0.4
        if big:     # intercept far from the data: scaled thresholds on one side of the type range
            base = rng.choice([2 ** 24, 2 ** 26, 2 ** 30]) * rng.choice([1, -1])
            b = Fr(base + rng.choice([-4, 0, 4, 8]) * (abs(base) >> 22))
            vs0 = [Fr(base + rng.randrange(-6, 7)) for _ in range(rng.randrange(1, 5))]
        else:
            b = Fr(rng.randrange(-2 ** 10, 2 ** 10)) * Fr(2) ** k
            span = min(omax - omin, 2 ** 12)
            vs0 = [b + (Fr(rng.randrange(-span // 8 + omin, omax + span // 8 + 1 if omax < 2 ** 20 else 2 ** 20)) +
                        rng.choice([0, Fr(1, 4), Fr(1, 2), Fr(3, 4)])) * s for _ in range(rng.randrange(1, 6))]
        if in_name == 'float32' and not all(is_f32(v) for v in vs0):
            in_name = 'float64'
        if not is_f32(b):
            continue
        fin = list(vs0)
        r = rng.random()
        if r < 0.6:
            mn, mx = min(fin), max(fin)
        elif r < 0.8:
            mn, mx = None, None
        else:
            mn, mx = min(fin) + abs(s) * rng.randrange(0, 3), max(fin) - abs(s) * rng.randrange(0, 3)
        vs = [hexf(v) for v in vs0]
        n2z = rng.random() < 0.6
        if rng.random() < 0.3:
            vs.insert(rng.randrange(0, len(vs) + 1), rng.choice(['nan', 'inf', '-inf']) if n2z else rng.choice(['inf', '-inf']))
        if not representable(vs, in_name):
            continue
        if mn is not None and not all(is_f32(t) if in_name == 'float32' else Fr(float(t)) == t for t in (mn, mx)):
            continue
        p = working_prec(in_name)
        targets = list(vs0) + ([mn, mx] if mn is not None else []) + [Fr(0)]
        if any((sig_bits(t - b) or 0) > p or (sig_bits((t - b) / s) or 0) > p for t in targets):
            continue
        out.append(mk_a2f(in_name, out_name, s, b, mn, mx, n2z, vs))
    return out


def gen_spec():
    out = []
    for p in (24, 53, 64):
        for t in INT_TYPES:
            out.append(mk_spec('shr', p, t))
        for e in (7, 8, 15, 16, 23, 24, 25, 31, 32, 52, 53, 54, 62, 63, 64):
            for d in (-3, -2, -1, 0, 1, 2, 3, 129, 2 ** max(e - 24, 0) + 1):
                for sg in (1, -1):
                    out.append(mk_spec('fe', p, sg * (2 ** e + d)))
    return out


SPECIAL_F = {
    'float16': [6.1e-5, 5.96e-8, 65504.0, 1.0, 0.1, 2049.0, 1e-3],
    'float32': [1e-40, 1.1754944e-38, 3.4028235e38, 1e38, 16777216.0, 16777218.0, 0.1, 1e-7, 1e7, 3.0000002],
    'float64': [1e-40, 1e-300, 1e38, 3.4028235e38, 16777217.0, 16777219.0, 0.1, 1e-7, 2.0 ** 53 + 2, 4294967297.0,
                1e18, 123456789.123, 9.87654321e-5],
}


def gen_general(rng, n):
    out = []
    for _ in range(n):
        cls = rng.choice(['nifti', 'nifti', 'nifti', 'spm', 'spm2', 'analyze', 'mgh'])
        ckey = 'spm' if cls == 'spm2' else cls
        out_name = rng.choice(CLS_OUT[ckey])
        omin, omax = irange(out_name)
        if rng.random() < 0.7:
            in_name = rng.choice(FLT_TYPES if cls != 'mgh' else FLT_TYPES)
            ft = np.dtype(in_name).type
            fi = np.finfo(ft)
            shape = rng.choice(['const', 'range', 'range', 'onesided', 'tiny', 'huge', 'offset', 'typelimit', 'special'])
            m = rng.randrange(1, 7)
            if shape == 'const':
                c = rng.choice(SPECIAL_F[in_name] + [rng.uniform(-1e6, 1e6), float(rng.randrange(-2 ** 26, 2 ** 26))])
                xs = [c * rng.choice([1, -1])] * m
            elif shape == 'range':
                sc = 10.0 ** rng.uniform(-6, 6)
                c = rng.uniform(-1, 1) * sc * rng.choice([0, 1, 10, 1000])
                xs = [c + rng.gauss(0, 1) * sc for _ in range(m + 1)]
            elif shape == 'onesided':
                sc = 10.0 ** rng.uniform(-3, 5)
                sg = rng.choice([1, -1])
                xs = [sg * abs(rng.gauss(0, 1)) * sc for _ in range(m)] + [0.0] * rng.randrange(0, 2)
            elif shape == 'tiny':
                sc = 10.0 ** rng.uniform(-44, -30)
                xs = [rng.uniform(-1, 1) * sc for _ in range(m + 1)]
            elif shape == 'huge':
                sc = 10.0 ** rng.uniform(30, 38) if in_name != 'float16' else 6e4
                xs = [rng.uniform(-1, 1) * sc for _ in range(m + 1)]
            elif shape == 'offset':
                base = rng.choice([2.0 ** 24, 2.0 ** 30, 2.0 ** 40, 1e10, 12345678.9]) * rng.choice([1, -1])
                xs = [base + rng.randrange(-50, 50) * rng.choice([0.5, 1, 3, 1000]) for _ in range(m + 1)]
            elif shape == 'typelimit':
                xs = [rng.choice([omin, omax, omin - 1, omax + 1, omin - 0.5, omax + 0.5, 0, omax * 2.0, omin * 2.0 - 1,
                                  float(fi.max), -float(fi.max), float(fi.tiny)]) for _ in range(m + 1)]
            else:
                xs = [rng.choice(SPECIAL_F[in_name]) * rng.choice([1, -1]) for _ in range(m + 1)]
            with np.errstate(all='ignore'):
                arr = np.array(xs, dtype=np.float64).astype(ft)
            arr = arr[np.isfinite(arr)] if rng.random() < 0.9 else arr
            xs = list(arr)
            k = rng.random()
            if k < 0.25:
                xs.insert(rng.randrange(0, len(xs) + 1), float('nan'))
            if 0.15 < k < 0.4:
                xs.insert(rng.randrange(0, len(xs) + 1), rng.choice([float('inf'), float('-inf')]))
            if k > 0.97:
                xs = [float('nan')] * 2
            if not xs:
                xs = [0.0]
            vs = [val_str(ft(x), in_name) for x in xs]
        else:
            in_name = rng.choice(INT_TYPES)
            imin, imax = irange(in_name)
            shape = rng.choice(['limits', 'wide', 'narrow-far', 'neg', 'const', 'big64'])
            m = rng.randrange(1, 6)
            if shape == 'limits':
                xs = [rng.choice([imin, imax, omin, omax, omin - 1, omax + 1, 0, 1, -1, imax - 1, imin + 1]) for _ in range(m + 1)]
            elif shape == 'wide':
                xs = [rng.randrange(imin, imax + 1) for _ in range(m + 1)]
            elif shape == 'narrow-far':
                w = rng.choice([1, 3, 200, 255, 256, 1000, 65535, 65536, 70000])
                a = rng.randrange(imin, imax + 1)
                xs = [a + rng.randrange(0, w + 1) for _ in range(m + 1)] + [a, a + w]
            elif shape == 'neg':
                xs = [-rng.randrange(0, min(-imin, 2 * omax + 2) + 1) if imin < 0 else 0 for _ in range(m + 1)]
            elif shape == 'const':
                xs = [rng.choice([imin, imax, omax + 1, omin - 1, rng.randrange(imin, imax + 1)])] * m
            else:
                a = rng.choice([2 ** 53, 2 ** 60, 2 ** 62, -2 ** 62, 2 ** 63 - 2000]) if in_name in ('int64', 'uint64') else rng.randrange(imin, imax + 1)
                xs = [a + rng.randrange(0, 1000) for _ in range(m + 1)]
            xs = [min(max(int(x), imin), imax) for x in xs]
            vs = [str(x) for x in xs]
        c = mk_save(cls, in_name, out_name, vs, 'general', False)
        out.append(c)
    return out


def corpus_regressions():
    """pre-fix failing inputs of the repaired defect (also stored as corpus files)"""
    out = []
    for t in INT_TYPES:
        out.append(mk_save('nifti', 'float64', t, [hexf(16777219.0)] * 3, 'regress', False))
        out.append(mk_save('nifti', 'float32', t, [hexf(2.0 ** 30 + 64)] * 2 if False else [hexf(2.0 ** 30)] * 2, 'regress', False))
    out.append(mk_a2f('float64', 'uint8', Fr(1), Fr(16777220), Fr(16777219), Fr(16777219), True, [hexf(16777219.0)], 'regress'))
    out.append(mk_a2f('float64', 'int16', Fr(1), Fr(-16777220), Fr(-16777219), Fr(-16777219), False, [hexf(-16777219.0)], 'regress'))
    return out


SPECIALS = ('nan', 'inf', '-inf')


def layout(rng, vs, in_name):
    """Spread the values over a 3-D array with several memory slabs.  Returns (values in memory order, shape, order).
    Values are only repeated, never invented, so the finite range (and exactness) of the case is unchanged.
    Modes: shuffle | asis | late = the first slab(s) hold finite values only, the first non-finite value sits in a LATER
    slab, and the extremes are placed before / in / after that slab."""
    vs = list(vs)
    fin = [v for v in vs if v not in SPECIALS]
    non = [v for v in vs if v in SPECIALS]
    k = rng.choice([2, 2, 3, 4, 5])
    m = max(1, -(-len(vs) // k)) + rng.choice([0, 0, 1, 2])
    n = k * m
    pool = fin or vs
    mode = rng.choice(['shuffle', 'late', 'late', 'late', 'asis'])
    jmax = k - (-(-len(non) // m)) if non else 0
    if mode == 'late' and fin and non and jmax >= 1:
        j = rng.randrange(1, jmax + 1)                # first slab with a non-finite value
        fin = fin + [rng.choice(pool) for _ in range(n - len(vs))]
        order_key = lambda v: parse_val(v, in_name)
        hi, lo = max(fin, key=order_key), min(fin, key=order_key)
        rest = list(fin)
        rest.remove(hi)
        if lo in rest and len(rest) > 1:
            rest.remove(lo)
        else:
            lo = None
        rng.shuffle(rest)
        slots = [None] * n
        late = list(range(j * m, n))
        first = rng.randrange(j * m, (j + 1) * m)
        slots[first] = non[0]
        late.remove(first)
        rng.shuffle(late)
        for v, pos in zip(non[1:], late):
            slots[pos] = v

        def place(v, where):
            region = {'before': range(0, j * m), 'in': range(j * m, (j + 1) * m),
                      'after': range(min(j + 1, k - 1) * m, n)}[where]
            free = [q for q in region if slots[q] is None] or [q for q in range(n) if slots[q] is None]
            slots[rng.choice(free)] = v
        place(hi, rng.choice(['before', 'in', 'after', 'after']))
        if lo is not None:
            place(lo, rng.choice(['before', 'in', 'after', 'after']))
        it = iter(rest)
        for q in range(n):
            if slots[q] is None:
                slots[q] = next(it)
        vs = slots
    else:
        vs = vs + [rng.choice(pool) for _ in range(n - len(vs))]
        if mode != 'asis':
            rng.shuffle(vs)
    inner = rng.choice([(m, 1), (1, m)] + [(a, m // a) for a in (2, 3) if m % a == 0 and m > a])
    order = rng.choice('CF')
    shape = (k,) + inner if order == 'C' else inner + (k,)
    return vs, shape, order


def relayout(rng, case):
    d = case.data
    vs, shape, order = layout(rng, d['vals'], d['in'])
    st = 'general' if d['op'] == 'var' else d['stream']
    return mk_save(d['cls'], d['in'], d['out'], vs, st, d.get('exact', False), shape, order)


def gen_fr(rng, base):
    """finite_range on multi-slab layouts of the value lists the other streams produced (+ their 1-D originals)"""
    out = []
    for c in base:
        d = c.data
        if d['op'] not in ('save', 'var'):
            continue
        if rng.random() < 0.25:
            out.append(mk_fr(d['in'], d['vals'], d.get('shape'), d.get('order', 'C')))
        else:
            vs, shape, order = layout(rng, d['vals'], d['in'])
            out.append(mk_fr(d['in'], vs, shape, order))
    return out


PRESETS = [(1, 0), (2, 0), (Fr(1, 2), 0), (-1, 0), (3, 10), (Fr(1, 4), Fr(-7, 2)), (1, 100), (256, -32768)]


def tfm_variant(rng, c):
    """Re-run the values / class / on-disk type of a save case through the OTHER ways of choosing the on-disk type and
    of saving: the `dtype=` save argument (header holding the array dtype, or any other supported type, before the
    override), image class variants (NIfTI-1/2, single / pair), construction routes (fresh image, header passed in,
    constructor `dtype=`, `set_data_dtype`, image loaded from a file = array proxy), save APIs (to_file_map,
    to_filename, nib.save incl. class conversion by extension, to_bytes, to_stream), big-endian headers, histories of
    earlier saves on the same image, and caller-fixed scaling (slope / inter preset in the header)."""
    d = c.data
    cls = d['cls']
    if cls == 'mgh' or d['op'] not in ('save', 'var'):
        return None
    in_name, out_name = d['in'], d['out']
    kls = rng.choice(KLS[cls])
    sup = supported_dtypes(kls)
    if out_name not in sup:
        return None
    mode = rng.choice(['arg', 'arg', 'arg', 'arg', 'hdr', 'preset'])
    sl = it = None
    if mode == 'preset':
        if cls == 'analyze':
            mode = 'arg'
        else:
            sl, it = rng.choice(PRESETS)
            it = Fr(it) if cls == 'nifti' else None
            sl = Fr(sl)
    if mode == 'hdr' or (mode == 'preset' and rng.random() < 0.4):
        hd, last = out_name, None
    else:
        last = out_name
        same_ok = in_name in sup
        r = rng.random()
        hd = in_name if (same_ok and r < 0.6) else out_name if r > 0.93 else rng.choice(sup)
    args = [last]
    if rng.random() < 0.3:
        for _ in range(rng.choice([1, 1, 2])):
            args.insert(0, rng.choice([None, None] + sup))
    if hd == in_name and in_name not in ('int64', 'uint64'):
        mk = rng.choice(['fresh', 'fresh', 'fresh', 'loaded', 'hdr', 'ctor'])
    else:
        # (the constructor puts the ARRAY dtype into the header before applying `dtype=`: needs a supported array dtype)
        mk = rng.choice(['hdr', 'hdr', 'ctor', 'set'] if in_name in sup else ['hdr', 'hdr', 'set'])
    hows = ['tfm', 'tfm', 'tfm', 'fn', 'nibsave']
    if kls in SINGLE_FILE:
        hows += ['bytes', 'stream']
    if kls in ('Nifti1Image', 'Nifti1Pair') and mode != 'preset':     # (conversion makes a NEW image: presets are reset)
        hows += ['conv']
    how = rng.choice(hows)
    ext = rng.choice(KLS_EXT[kls]) if how in ('fn', 'nibsave') else None
    bo = '>' if (mk == 'hdr' and rng.random() < 0.3) else '<'
    sp = rng.choice(['dtype', 'dtype', 'name', 'type', 'swapped'])
    view = mk != 'loaded' and rng.random() < 0.25
    exact = bool(d.get('exact')) and mode != 'preset'
    stream = 'tfm-preset' if mode == 'preset' else 'tfm-exact' if exact else 'tfm-general'
    t = mk_tfm(cls, kls, in_name, hd, sl, it, args, d['vals'], stream, exact, how, mk, bo, ext, d.get('shape'),
               d.get('order', 'C'), sp, view)
    if t.data['lvl'] == 'dec':
        t.stream = t.data['stream'] = 'tfm-decisions'
    return t


# --------------------------------------------------------------------------- routes / readers / get_fdata histories
#
# `rt` cases: WHERE the saved image and its header come from (class conversion, donor headers in any scaling state,
# images loaded from files written with scaling), what happened to the image before the save (get_fdata with any float
# dtype / caching mode, in-place edits of the arrays it hands out, uncache), and what the READER of the target class
# makes of the header the save put on disk.  `rd` cases: every header reader on every combination of field states.

HK_OF = {'Nifti1Image': 'nifti', 'Nifti1Pair': 'nifti', 'Nifti2Image': 'nifti', 'Nifti2Pair': 'nifti',
         'Spm99AnalyzeImage': 'spm99', 'Spm2AnalyzeImage': 'spm2', 'AnalyzeImage': 'analyze'}
ALL_KLS = list(HK_OF)
CLS_OF_HK = {'nifti': 'nifti', 'spm99': 'spm', 'spm2': 'spm2', 'analyze': 'analyze'}
FT_NAME = {'f16': 'float16', 'f32': 'float32', 'f64': 'float64'}
SPECIAL_FLD = ('nan', 'inf', '-inf')


MGH_KLS = 'MGHImage'
MGH_TYPES = ['uint8', 'int16', 'int32', 'float32']


def _kls(name):
    import nibabel as nib
    if name == MGH_KLS:
        from nibabel.freesurfer.mghformat import MGHImage
        return MGHImage
    return getattr(nib, name)


def model_donor(dkls, F):
    """(model class token, fields) of a donor.  An MGH header has neither slot under any name, so a header converted
    from it holds the target's defaults — in the model: a donor of class `analyze` whose two slots hold (0, 0) (nothing
    copied into scl_* targets; zeros = the defaults for the funused* targets)."""
    if dkls == MGH_KLS:
        return 'analyze', ['0', '0']
    return HK_OF[dkls], list(F)


def slot_names(klass):
    """names the header class of image class `klass` gives the two float slots NOW (read from the working tree)"""
    n = klass.header_class.template_dtype.names
    return ('scl_slope' if 'scl_slope' in n else 'funused1', 'scl_inter' if 'scl_inter' in n else 'funused2')


def fld_float(s):
    return float(s) if s in SPECIAL_FLD else float(Fr(s))


def fld_str(x):
    x = float(x)
    if math.isnan(x):
        return 'nan'
    if math.isinf(x):
        return 'inf' if x > 0 else '-inf'
    return fr_str(Fr(x))


def fld_kind(x):
    s = fld_str(x)
    return s if s in SPECIAL_FLD else '0' if Fr(s) == 0 else 'v'


def ref_read_si(hk, sF, iF, gl):
    """REFERENCE of the header readers (independent of nibabel; from the format descriptions in the docstrings):
    returns 'err' (loud refusal) or (slope | None, inter | None) as Fractions."""
    valid = sF not in SPECIAL_FLD and Fr(sF) != 0
    if hk == 'analyze':
        return (None, None)
    if hk == 'spm99':
        return (Fr(sF), None) if valid else (None, None)
    if hk == 'nifti':
        if not valid:
            return (None, None)
        return 'err' if iF in SPECIAL_FLD else (Fr(sF), Fr(iF))
    if valid:                                   # SPM2: a non-finite intercept next to a valid slope counts as 0
        return (Fr(sF), Fr(0) if iF in SPECIAL_FLD else Fr(iF))
    if gl is not None:
        glmax, glmin, cmax, cmin = (Fr(x) for x in gl)
        if glmax - glmin != 0 and cmax - cmin != 0:
            s = (cmax - cmin) / (glmax - glmin)
            return (s, cmin - s * glmin)
    return (None, None)


def ref_proxy_si(hk, sF, iF, gl):
    r = ref_read_si(hk, sF, iF, gl)
    if r == 'err':
        return None
    return (Fr(1) if r[0] is None else r[0], Fr(0) if r[1] is None else r[1])


def ref_edit(e, v):
    if e == 'zero':
        return Fr(0)
    if e == 'clip0':
        return Fr(0) if v == '-inf' else v if isinstance(v, str) else max(v, Fr(0))
    if e == 'neg':
        return {'nan': 'nan', 'inf': '-inf', '-inf': 'inf'}[v] if isinstance(v, str) else -v
    raise ValueError(e)


def ref_history(pre, is_proxy, arr_dt, vals):
    """REFERENCE of what the image's data are after the pre-save history: an array handed out by get_fdata is the
    image's own array only for an array image asked for the dtype its array already has; np.asanyarray(img.dataobj) is
    the image's own array for every array image; everything else is a separate working copy."""
    data, cache, last = list(vals), None, None
    for op in pre:
        t = op.split('.')
        if t[0] == 'fd':
            dt = FT_NAME[t[1]]
            if cache is not None and cache[0] == dt:
                last = cache[1]
            else:
                last = 'own-array' if (not is_proxy and arr_dt == dt) else 'copy'
                if t[2] == '1':
                    cache = (dt, last)
        elif t[0] == 'ed':
            if last == 'own-array':
                data = [ref_edit(t[1], v) for v in data]
        elif t[0] == 'unc':
            cache = None
        elif t[0] == 'eo':
            if not is_proxy:
                data = [ref_edit(t[1], v) for v in data]
        else:
            raise ValueError(op)
    return data


def vals_to_strs(vals, in_name):
    out = []
    for v in vals:
        if isinstance(v, str):
            out.append(v)
        elif in_name in FPREC:
            f = float(v)
            if Fr(f) != v:
                raise HarnessError('value not representable')
            out.append(f.hex())
        else:
            if v.denominator != 1:
                raise HarnessError('non-integer value for an integer dtype')
            out.append(str(v.numerator))
    return out


def rt_expect(d):
    """what the case's image holds when it is saved, by the references above: dict(load_err, in_eff, vals0, vals)"""
    if d['src'] == 'disk':
        si = ref_proxy_si(HK_OF[d['dkls']], d['F'][0], d['F'][1], d.get('gl'))
        if si is None:
            return {'load_err': True}
        s, b = si
        raw = [Fr(int(q)) for q in d['vals']]
        if (s, b) == (1, 0):
            in_eff = d['in']
        else:
            in_eff = 'float32' if (HK_OF[d['dkls']] == 'spm99' and working_prec(d['in']) == 24) else 'float64'
        vals0 = [q * s + b for q in raw]
        is_proxy, arr_dt = True, None
    else:
        in_eff = d['in']
        vals0 = [parse_val(v, in_eff) for v in d['vals']]
        is_proxy, arr_dt = False, (in_eff if in_eff in FPREC else None)
    vals = ref_history(d.get('pre') or [], is_proxy, arr_dt, vals0)
    return {'load_err': False, 'in_eff': in_eff, 'vals0': vals0, 'vals': vals}


def mk_rd(kls, sF, iF, gl):
    hk = HK_OF[kls]
    line = f'C02 rd {hk} {sF} {iF} ' + ('_' if gl is None else ':'.join(gl))
    data = {'op': 'rd', 'kls': kls, 'F': [sF, iF], 'gl': None if gl is None else list(gl), 'stream': 'readers'}
    return Case(line, data, ('rd', kls, sF, iF, tuple(gl or ())), 'readers')


def mk_rt(kls, dkls, route, via, F, gl, post, pre, src, in_name, vals, hd, arg, how, stream='rt'):
    """see the section comment.  `in_name` / `vals`: src 'arr' = array dtype / value strings; src 'disk' = raw integer
    dtype / raw integers of a `dkls` file whose header carries the raw fields `F` (+ `gl`)."""
    hk = HK_OF[kls]
    dhk, mF = model_donor(dkls, F)
    if dkls == MGH_KLS and (src != 'arr' or route == 'same' or gl is not None):
        raise HarnessError('MGH is a donor of in-memory headers / images only')
    cls = CLS_OF_HK[hk]
    out_name = arg or hd
    if out_name in FPREC:
        raise HarnessError('observed save must have an integer on-disk type')
    if route == 'same' and kls != dkls:
        raise HarnessError('route same needs one class')
    d = {'op': 'rt', 'cls': cls, 'kls': kls, 'dkls': dkls, 'route': route, 'via': via, 'F': list(F),
         'gl': None if gl is None else list(gl), 'post': post, 'pre': list(pre), 'src': src, 'in': in_name,
         'vals': list(vals), 'hd': hd, 'arg': arg, 'out': out_name, 'how': how, 'stream': stream}
    ex = rt_expect(d)
    lvl = None
    need = True
    if not ex['load_err']:
        vs = vals_to_strs(ex['vals'], ex['in_eff'])          # (raises HarnessError when not representable)
        vals_to_strs(ex['vals0'], ex['in_eff'])
        pv = [parse_val(v, ex['in_eff']) for v in vs]
        if exact_case(cls, ex['in_eff'], out_name, pv):
            lvl = 'full'
        elif var_eligible(cls, ex['in_eff'], out_name, pv):
            lvl = 'dec'
        need = scaling_needed(ex['in_eff'], out_name, pv) or d['src'] == 'disk' or bool(pre)
    else:
        lvl = 'full'
    d['lvl'] = lvl
    line = None
    if lvl:
        data_tok = (','.join(str(int(q)) for q in vals) if src == 'disk'
                    else line_vals([parse_val(v, in_name) for v in vals]))
        line = (f'C02 {"rt" if lvl == "full" else "rtd"} {hk} {dhk} {route} {mF[0]} {mF[1]} '
                + ('_' if gl is None else ':'.join(gl)) + f' {post or "_"} ' + (';'.join(pre) if pre else '_')
                + f' {src} {in_token(in_name)} {dt_token(hd)} {"_" if arg is None else dt_token(arg)} {data_tok or "-"}')
    key = ('rt', kls, dkls, route, via, tuple(F), tuple(gl or ()), post, tuple(pre), src, in_name, tuple(vals), hd, arg,
           how) if need else None
    return Case(line, d, key, stream)


class _quiet_logs:
    """header conversions log "sizeof_hdr should be 540" and the like through the `nibabel.global` logger"""
    def __enter__(self):
        import logging
        self.lg = logging.getLogger('nibabel.global')
        self.old = self.lg.level
        self.lg.setLevel(logging.CRITICAL)

    def __exit__(self, *a):
        self.lg.setLevel(self.old)
        return False


def apply_edit(e, a):
    if e == 'zero':
        a[...] = 0
    elif e == 'clip0':
        np.clip(a, 0, None, out=a)
    elif e == 'neg':
        np.negative(a, out=a)
    else:
        raise ValueError(e)


def _set_raw_fields(klass, hdr, F, gl):
    n1, n2 = slot_names(klass)
    hdr[n1] = fld_float(F[0])
    hdr[n2] = fld_float(F[1])
    if gl is not None:
        names = hdr.template_dtype.names
        for name, v in zip(('glmax', 'glmin', 'cal_max', 'cal_min'), gl):
            if name in names:
                hdr[name] = float(Fr(v))


def run_rt(d, case):
    import tempfile
    import nibabel as nib
    from nibabel.openers import ImageOpener
    K, DK = _kls(d['kls']), _kls(d['dkls'])
    aff = np.eye(4)
    extra = {}
    with warnings.catch_warnings(), _quiet_logs():
        warnings.simplefilter('ignore')
        if d['src'] == 'disk':
            # a DK file holding the raw integers, whose header carries the raw fields (patched into the header bytes)
            raw = np.array([int(q) for q in d['vals']], dtype=np.dtype(d['in'])).reshape((-1, 1, 1))
            fm0 = _bytes_map(DK)
            DK(raw, aff).to_file_map(fm0)
            hfh, ifh = DK._get_fileholders(fm0)
            hf = hfh.fileobj
            blob = bytearray(hf.getvalue())
            h0 = DK.header_class.from_fileobj(io.BytesIO(bytes(blob)), check=False)
            _set_raw_fields(DK, h0, d['F'], d.get('gl'))
            bb = h0.binaryblock
            blob[:len(bb)] = bb
            same = ifh.fileobj is hf
            hfh.fileobj = io.BytesIO(bytes(blob))
            if same:
                ifh.fileobj = hfh.fileobj
            try:
                donor = DK.from_file_map(fm0)
            except Exception as e:
                return canon_err(e) + '@load'
            rawhdr = DK.header_class.from_fileobj(io.BytesIO(bytes(blob)))
            rawhdr.set_data_offset(0)      # (a single-file offset makes conversion to another flavour refuse loudly)
            loaded = np.asanyarray(donor.dataobj)
            extra['loaded'] = [val_str(x, loaded.dtype.name) if loaded.dtype.kind == 'f' else str(int(x))
                               for x in loaded.ravel()]
            extra['loaded_dtype'] = loaded.dtype.name
            dataobj = donor.dataobj
        else:
            data = np_array(d['in'], d['vals']).reshape((-1, 1, 1))
            h0 = DK.header_class()
            h0.set_data_dtype(np.dtype(d['hd']))
            if d['dkls'] != MGH_KLS:
                _set_raw_fields(DK, h0, d['F'], d.get('gl'))
            bio = io.BytesIO()
            h0.write_to(bio)
            bio.seek(0)
            rawhdr = DK.header_class.from_fileobj(bio)          # a header as read from a file
            if d['dkls'] != MGH_KLS:
                rawhdr.set_data_offset(0)
            donor = None
            dataobj = data
        via = d['via']
        if d['route'] == 'same':
            img = donor if d['src'] == 'disk' else K(dataobj, aff, rawhdr)
        elif d['route'] == 'fromimage':
            if donor is None:
                donor = DK(dataobj, aff, rawhdr)
            img = K.from_image(donor) if via == 'from_image' else K(donor.dataobj, aff, header=donor.header)
        else:
            img = (K(dataobj, aff, header=rawhdr) if via == 'hdr'
                   else K(dataobj, aff, K.header_class.from_header(rawhdr)))
        img.set_data_dtype(np.dtype(d['hd']))
        if d.get('post') is not None:
            img.header[slot_names(K)[1]] = fld_float(d['post'])
        last = None
        for op in d.get('pre') or []:
            t = op.split('.')
            if t[0] == 'fd':
                last = img.get_fdata(caching='fill' if t[2] == '1' else 'unchanged', dtype=np.dtype(FT_NAME[t[1]]))
            elif t[0] == 'ed':
                if last is not None:
                    apply_edit(t[1], last)
            elif t[0] == 'unc':
                img.uncache()
            elif t[0] == 'eo':
                a = np.asanyarray(img.dataobj)
                if not a.flags.writeable:
                    a = a.copy()
                apply_edit(t[1], a)
    if case is not None:
        case.extra = extra
    if extra.get('loaded_dtype') is not None:
        ex = rt_expect(d)
        if extra['loaded_dtype'] != ex['in_eff']:
            return 'ERR:loaded-dtype-' + extra['loaded_dtype']
    kw = {} if d['arg'] is None else {'dtype': np.dtype(d['arg'])}
    how = d.get('how', 'tfm')
    with tempfile.TemporaryDirectory() if how == 'fn' else io.BytesIO() as tmp, warnings.catch_warnings(record=True) as wl:
        warnings.simplefilter('always')
        try:
            if how == 'tfm':
                fm = _bytes_map(K)
                img.to_file_map(fm, **kw)
                back = K.from_file_map(fm)
                hbytes = K._get_fileholders(fm)[0].fileobj.getvalue()
            elif how == 'bytes':
                hbytes = img.to_bytes(**kw)
                back = K.from_bytes(hbytes)
            else:
                path = os.path.join(tmp, 'c02' + KLS_EXT[d['kls']][0])
                img.to_filename(path, **kw)
                back = K.from_filename(path)
                with ImageOpener(K._get_fileholders(K.filespec_to_file_map(path))[0].filename, 'rb') as f:
                    hbytes = f.read()
        except Exception as e:
            return canon_err(e) + ' ' + rt_header_state(K, img)
        dh = K.header_class.from_fileobj(io.BytesIO(hbytes), check=False)
        n1, n2 = slot_names(K)
        d1, d2 = float(dh[n1]), float(dh[n2])
        raw = unravel(back.dataobj.get_unscaled(), d)
        reloaded = unravel(back.dataobj, d)
        s, b = float(back.dataobj.slope), float(back.dataobj.inter)
    hs = rt_header_state(K, img)
    if raw.dtype.newbyteorder('=') != np.dtype(d['out']):
        return 'ERR:on-disk-dtype-' + raw.dtype.name + ' ' + hs
    if not (math.isfinite(s) and math.isfinite(b)):
        return f'ERR:nonfinite-scaling-{s}-{b} ' + hs
    extra['reloaded'] = reloaded
    dec = d.get('lvl') == 'dec'
    hc = K.header_class
    f1 = fld_kind(d1) if (dec and hc.has_data_slope) else fld_str(d1)
    f2 = fld_kind(d2) if (dec and hc.has_data_intercept) else fld_str(d2)
    return (f'ok {fr_str(Fr(s))} {fr_str(Fr(b))} [' + ','.join(str(int(q)) for q in raw) + ']' + cast_warning(wl)
            + f' D {f1} {f2} ' + hs)


def rt_header_state(K, img):
    n1, n2 = slot_names(K)
    dt = np.dtype(img.get_data_dtype()).newbyteorder('=').name
    return f'H {dt_token(dt)} {fld_str(img.header[n1])} {fld_str(img.header[n2])}'


def impl_rt(case):
    d = case.data
    out = run_rt(d, case)
    if d.get('lvl') == 'dec' and out.startswith('ok '):
        res, sep, tail = out.partition(' D ')
        case.extra = dict(case.extra or {}, full=res)
        if ' W:' not in res:
            s, b, _, _ = parse_ok(res)
            res = f'ok {1 if s == 1 else 0} {1 if b == 0 else 0} {"+" if s > 0 else "-"}'
        return res + sep + tail
    if d.get('lvl') == 'dec' and out.startswith('ERR') and '@load' not in out:
        res, sep, tail = out.partition(' H ')
        return res.split(' ')[0] + sep + tail
    return out


def run_rd(d):
    import nibabel as nib
    K = getattr(nib, d['kls'])
    with warnings.catch_warnings():
        warnings.simplefilter('ignore')
        h0 = K.header_class()
        _set_raw_fields(K, h0, d['F'], d.get('gl'))
        bio = io.BytesIO()
        h0.write_to(bio)
        bio.seek(0)
        h = K.header_class.from_fileobj(bio)
        try:
            s, b = h.get_slope_inter()
        except Exception as e:
            return canon_err(e)
    f = lambda x: 'N' if x is None else fld_str(x)
    return f'{f(s)} {f(b)}'


def oracle_rd(case, out):
    d = case.data
    exp = ref_read_si(HK_OF[d['kls']], d['F'][0], d['F'][1], d.get('gl'))
    f = lambda x: 'N' if x is None else fr_str(x)
    want = 'ERR:HeaderDataError' if exp == 'err' else f'{f(exp[0])} {f(exp[1])}'
    if out == want:
        return None
    return (f'{d["kls"]} header with scale fields {d["F"]} (gl/cal {d.get("gl")}) is read as ({out}); the format '
            f'description says ({want}): every value reloaded from such a file is off by the difference')


def oracle_rt(case, out):
    """the property on the real code for a route case: (1) a file loads as raw * slope + inter by the reference reader
    table (or is refused loudly exactly where the format description says so); (2) whatever the image went through
    before the save — how its header was obtained, get_fdata working copies, their edits — the save meets the SAME bound
    as a plain save of the data the image holds (reference aliasing semantics), judged on the slope / intercept the
    reader of the target class gets back from disk."""
    d = case.data
    ex = rt_expect(d)
    head = out.split(' H ')[0]
    res = head.split(' D ')[0]
    if res.endswith('@load'):
        return None if ex['load_err'] else f'loading a {d["dkls"]} file with scale fields {d["F"]} raised {res}'
    if ex['load_err']:
        return (f'a {d["dkls"]} file with a valid slope and the non-finite intercept {d["F"][1]} was loaded without the '
                f'documented refusal')
    if res.startswith('ERR:loaded-dtype'):
        return None                      # (correspondence only: NumPy promotion of the loaded array)
    xt = case.extra if isinstance(case.extra, dict) else {}
    if d['src'] == 'disk' and xt.get('loaded') is not None:
        got = [parse_val(v, xt['loaded_dtype']) for v in xt['loaded']]
        if got != ex['vals0']:
            i = next(j for j, (a, b) in enumerate(zip(got, ex['vals0'])) if a != b) if len(got) == len(ex['vals0']) else 0
            return (f'reader: {d["dkls"]} file with raw value {d["vals"][i]} and scale fields {d["F"]} (gl/cal '
                    f'{d.get("gl")}) loads as {got[i] if got else None!s}, raw * slope + inter is {ex["vals0"][i]!s}')
    if d.get('lvl') == 'dec' and xt.get('full') is not None:
        res = xt['full']
    shim = Case(None, {'op': 'save', 'cls': d['cls'], 'in': ex['in_eff'], 'out': d['out'],
                       'vals': vals_to_strs(ex['vals'], ex['in_eff']), 'stream': d['stream']}, None, d['stream'],
                {'reloaded': xt.get('reloaded')} if xt.get('reloaded') is not None else None)
    return oracle_save(shim, res)


FLD_SLOPES = ['2', '-1/2', '1', '3/4', '0', 'nan', 'inf', '-inf']
FLD_INTERS = ['3/4', '-10', '0', 'nan', 'inf', '-inf']
GLS = [None, ('10', '2', '3', '1'), ('5', '5', '3', '1'), ('10', '2', '1', '1'), ('-6', '2', '-1/2', '1')]


def gen_readers():
    """EXHAUSTIVE: every header class x slope field state x intercept field state (x gl/cal fallback states for SPM2)"""
    out = []
    for kls in ALL_KLS:
        for sF in FLD_SLOPES:
            for iF in FLD_INTERS:
                for gl in (GLS if HK_OF[kls] == 'spm2' else [None]):
                    out.append(mk_rd(kls, sF, iF, gl))
    return out


def rand_fld(rng, kind):
    r = rng.random()
    if kind == 'slope':
        if r < 0.6:
            return fr_str(Fr(rng.choice([1, 3, 5, 7, 25, 127]) * rng.choice([1, 1, -1]), 2 ** rng.randrange(0, 9)) *
                          2 ** rng.randrange(0, 5))
        return rng.choice(['0', 'nan', 'inf', '-inf', '1', '1'])
    if r < 0.5:
        return fr_str(Fr(rng.randrange(-2 ** 12, 2 ** 12), 2 ** rng.randrange(0, 5)))
    return rng.choice(['0', '0', 'nan', 'nan', 'inf', '-inf'])


PRE_FD = ['fd.f64.1', 'fd.f64.1', 'fd.f32.1', 'fd.f16.1', 'fd.f64.0', 'fd.f32.0', 'fd.f16.0']


def rand_pre(rng, ints_only_safe):
    if rng.random() < 0.4:
        return []
    ops = [rng.choice(PRE_FD)]
    edits = ['zero', 'clip0'] if ints_only_safe else ['zero', 'clip0', 'clip0', 'neg']
    for _ in range(rng.randrange(0, 4)):
        r = rng.random()
        if r < 0.4:
            ops.append('ed.' + rng.choice(edits))
        elif r < 0.7:
            ops.append(rng.choice(PRE_FD))
        elif r < 0.85:
            ops.append('unc')
        else:
            ops.append('eo.' + rng.choice(edits))
    return ops


def rt_variant(rng, c):
    """re-run the class / on-disk type (and, for array sources, the values) of a save case through a construction
    route x donor header state x pre-save history; ~45% of the cases take their data from a crafted FILE instead."""
    d = c.data
    cls = d['cls']
    if cls == 'mgh' or d['op'] not in ('save', 'var'):
        return None
    kls = rng.choice(KLS[cls])
    hk = HK_OF[kls]
    sup = supported_dtypes(kls)
    out_name = d['out']
    if out_name not in sup:
        return None
    if rng.random() < 0.5:
        dkls, route = kls, 'same'
    else:
        dkls = rng.choice(ALL_KLS + [MGH_KLS])
        route = rng.choice(['fromimage', 'hdrraw']) if dkls != kls else rng.choice(['same', 'fromimage', 'hdrraw'])
    dsup = MGH_TYPES if dkls == MGH_KLS else supported_dtypes(dkls)
    both = [t for t in sup if t in dsup]
    via = {'same': 'ctor', 'fromimage': rng.choice(['from_image', 'from_image', 'hdrimg']),
           'hdrraw': rng.choice(['hdr', 'from_header'])}[route]
    src = 'disk' if (rng.random() < 0.45 and dkls != MGH_KLS) else 'arr'
    dhk = model_donor(dkls, ['0', '0'])[0]
    F = [rand_fld(rng, 'slope'), rand_fld(rng, 'inter')]
    if rng.random() < 0.25:
        F = ['nan', 'nan'] if dhk == 'nifti' else ['nan', '0'] if rng.random() < 0.5 else ['1', '0']    # ordinary states
    gl = None
    if dhk == 'spm2' and src == 'disk' and rng.random() < 0.5:
        gl = rng.choice(GLS[1:])
        if rng.random() < 0.7:
            F[0] = rng.choice(['0', 'nan', 'inf'])
    post = None
    if hk != 'nifti' and rng.random() < 0.2:
        post = rand_fld(rng, 'inter')
    if src == 'disk':
        ints = [t for t in both if t not in FPREC]
        if not ints:
            return None
        in_name = rng.choice(ints)
        lo, hi = irange(in_name)
        lo, hi = max(lo, -2 ** 15), min(hi, 2 ** 15)
        vals = [str(rng.choice([lo, hi, 0, rng.randrange(lo, hi + 1), rng.randrange(lo, hi + 1)]))
                for _ in range(rng.randrange(2, 7))]
        hd = in_name                            # (a loaded image's header holds the file's data type)
        if rng.random() < 0.3 and route != 'same':
            hd = rng.choice(both)
    else:
        in_name, vals = d['in'], d['vals']
        if len(vals) > 12:
            vals = vals[:12]
        if dkls == MGH_KLS and route == 'fromimage' and in_name == 'float16':
            return None                         # (an MGH image cannot hold a float16 array)
        hd = rng.choice(both) if rng.random() < 0.5 else (out_name if out_name in both else rng.choice(both))
    arg = None if (hd == out_name and rng.random() < 0.6) else out_name
    pre = rand_pre(rng, in_name not in FPREC or src == 'disk')
    if src == 'disk':
        pre = [p for p in pre if not p.startswith('eo.') or True]
    how = rng.choice(['tfm', 'tfm', 'fn'] + (['bytes'] if kls in SINGLE_FILE else []))
    try:
        t = mk_rt(kls, dkls, route, via, F, gl, post, pre, src, in_name, vals, hd, arg, how)
    except (HarnessError, OverflowError):
        return None
    t.stream = t.data['stream'] = {'full': 'rt-exact', 'dec': 'rt-decisions', None: 'rt-general'}[t.data['lvl']]
    return t


def cases(rng, tier):
    n = {'quick': 1, 'thorough': 30, 'search': 4}[tier]
    out = []
    out += corpus_regressions()
    out += gen_spec()
    saves = []
    saves += gen_exact_float(rng, 700 * n)
    saves += gen_exact_int(rng, 500 * n)
    saves += gen_const_refuse(rng, 300 * n)
    saves += gen_general(rng, 2500 * n)
    # about half of the save cases are laid out as 3-D arrays with several memory slabs (C and F order)
    saves = [relayout(rng, c) if rng.random() < 0.5 else c for c in saves]
    out += saves
    # the same inputs through the `dtype=` save argument / class variants / save APIs / histories / preset scaling
    rng2 = __import__('random').Random(rng.random())     # own stream: the older streams keep their draws
    out += [t for t in (tfm_variant(rng2, c) for c in saves if rng2.random() < 0.55) if t is not None]
    out += gen_fr(rng, [c for c in saves if rng.random() < 0.3])
    out += gen_a2f(rng, 600 * n)
    # header readers on every field state (exhaustive), and construction routes x donor header states x files written
    # with scaling x pre-save get_fdata histories
    out += gen_readers()
    rng3 = __import__('random').Random(rng2.random())
    share = 0.3 if tier == 'quick' else 0.15
    out += [t for t in (rt_variant(rng3, c) for c in saves if rng3.random() < share) if t is not None]
    return out


# --------------------------------------------------------------------------- regenerated table (Leg T)

def lean_q(s):
    """rational string -> `q n d` (helper defined in the generated file: cheap to elaborate)"""
    x = Fr(s)
    return f'q ({x.numerator}) {x.denominator}'


def lean_fld(x):
    s = fld_str(x)
    return {'nan': '.nan', 'inf': '.pinf', '-inf': '.ninf'}.get(s) or f'.fin ({lean_q(s)})'


def regen_readers():
    """Generated/C02Readers.lean: the decision tables of the header classes as the working tree has them NOW — slot names
    and defaults, `from_header` between every ordered pair of classes, the constructor reset `set_slope_inter(None,
    None)`, `set_slope_inter(s, b)`, and `get_slope_inter` on every combination of field states — each with a theorem
    (by evaluation) that the model function agrees on every row."""
    import nibabel as nib
    rows_slot, rows_conv, rows_reset, rows_set, rows_read = [], [], [], [], []
    flds = lambda K, h: (float(h[slot_names(K)[0]]), float(h[slot_names(K)[1]]))
    with warnings.catch_warnings(), _quiet_logs():
        warnings.simplefilter('ignore')
        for kls in ALL_KLS:
            K = getattr(nib, kls)
            hk = HK_OF[kls]
            n1, n2 = slot_names(K)
            d1, d2 = flds(K, K.header_class())
            rows_slot.append(f'  (.{hk}, {"true" if n1 == "scl_slope" else "false"}, {"true" if n2 == "scl_inter" else "false"}, '
                             f'{lean_fld(d1)}, {lean_fld(d2)})')
            for dkls in ALL_KLS:
                DK = getattr(nib, dkls)
                for F in (('3', '7'), ('nan', 'inf')):
                    h = DK.header_class()
                    _set_raw_fields(DK, h, F, None)
                    c = K.header_class.from_header(h)
                    a, b = flds(K, c)
                    rows_conv.append(f'  (.{HK_OF[dkls]}, .{hk}, {lean_fld(fld_float(F[0]))}, {lean_fld(fld_float(F[1]))}, '
                                     f'{lean_fld(a)}, {lean_fld(b)})')
            for sF in ('2', 'nan', 'inf', '0'):
                for iF in ('3/4', 'nan', '-inf', '0'):
                    h = K.header_class()
                    _set_raw_fields(K, h, (sF, iF), None)
                    h.set_slope_inter(None, None)
                    a, b = flds(K, h)
                    rows_reset.append(f'  (.{hk}, {lean_fld(fld_float(sF))}, {lean_fld(fld_float(iF))}, {lean_fld(a)}, {lean_fld(b)})')
                    for (s_, b_) in (('2', '0'), ('2', '3/4'), ('1', '0'), ('0', '0'), ('-1/2', '0')):
                        h = K.header_class()
                        _set_raw_fields(K, h, (sF, iF), None)
                        try:
                            h.set_slope_inter(float(Fr(s_)), float(Fr(b_)))
                            a, b = flds(K, h)
                            res = f'some ({lean_fld(a)}, {lean_fld(b)})'
                        except Exception:
                            res = 'none'
                        rows_set.append(f'  (.{hk}, {lean_q(s_)}, {lean_q(b_)}, {lean_fld(fld_float(sF))}, {lean_fld(fld_float(iF))}, {res})')
            for sF in FLD_SLOPES:
                for iF in FLD_INTERS:
                    for gl in (GLS if hk == 'spm2' else [None]):
                        out = run_rd({'kls': kls, 'F': [sF, iF], 'gl': gl})
                        g = '.zero' if gl is None else f'⟨{gl[0]}, {gl[1]}, {lean_q(gl[2])}, {lean_q(gl[3])}⟩'
                        if out.startswith('ERR'):
                            res = 'none'
                        else:
                            a, b = out.split(' ')
                            res = (f'some ({"none" if a == "N" else "some (" + lean_q(a) + ")"}, '
                                   f'{"none" if b == "N" else "some (" + lean_q(b) + ")"})')
                        rows_read.append(f'  (.{hk}, {lean_fld(fld_float(sF))}, {lean_fld(fld_float(iF))}, {g}, {res})')
    ded = lambda rows: list(dict.fromkeys(rows))
    return ('import NibabelModel.Model.C02_Route\n'
            '/-! GENERATED by harness/props/c02.py regen() from /repo on every run — do not edit.\n'
            '    Decision tables of the Analyze-family header classes (' + ', '.join(ALL_KLS) + ') evaluated on the\n'
            '    working tree, and the proof (by evaluation) that the model functions of Model/C02_Route agree on every row. -/\n'
            'namespace Nb.C02.Gen\n\n'
            'def q (n : Int) (d : Nat) : Rat := mkRat n d\n\n'
            '/-- (class, slot 1 is called scl_slope, slot 2 is called scl_inter, default slot 1, default slot 2) -/\n'
            'def slotTable : List (HK × Bool × Bool × Fld × Fld) := [\n' + ',\n'.join(ded(rows_slot)) + ']\n\n'
            'theorem slot_table_ok : ∀ r ∈ slotTable,\n'
            '    r.1.slot1Scl = r.2.1 ∧ r.1.slot2Scl = r.2.2.1 ∧ r.1.default = ⟨r.2.2.2.1, r.2.2.2.2⟩ := by\n  decide +kernel\n\n'
            '/-- (donor class, target class, donor fields, fields of `target.from_header(donor)`) -/\n'
            'def convTable : List (HK × HK × Fld × Fld × Fld × Fld) := [\n' + ',\n'.join(ded(rows_conv)) + ']\n\n'
            'theorem conv_table_ok : ∀ r ∈ convTable,\n'
            '    convert r.1 r.2.1 ⟨r.2.2.1, r.2.2.2.1⟩ = ⟨r.2.2.2.2.1, r.2.2.2.2.2⟩ := by\n  decide +kernel\n\n'
            '/-- (class, fields before, fields after `set_slope_inter(None, None)`) -/\n'
            'def resetTable : List (HK × Fld × Fld × Fld × Fld) := [\n' + ',\n'.join(ded(rows_reset)) + ']\n\n'
            'theorem reset_table_ok : ∀ r ∈ resetTable,\n'
            '    ctorReset r.1 ⟨r.2.1, r.2.2.1⟩ = ⟨r.2.2.2.1, r.2.2.2.2⟩ := by\n  decide +kernel\n\n'
            '/-- (class, s, b, fields before, fields after `set_slope_inter(s, b)` or none = refused) -/\n'
            'def setTable : List (HK × Rat × Rat × Fld × Fld × Option (Fld × Fld)) := [\n' + ',\n'.join(ded(rows_set)) + ']\n\n'
            'theorem set_table_ok : ∀ r ∈ setTable,\n'
            '    ((setSIF r.1 r.2.1 r.2.2.1 ⟨r.2.2.2.1, r.2.2.2.2.1⟩).toOption.map fun f => (f.slope, f.inter)) = r.2.2.2.2.2 := by\n'
            '  decide +kernel\n\n'
            '/-- (class, slope field, intercept field, gl / cal fields, `get_slope_inter()` or none = HeaderDataError) -/\n'
            'def readerTable : List (HK × Fld × Fld × GlCal × Option (Option Rat × Option Rat)) := [\n'
            + ',\n'.join(ded(rows_read)) + ']\n\n'
            'theorem reader_table_ok : ∀ r ∈ readerTable,\n'
            '    (readSI r.1 ⟨r.2.1, r.2.2.1⟩ r.2.2.2.1).toOption = r.2.2.2.2 := by\n  decide +kernel\n\n'
            'end Nb.C02.Gen\n')


def regen():
    """Generated/C02Types.lean: the integer type ranges (np.iinfo) and the shared ranges nibabel computes NOW for
    float32 / float64; the theorem there re-checks the model's floorExact / sharedRange against them."""
    from nibabel import casting
    rows = []
    for t in INT_TYPES:
        omin, omax = irange(t)
        for p, ft in ((24, np.float32), (53, np.float64)):
            casting._SHARED_RANGES.pop((ft, np.dtype(t).type), None)
            mn, mx = casting.shared_range(ft, np.dtype(t))
            rows.append(f'  ({p}, ({omin}), {omax}, ({int(mn)}), {int(mx)})')
    src = ('import NibabelModel.Model.C02\n'
           '/-! GENERATED by harness/props/c02.py regen() from /repo on every run — do not edit.\n'
           '    (significand bits, type min, type max, shared min, shared max) as computed by\n'
           '    `nibabel.casting.shared_range` for float32 / float64 and every integer type. -/\n'
           'namespace Nb.C02.Gen\n\n'
           'def sharedTable : List (Nat × Int × Int × Int × Int) := [\n' + ',\n'.join(rows) + ']\n\n'
           '/-- the model\'s `sharedRange` agrees with nibabel\'s `shared_range` on every row -/\n'
           'theorem shared_table_ok :\n'
           '    ∀ r ∈ sharedTable, Nb.C02.sharedRange r.1 ⟨r.2.1, r.2.2.1⟩ = (r.2.2.2.1, r.2.2.2.2) := by\n'
           '  decide +kernel\n\n'
           'end Nb.C02.Gen\n')
    os.makedirs(os.path.join(LEAN, 'NibabelModel', 'Generated'), exist_ok=True)
    write_if_changed(os.path.join(LEAN, 'NibabelModel', 'Generated', 'C02Types.lean'), src)
    # capability flags of every header class of the Analyze family, as the classes declare them NOW
    import nibabel as nib
    b = lambda x: 'true' if bool(x) else 'false'
    crow = []
    for cls, names in KLS.items():
        for k in names:
            hc = getattr(nib, k).header_class
            crow.append((f'  (.{"spm" if cls == "spm2" else cls}, {b(hc.has_data_slope)}, {b(hc.has_data_intercept)})',
                         f'{k} / {hc.__name__}'))
    csrc = ('import NibabelModel.Model.C02\n'
            '/-! GENERATED by harness/props/c02.py regen() from /repo on every run — do not edit.\n'
            '    (model class, has_data_slope, has_data_intercept) of the header class of every image class that\n'
            '    shares `AnalyzeImage.to_file_map`; rows in this order: ' + ', '.join(r[1] for r in crow) + '. -/\n'
            'namespace Nb.C02.Gen\n\n'
            'def capsTable : List (Cls × Bool × Bool) := [\n' + ',\n'.join(r[0] for r in crow) + ']\n\n'
            '/-- the model\'s capability flags are the ones the source declares, and `make_array_writer` picks from them\n'
            '    the writer class the model of `save` uses -/\n'
            'theorem caps_table_ok :\n'
            '    ∀ r ∈ capsTable, r.1.caps = ⟨r.2.1, r.2.2⟩ ∧ (makeWriter ⟨r.2.1, r.2.2⟩).toOption = some r.1.writer := by\n'
            '  decide\n\n'
            'end Nb.C02.Gen\n')
    write_if_changed(os.path.join(LEAN, 'NibabelModel', 'Generated', 'C02Caps.lean'), csrc)
    write_if_changed(os.path.join(LEAN, 'NibabelModel', 'Generated', 'C02Readers.lean'), regen_readers())
    return []     # the obligation over the generated table is audited as a THEOREM (Nb.C02.Gen.shared_table_ok)
