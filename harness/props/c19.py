"""C19 — FreeSurfer surface, morphometry, annotation and MGH files round-trip
(nibabel/freesurfer/io.py, nibabel/freesurfer/mghformat.py)."""
import ast
import atexit
import gzip
import hashlib
import inspect
import json
import os
import shutil
import struct
import tempfile
import warnings
from collections import OrderedDict

import numpy as np

from common import Case, errname, write_if_changed, LEAN

PID = 'C19'
LEAN_TARGETS = ['NibabelModel.Props.C19']
THEOREMS = [
    'Nb.C19.geometry_roundtrip',
    'Nb.C19.int_token_roundtrip',
    'Nb.C19.geometry_roundtrip_int_volume',
    'Nb.C19.morph_roundtrip',
    'Nb.C19.morph_accepts_iff',
    'Nb.C19.backMap_inverse',
    'Nb.C19.annot_roundtrip_general',
    'Nb.C19.annot_roundtrip',
    'Nb.C19.annot_zero_rgb_general',
    'Nb.C19.annot_zero_rgb_witness',
    'Nb.C19.annot_zero_vertices_orig_counterexample',
    'Nb.C19.annot_narrow_ctab_orig_counterexample',
    'Nb.C19.annot_empty_ctab_unlabeled_orig_counterexample',
    'Nb.C19.annot_fill_ignores_last_column',
    'Nb.C19.annot_recolour_chain',
    'Nb.C19.mgh_shape_roundtrip',
    'Nb.C19.mgh_single_frame_4d_limit',
    'Nb.C19.mgh_zooms_roundtrip',
    'Nb.C19.mgh_file_roundtrip',
    'Nb.C19.mgh_save_load_roundtrip',
    'Nb.C19.mgh_resave_roundtrip',
    'Nb.C19.readMghX_refines',
    'Nb.C19.pack_rgb_generated',
    'Nb.C19.morph_writer_limits_generated',
    'Nb.C19.annot_unsigned_labels_orig_counterexample',
    'Nb.C19.annot_fix_proposal_conservative',
    'Nb.C19.gen_constants_consistent_wave3',
    'Nb.C19.gen_constants_consistent',
]
ASSUMPTIONS = [
    'hand-written Lean model (Model/C19.lean) of write/read_geometry, write/read_morph_data, write/read_annot, '
    '_serialize/_read_volume_info and of MGHHeader shape/zoom/footer logic + MGH file layout; tied to the code by '
    'the differential correspondence of this run (file bytes and read-back values on every generated case)',
    'float32 values are raw bit patterns; the float64->float32 cast of the writers and the widening of the readers '
    'are NumPy (harness feeds float32-exact values, oracle compares to NumPy casts)',
    'UTF-8 encode/decode of the create stamp and of annotation names is CPython; volume-info text is modelled for '
    'ASCII only; FLOAT<->text conversion of volume-info values (format .10g, float()) is external: the model '
    'carries the value tokens, the oracle compares numeric values (bit-exact for 10-digit decimals, same float32 '
    'for single-precision values, 10 significant digits otherwise); the INTEGER tokens of the volume line are '
    'modelled (intRepr/intParse over C16 decRepr/parseDec) and compared as integers; |volume| < 2^63 (np.int64)',
    'NumPy argsort (not stable) is modelled by a stable merge sort; they agree on pairwise distinct values '
    '(the property domain); generators never produce duplicate annotation values',
    'np.searchsorted(side=left) on a sorted array = index of the first element >= v',
    'MGH: voxel_sizes(affine), the allclose test of update_header and the float arithmetic of _affine2header are '
    'NumPy; generated affines are signed permutations scaled by float32-exact zooms plus an integer translation, so '
    'delta == zooms exactly and the 48 Mdc/Pxyz_c bytes are computed by the harness without nibabel (ras_bytes) and '
    'handed to the model as an input: file bytes are compared UNMASKED; Fortran-order raveling of the data is NumPy',
    'mghload: file bytes laid out by the harness (struct) are read by MGHHeader.from_fileobj + data_from_fileobj and '
    'by the model readMgh (goodRASFlag 0, partial/absent footer, trailing tags, bad version/type/dims, short files); '
    'dims >= 2^31 (negative int32) are not generated',
    'mgh-resave: load -> [set_zooms keeping the voxel sizes] -> footer assignments -> save -> load is modelled by '
    'mghResave (readMghX/writeMghX carry dof and goodRASFlag verbatim); update_header leaves delta/Mdc/Pxyz_c alone '
    'because the image affine IS the header affine (np.allclose on finite values: generated Mdc/Pxyz_c/delta are finite '
    'and moderate); a set_zooms that changes the voxel sizes (float re-derivation from the affine) is outside the model',
    'write_annot is the repaired one (f0d22687, cb244bc8): labelled-only lookup, any integer label dtype, list labels; '
    'the pre-fix variants are kept as counterexample models; input dtypes/containers of the writers (float16/32/64/long double/integer '
    'coordinates and morph values, every integer face/label/table dtype, list/tuple/bytes/object-array names, '
    'plain dict / list-valued / int32-float32 volume_info) are exercised by the generators; the model speaks about the '
    'logical values',
    'old-format inputs (quad surfaces, old morph files, old colour tables), truncated files and counts >= 2^31/3 '
    'are outside the model (never written by the library / not generable)',
    'Generated/C19.lean is extracted by regen() from the working tree (AST constants of io.py, np.dtype of the MGH '
    'header/footer, data_type_codes, MGHHeader() defaults); the extractor is trusted',
]
RULE = ('streams: geom (0..n vertices, 0..m faces, float32 bit patterns incl. subnormals/+-0/extremes/inf/qNaN, '
        'faces over the int32 range, stamps incl. unicode/empty/long, volume_info with <=10 significant digits, '
        'read_metadata on/off); geom-edge (unknown head codes, unstripped values, "=" in values, short vectors); '
        'morph (every accepted shape kind x n, rejected shapes, fnum range); annot (0..k entries with pairwise distinct '
        'packed colours incl. 0, labels in {-1} u [0,n), fill_ctab on/off, 4/5 columns, names 0..200 chars incl. '
        'unicode, orig_ids); annot-edge (out-of-range labels, short names list, wrong 5th column, int32 overflow); '
        'annot-chain (history write, read, recolour ctab[:, :3] of the table read back so its 5th column is stale - incl. '
        'permutations of the old colours -, write with fill_ctab on/off, read; bytes names); '
        'mgh (1-4 dims x uint8/int16/int32/float32 x zooms x set_zooms/TR x footer fields x .mgh/.mgz; Mdc/Pxyz_c bytes '
        'unmasked); mgh-footer (1-D/2-D/3-D single-frame volumes with all five footer fields non-zero, .mgh/.mgz); '
        'mghload (reader on hand-laid files: goodRASFlag 0/odd, partial footer, trailing bytes, bad version/type/dims, '
        'truncation); volume_info floats: 10-digit decimals, float32 values with 8-9 significant digits (oblique '
        'cosines, off-centre c_ras), full doubles; mgh-edge '
        '(zero dims, 5-D, unsupported dtypes, invalid zooms); zoom (bare header set_data_shape/set_zooms); '
        'mgh-resave (history: a hand-laid well-formed file with random dof / goodRASFlag 0,1,2,255,.. / all five footer '
        'fields / partial footer / trailing tags is LOADED (mmap on/off, data touched or not, .mgh/.mgz), optionally '
        'set_zooms + footer assignments, SAVED to another file or over the source (.mgh/.mgz) and loaded again); '
        'writer input dtypes: coords/morph f2/f4/f8/longdouble/int, faces i1..i8/u1..u8, labels i1..i8/u1..u8, tables '
        'i1/u1/i2/u2/i4/u4/i8/u8/f4/f8, names list/tuple/bytes/mixed/object array, volume_info OrderedDict/dict/lists/'
        'int32+float32, morph values as nested lists. '
        'A case is non-trivial when it carries at least one vertex/value/voxel; distinct by sha1 of its data.')

PENDING_FINDINGS = [
    {'property': 'C19', 'signature': 'annot:zero-packed-rgb-referenced', 'status': 'open',
     'what': 'a vertex labelled with a colour-table entry whose packed RGB annotation value is 0 reads back as -1 '
             '(write_annot/read_annot; .annot format uses 0 for "unlabeled")',
     'input': {'op': 'annot', 'orig': False, 'fill': True, 'ncol': 4, 'labels': [0], 'ctab': [[0, 0, 0, 0]],
               'names': ['a']}},
    {'property': 'C19', 'signature': 'mgh:single-frame-4d-shape', 'status': 'open',
     'what': 'MGH cannot represent a trailing length-1 4th axis: MGHImage(zeros((x,y,z,1))) is refused on save '
             '(HeaderDataError "Data should be shape (x, y, z)")',
     'input': {'op': 'mgh', 'shape': [1, 1, 1, 1], 'dt': 'u1', 'data': [0], 'zooms': [1065353216] * 3, 'perm': 0,
               'trans': [0, 0, 0], 'setz': None, 'sets': [], 'ext': '.mgh'}},
]

GEN_PATH = os.path.join(LEAN, 'NibabelModel', 'Generated', 'C19.lean')
FTR_NAMES = ['tr', 'flip_angle', 'te', 'ti', 'fov']
VEC_KEYS = ['voxelsize', 'xras', 'yras', 'zras', 'cras']
ALL_KEYS = ['head', 'valid', 'filename', 'volume'] + VEC_KEYS
DT_NP = {'u1': np.uint8, 'i2': np.int16, 'i4': np.int32, 'f4': np.float32, 'i1': np.int8, 'u2': np.uint16,
         'f8': np.float64, 'i8': np.int64, 'u4': np.uint32, 'u8': np.uint64, 'g': np.longdouble, 'f2': np.float16}
ONE = 0x3F800000

_TMP = None


def tmpdir():
    global _TMP
    if _TMP is None:
        _TMP = tempfile.mkdtemp(prefix='c19_')
        atexit.register(shutil.rmtree, _TMP, ignore_errors=True)
    return _TMP


def fio():
    from nibabel.freesurfer import io
    return io


# =====================================================================================================
# regen: Generated/C19.lean
# =====================================================================================================

class Untranslatable(Exception):
    pass


def _const_assign(fn, name):
    vals = [n.value for n in ast.walk(fn) if isinstance(n, ast.Assign) and len(n.targets) == 1
            and isinstance(n.targets[0], ast.Name) and n.targets[0].id == name]
    if len(vals) != 1:
        raise Untranslatable(f'{fn.name}: expected exactly one assignment to {name}, found {len(vals)}')
    return vals[0]


def _int_const(node, what):
    if isinstance(node, ast.Constant) and type(node.value) is int and node.value >= 0:
        return node.value
    raise Untranslatable(f'{what}: not a natural-number literal: {ast.dump(node)[:80]}')


def _np_array_ints(node, what):
    if (isinstance(node, ast.Call) and isinstance(node.func, ast.Attribute) and node.func.attr == 'array'
            and node.args and isinstance(node.args[0], ast.List)):
        return [_int_const(e, what) for e in node.args[0].elts]
    raise Untranslatable(f'{what}: not np.array([...]) of literals')


def _str_seq(node, what):
    if isinstance(node, (ast.List, ast.Tuple)) and all(
            isinstance(e, ast.Constant) and isinstance(e.value, str) and e.value.isascii() for e in node.elts):
        return [e.value for e in node.elts]
    raise Untranslatable(f'{what}: not a sequence of ASCII string literals')


def _layout(dt):
    rows = []
    for name in dt.names:
        fdt, off = dt.fields[name][:2]
        base = fdt.base
        cnt = int(np.prod(fdt.shape)) if fdt.shape else 1
        rows.append(f'("{name}", {int(off)}, {int(base.itemsize)}, {cnt})')
    return '[' + ', '.join(rows) + ']'


def _codes(s):
    return '[' + ', '.join(str(b) for b in s.encode('ascii')) + ']'


def regen():
    io = fio()
    from nibabel.freesurfer import mghformat as mf
    tree = ast.parse(inspect.getsource(io))
    fn = {n.name: n for n in tree.body if isinstance(n, ast.FunctionDef)}
    if io._ANNOT_DT != '>i4':
        raise Untranslatable(f'_ANNOT_DT is {io._ANNOT_DT!r}, the model assumes ">i4"')
    tri = _int_const(_const_assign(fn['read_geometry'], 'TRIANGLE_MAGIC'), 'TRIANGLE_MAGIC')
    quad = _int_const(_const_assign(fn['read_geometry'], 'QUAD_MAGIC'), 'QUAD_MAGIC')
    nquad = _int_const(_const_assign(fn['read_geometry'], 'NEW_QUAD_MAGIC'), 'NEW_QUAD_MAGIC')
    gmb = _np_array_ints(_const_assign(fn['write_geometry'], 'magic_bytes'), 'write_geometry.magic_bytes')
    mmb = _np_array_ints(_const_assign(fn['write_morph_data'], 'magic_bytes'), 'write_morph_data.magic_bytes')
    cmp_ = [n for n in ast.walk(fn['read_morph_data']) if isinstance(n, ast.Compare)
            and isinstance(n.left, ast.Name) and n.left.id == 'magic' and len(n.ops) == 1
            and isinstance(n.ops[0], ast.Eq)]
    if len(cmp_) != 1:
        raise Untranslatable('read_morph_data: expected one `magic == <const>` test')
    mmagic = _int_const(cmp_[0].comparators[0], 'read_morph_data magic')
    keys_w = _str_seq(_const_assign(fn['_serialize_volume_info'], 'keys'), '_serialize_volume_info.keys')
    fors = [n for n in ast.walk(fn['_read_volume_info']) if isinstance(n, ast.For)]
    if len(fors) != 1:
        raise Untranslatable('_read_volume_info: expected one for loop')
    keys_r = _str_seq(fors[0].iter, '_read_volume_info keys')
    nofile = None
    for n in ast.walk(fn['write_annot']):
        if (isinstance(n, ast.Call) and isinstance(n.func, ast.Name) and n.func.id == 'write_string'
                and n.args and isinstance(n.args[0], ast.Constant) and isinstance(n.args[0].value, str)):
            nofile = n.args[0].value
    if nofile is None:
        raise Untranslatable('write_annot: no write_string(<literal>) call')
    h = mf.MGHHeader()
    rec = mf.data_type_codes
    tc = []
    for code in rec.value_set('code'):
        dt = np.dtype(rec.numpy_dtype[code])
        tc.append(f'("{dt.kind}{dt.itemsize}", {int(code)}, {int(rec.bytespervox[code])})')
    # what `MGHHeader.__init__` -> `_set_affine_default` leaves in delta / Mdc / Pxyz_c for goodRASFlag == 0
    blk = bytearray(h.binaryblock)
    o_good, o_delta, o_mdc = (int(mf.header_dtype.fields[k][1]) for k in ('goodRASFlag', 'delta', 'Mdc'))
    blk[o_good:o_good + 2] = b'\0\0'
    blk[o_delta:mf.header_dtype.itemsize] = b'\x41' * (mf.header_dtype.itemsize - o_delta)
    h_nr = mf.MGHHeader(bytes(blk))
    nr = h_nr.binaryblock
    def_delta = [int(x) for x in np.frombuffer(nr[o_delta:o_mdc], dtype='>u4')]
    def_ras = list(nr[o_mdc:mf.header_dtype.itemsize])
    def_good_nr = int.from_bytes(nr[o_good:o_good + 2], 'big')
    # the one version `chk_version` accepts: `if hdr['version'] != <literal>`
    mtree = ast.parse(inspect.getsource(mf))
    chk = [n for n in ast.walk(mtree) if isinstance(n, ast.FunctionDef) and n.name == 'chk_version']
    if len(chk) != 1:
        raise Untranslatable('mghformat: expected one chk_version')
    vcmp = [n for n in ast.walk(chk[0]) if isinstance(n, ast.Compare) and len(n.ops) == 1
            and isinstance(n.ops[0], ast.NotEq) and isinstance(n.left, ast.Subscript)
            and isinstance(n.left.slice, ast.Constant) and n.left.slice.value == 'version']
    if len(vcmp) != 1:
        raise Untranslatable("chk_version: expected one `hdr['version'] != <literal>` test")
    version_ok = _int_const(vcmp[0].comparators[0], 'chk_version literal')
    # `_pack_rgb`: bitshifts = 2 ** np.array([[0], [8], [16]], ...)
    bs_node = _const_assign(fn['_pack_rgb'], 'bitshifts')
    if not (isinstance(bs_node, ast.BinOp) and isinstance(bs_node.op, ast.Pow)
            and isinstance(bs_node.left, ast.Constant) and bs_node.left.value == 2
            and isinstance(bs_node.right, ast.Call) and isinstance(bs_node.right.func, ast.Attribute)
            and bs_node.right.func.attr == 'array' and bs_node.right.args
            and isinstance(bs_node.right.args[0], ast.List)
            and all(isinstance(e, ast.List) and len(e.elts) == 1 for e in bs_node.right.args[0].elts)):
        raise Untranslatable('_pack_rgb: bitshifts is not 2 ** np.array([[a], [b], [c]])')
    pack_shifts = [_int_const(e.elts[0], '_pack_rgb shift') for e in bs_node.right.args[0].elts]
    ret = [n for n in ast.walk(fn['_pack_rgb']) if isinstance(n, ast.Return)]
    if len(ret) != 1 or not (isinstance(ret[0].value, ast.Call) and isinstance(ret[0].value.func, ast.Attribute)
                             and ret[0].value.func.attr == 'dot' and len(ret[0].value.args) == 1
                             and isinstance(ret[0].value.args[0], ast.Name) and ret[0].value.args[0].id == 'bitshifts'):
        raise Untranslatable('_pack_rgb: does not return <rgb>.dot(bitshifts)')
    # `write_morph_data`: i4info = np.iinfo(<literal>); the three range tests use i4info.max / .min
    ii = _const_assign(fn['write_morph_data'], 'i4info')
    if not (isinstance(ii, ast.Call) and isinstance(ii.func, ast.Attribute) and ii.func.attr == 'iinfo'
            and len(ii.args) == 1 and isinstance(ii.args[0], ast.Constant) and isinstance(ii.args[0].value, str)):
        raise Untranslatable('write_morph_data: i4info is not np.iinfo(<literal>)')
    morph_info = np.iinfo(ii.args[0].value)
    L = ['/-! GENERATED by harness/props/c19.py regen() from the working tree of nibabel',
         '    (freesurfer/io.py, freesurfer/mghformat.py).  Do not edit: rewritten on every run of `./check C19`.',
         '    Core Lean only. -/',
         'namespace Nb.Gen.C19', '',
         '/-- `mghformat.DATA_OFFSET` -/',
         f'def dataOffset : Nat := {int(mf.DATA_OFFSET)}',
         '/-- `header_dtype.itemsize`, `footer_dtype.itemsize` -/',
         f'def hdrItemsize : Nat := {int(mf.header_dtype.itemsize)}',
         f'def ftrItemsize : Nat := {int(mf.footer_dtype.itemsize)}',
         '/-- `np.dtype(header_dtd)`: (name, offset, itemsize of the base dtype, item count) -/',
         'def hdrLayout : List (String × Nat × Nat × Nat) :=', '  ' + _layout(mf.header_dtype),
         '/-- `np.dtype(footer_dtd)` -/',
         'def ftrLayout : List (String × Nat × Nat × Nat) :=', '  ' + _layout(mf.footer_dtype),
         '/-- `data_type_codes`: (numpy dtype kind+size, MGH type code, bytes per voxel) -/',
         'def typeCodes : List (String × Nat × Nat) :=', '  [' + ', '.join(tc) + ']',
         '/-- `MGHHeader()` defaults -/',
         f'def defVersion : Nat := {int(h["version"])}',
         f'def defDof : Nat := {int(h["dof"])}',
         f'def defGoodRAS : Nat := {int(h["goodRASFlag"])}',
         '/-- `delta` patterns and `Mdc`+`Pxyz_c` bytes of a header loaded with goodRASFlag = 0 (`_set_affine_default`) -/',
         f'def defDeltaNoRas : List Nat := {def_delta}',
         f'def defRasBytes : List Nat := {def_ras}',
         '/-- `goodRASFlag` of a header loaded with goodRASFlag = 0 (`_set_affine_default`) -/',
         f'def defGoodNoRas : Nat := {def_good_nr}',
         "/-- the literal of `chk_version`: `hdr['version'] != <literal>` is a HeaderDataError -/",
         f'def versionOk : Nat := {version_ok}', '',
         '/-- `_pack_rgb`: `bitshifts = 2 ** np.array([[a], [b], [c]])`, result `rgb.dot(bitshifts)` -/',
         f'def packShifts : List Nat := {pack_shifts}',
         '/-- `write_morph_data`: `i4info = np.iinfo(<literal>)` -/',
         f'def morphCountMax : Int := {int(morph_info.max)}',
         f'def morphFnumMin : Int := {int(morph_info.min)}',
         f'def morphFnumMax : Int := {int(morph_info.max)}', '',
         '/-- constants of `read_geometry` / `write_geometry` / `read_morph_data` / `write_morph_data` -/',
         f'def triangleMagic : Nat := {tri}', f'def quadMagic : Nat := {quad}', f'def newQuadMagic : Nat := {nquad}',
         f'def geomMagicBytes : List Nat := {gmb}', f'def morphMagic : Nat := {mmagic}',
         f'def morphMagicBytes : List Nat := {mmb}',
         '/-- `keys` of `_serialize_volume_info` and the key tuple of `_read_volume_info` (ASCII codes) -/',
         'def volKeysW : List (List Nat) :=', '  [' + ', '.join(_codes(k) for k in keys_w) + ']',
         'def volKeysR : List (List Nat) :=', '  [' + ', '.join(_codes(k) for k in keys_r) + ']',
         "/-- the LUT file name written by `write_annot` (`write_string('NOFILE')`) -/",
         f'def noFile : List Nat := {_codes(nofile)}', '',
         'end Nb.Gen.C19', '']
    os.makedirs(os.path.dirname(GEN_PATH), exist_ok=True)
    write_if_changed(GEN_PATH, '\n'.join(L))
    return ['Generated.C19.mgh-layout+offsets', 'Generated.C19.type-codes', 'Generated.C19.magic-numbers',
            'Generated.C19.volume-info-keys', 'Generated.C19.pack-shifts+morph-limits+version']


# =====================================================================================================
# helpers
# =====================================================================================================

def hx(b):
    b = bytes(b)
    return b.hex() if len(b) else '-'


def lst(xs):
    return '[' + ','.join(str(int(x)) for x in xs) + ']'


def commas(xs):
    xs = list(xs)
    return ','.join(str(int(x)) for x in xs) if xs else '-'


def f32_of(patterns):
    """float32 array (big endian) from raw patterns"""
    return np.array([int(p) for p in patterns], dtype='>u4').view('>f4')


def pat_of(arr):
    """raw patterns of an array after casting to float32"""
    return [int(x) for x in np.ascontiguousarray(np.asarray(arr), dtype='>f4').reshape(-1).view('>u4')]


def f64_bits(a):
    return np.ascontiguousarray(a, dtype='<f8').reshape(-1).view('<u8')


def tok_int(v):
    return str(int(v)).encode()


def tok_float(v):
    return ('%.10g' % float(v)).encode()


def hexlist(toks):
    return '[' + ','.join(hx(t) for t in toks) + ']'


LAYOUTS = ['C', 'F', 'strided', 'rev', 'swap', 'Fswap', 'T']
NARROW = ('u1', 'i1', 'i2', 'u2')


def relayout(a, lay):
    """an array equal to `a` (same shape, dtype kind/size, same element bits) with another MEMORY layout:
    C / Fortran order, a strided view into a larger buffer, a view with negative strides, a transposed view,
    non-native byte order.  The logical array is what a writer must serialise."""
    a = np.asarray(a)
    if a.ndim == 0:
        return a
    if lay in (None, 'C'):
        return np.ascontiguousarray(a)
    if lay == 'F':
        return np.asfortranarray(a)
    if lay == 'T':                       # e.g. np.vstack([x, y, z]).T
        return np.ascontiguousarray(a.T).T
    if lay == 'strided':
        big = np.zeros(tuple(2 * n + 1 for n in a.shape), dtype=a.dtype)
        view = big[tuple(slice(1, 2 * n + 1, 2) for n in a.shape)]
        view[...] = a
        return view
    if lay == 'rev':
        idx = tuple(slice(None, None, -1) for _ in a.shape)
        return np.ascontiguousarray(a[idx])[idx]
    if lay == 'swap':
        return np.ascontiguousarray(a).astype(a.dtype.newbyteorder('S'))
    if lay == 'Fswap':
        return np.asfortranarray(a).astype(a.dtype.newbyteorder('S'), order='F')
    raise ValueError(lay)


def is_qnan_or_num(p):
    e = (p >> 23) & 0xFF
    m = p & 0x7FFFFF
    return not (e == 0xFF and m != 0 and not (m & 0x400000))


# ------------------------------------------------------------------ case builders

def mk_geom(d, stream='geom'):
    stamp = d['stamp'].encode('utf-8')
    vol = d.get('vol')
    if vol is None:
        vs = '-'
    else:
        def vec(k, f):
            v = vol[k]
            return ','.join((f(x).hex() or '_') for x in v) if v else '-'
        vs = ';'.join([commas(vol['head']), hx(vol['valid'].encode()), hx(vol['filename'].encode()),
                       commas(vol['volume'])] + [vec(k, tok_float) for k in VEC_KEYS])
    line = (f"C19 geom {int(d['meta'])} {hx(stamp)} {d['nv']} {d['nf']} {commas(d['coords'])} "
            f"{commas(d['faces'])} {vs}")
    key = None if d['nv'] == 0 and d['nf'] == 0 and vol is None else ('geom', _h(d))
    return Case(line, d, key, stream)


def mk_morph(d, stream='morph'):
    line = f"C19 morph {commas(d['shape'])} {commas(d['vals'])} {d['fnum']}"
    return Case(line, d, ('morph', _h(d)) if d['vals'] else None, stream)


def mk_annot(d, stream='annot'):
    rows = ';'.join(':'.join(str(int(x)) for x in (r + [0])[:5]) for r in d['ctab']) if d['ctab'] else '-'
    names = ';'.join((n.encode('utf-8').hex() or '_') for n in d['names']) if d['names'] else '-'
    line = (f"C19 annot {int(d['orig'])} {int(d['fill'])} {int(d['ncol'] == 5)} {commas(d['labels'])} "
            f"{rows} {names}")
    return Case(line, d, ('annot', _h(d)) if d['labels'] else None, stream)


def ras_bytes(d):
    """the 48 bytes `_affine2header` must leave in Mdc / Pxyz_c for the harness's affine family (signed
    permutation x float32-exact zooms + integer translation), computed WITHOUT nibabel: Mdc.T has one +-1 per
    row; c_ras[i] = float32(sign * zoom_j * shape_j / 2 + trans_i) for the column j mapped to axis i (the product
    is exact in float64, so the sum is rounded once whatever the summation order)."""
    z = [float(x) for x in f32_of(d['zooms']).astype(np.float64)]
    perm, sign = PERMS[d.get('perm', 0) % len(PERMS)]
    s = [int(x) for x in d['shape']]
    s3 = (s + [1] * (3 - len(s)))[:3]
    mdc_t = [[(float(sign[j]) if perm[j] == i else 0.0) for i in range(3)] for j in range(3)]
    c = []
    for i in range(3):
        j = perm.index(i)
        c.append(sign[j] * z[j] * (s3[j] / 2.0) + float(d.get('trans', [0, 0, 0])[i]))
    with np.errstate(all='ignore'):
        return np.array(mdc_t, dtype='>f4').tobytes() + np.array(c, dtype=np.float64).astype('>f4').tobytes()


def mk_mgh(d, stream='mgh'):
    setz = '_' if d['setz'] is None else commas(d['setz'])
    sets = ';'.join(f'{i}:{v}' for i, v in d['sets']) if d['sets'] else '-'
    line = (f"C19 mgh {commas(d['shape'])} {d['dt']} {commas(d['data'])} {commas(d['zooms'])} {hx(ras_bytes(d))} "
            f"{setz} {sets}")
    return Case(line, d, ('mgh', _h(d)) if d['data'] else None, stream)


def mk_mghload(d, stream='mghload'):
    return Case(f"C19 mghload {d['file'] or '-'}", d, ('mghload', _h(d)), stream)


def mk_annot2(d, stream='annot-chain'):
    rows = ';'.join(':'.join(str(int(x)) for x in (r + [0])[:5]) for r in d['ctab']) if d['ctab'] else '-'
    names = ';'.join((n.encode('utf-8').hex() or '_') for n in d['names']) if d['names'] else '-'
    rgb = ';'.join(':'.join(str(int(x)) for x in r) for r in d['rgb']) if d['rgb'] else '-'
    line = (f"C19 annot2 {int(d['fill'])} {int(d['ncol'] == 5)} {commas(d['labels'])} {rows} {names} {rgb} "
            f"{int(d['fill2'])}")
    return Case(line, d, ('annot2', _h(d)) if d['labels'] else None, stream)


def mk_mghresave(d, stream='mgh-resave'):
    setz = '_' if d['setz'] is None else commas(d['setz'])
    sets = ';'.join(f'{i}:{v}' for i, v in d['sets']) if d['sets'] else '-'
    return Case(f"C19 mghresave {d['file']} {setz} {sets}", d, ('mghresave', _h(d)), stream)


def mk_zoom(d, stream='zoom'):
    line = f"C19 zoom {commas(d['shape'])} {commas(d['zs'])}"
    return Case(line, d, ('zoom', _h(d)), stream)


def _h(d):
    return hashlib.sha1(json.dumps(d, sort_keys=True).encode()).hexdigest()[:12]


MK = {'geom': mk_geom, 'morph': mk_morph, 'annot': mk_annot, 'mgh': mk_mgh, 'zoom': mk_zoom,
      'mghload': mk_mghload, 'annot2': mk_annot2, 'mghresave': mk_mghresave}


def case_from_data(d):
    return MK[d['op']](d, d.get('stream', d['op']))


# =====================================================================================================
# implementation side
# =====================================================================================================

def vol_dict(vol, kind=None):
    """the volume_info argument; `kind`: None = OrderedDict of arrays (as read_geometry returns it), 'lists' = plain
    Python lists / ints / floats, 'dict' = plain dict filled in another key order, 'narrow' = int32 / float32 arrays
    where the values fit exactly"""
    if vol is None:
        return None
    o = OrderedDict()
    ints = [int(x) for x in vol['volume']]
    flt = {k: [float(x) for x in vol[k]] for k in VEC_KEYS}
    if kind == 'lists':
        o['head'] = list(vol['head'])
        o['valid'] = vol['valid']
        o['filename'] = vol['filename']
        o['volume'] = ints
        for k in VEC_KEYS:
            o[k] = tuple(flt[k]) if k in ('xras', 'cras') else flt[k]
        return o
    o['head'] = np.array(vol['head'], dtype=np.int32 if kind == 'narrow' else np.int64)
    o['valid'] = vol['valid']
    o['filename'] = vol['filename']
    i32 = kind == 'narrow' and all(-2 ** 31 <= v < 2 ** 31 for v in ints)
    o['volume'] = np.array(ints, dtype=np.int32 if i32 else np.int64)
    for k in VEC_KEYS:
        with np.errstate(all='ignore'):
            f32 = kind == 'narrow' and all(float(np.float32(v)) == v for v in flt[k])
        o[k] = np.array(flt[k], dtype=np.float32 if f32 else np.float64)
    if kind == 'dict':
        keys = list(o.keys())
        keys = keys[3:] + keys[:3][::-1]
        return {k: o[k] for k in keys}
    return o


def geom_arrays(d):
    nv, nf = d['nv'], d['nf']
    coords = f32_of(d['coords']).astype(DT_NP[d.get('dt_c', 'f8')]).reshape(nv, 3)
    faces = np.array(d['faces'], dtype=np.int64).astype(DT_NP[d.get('dt_f', 'i8')]).reshape(nf, 3)
    return relayout(coords, d.get('lay_c')), relayout(faces, d.get('lay_f'))


def impl_geom(case):
    d = case.data
    io = fio()
    p = os.path.join(tmpdir(), 'lh.geom')
    nv, nf = d['nv'], d['nf']
    coords, faces = geom_arrays(d)
    with warnings.catch_warnings():
        warnings.simplefilter('ignore')
        try:
            io.write_geometry(p, coords, faces, create_stamp=d['stamp'], volume_info=vol_dict(d.get('vol'), d.get('vol_kind')))
        except Exception as e:
            return errname(e)
        with open(p, 'rb') as f:
            raw = f.read()
        case.extra = {'raw': raw}
        try:
            res = io.read_geometry(p, read_metadata=bool(d['meta']), read_stamp=True)
        except Exception as e:
            return 'ok ' + hx(raw) + ' R' + errname(e)
    if d['meta']:
        c2, f2, vi, stamp2 = res
    else:
        (c2, f2, stamp2), vi = res, None
    case.extra['res'] = (c2, f2, vi, stamp2)
    c32 = np.asarray(c2).astype('>f4')
    exact = np.array_equal(f64_bits(c32.astype(np.float64)), f64_bits(c2))
    if vi is None or len(vi) == 0:
        vs = '-'
    else:
        vs = ';'.join(['head=' + lst(vi['head']), 'valid=' + hx(vi['valid'].encode()),
                       'filename=' + hx(vi['filename'].encode()),
                       'volume=' + lst(vi['volume'])] +
                      [k + '=' + hexlist(tok_float(x) for x in vi[k]) for k in VEC_KEYS])
    return (f"ok {hx(raw)} stamp={hx(stamp2.encode('utf-8'))} nv={c2.shape[0]} nf={f2.shape[0]} "
            f"coords={lst(c32.reshape(-1).view('>u4'))}{'' if exact else '!inexact'} faces={lst(f2.reshape(-1))} vol={vs}")


def morph_array(d):
    dt = d.get('dt_m') or ('f8' if d.get('f64', True) else 'f4')
    with np.errstate(all='ignore'):
        a = f32_of(d['vals']).astype(DT_NP[dt])
    a = relayout(a.reshape(tuple(d['shape'])), d.get('lay'))
    return a.tolist() if d.get('aslist') else a        # `np.asarray(values)`: array-likes are documented input


def impl_morph(case):
    d = case.data
    io = fio()
    p = os.path.join(tmpdir(), 'lh.curv')
    try:
        io.write_morph_data(p, morph_array(d), d['fnum'])
    except Exception as e:
        return errname(e)
    with open(p, 'rb') as f:
        raw = f.read()
    try:
        v = io.read_morph_data(p)
    except Exception as e:
        return 'ok ' + hx(raw) + ' R' + errname(e)
    case.extra = {'res': v, 'raw': raw}
    return f"ok {hx(raw)} {lst(np.asarray(v).astype('>f4').reshape(-1).view('>u4'))}"


def annot_arrays(d):
    n = len(d['ctab'])
    ctab = np.array(d['ctab'], dtype=np.int64).reshape(n, d['ncol']).astype(DT_NP[d.get('dt_t', 'i8')])
    dt_l = d.get('dt_l', 'i8')
    if dt_l.startswith('u') and any(l < 0 for l in d['labels']):
        dt_l = 'i8'                            # an unsigned array cannot hold -1: the caller's array is signed then
    labels = np.array(d['labels'], dtype=np.int64).astype(DT_NP[dt_l])
    names = list(d['names'])
    nk = d.get('names_kind')
    if nk == 'bytes':
        names = [nm.encode('utf-8') for nm in names]
    elif nk == 'mixed':
        names = [(nm.encode('utf-8') if i % 2 else nm) for i, nm in enumerate(names)]
    elif nk == 'tuple':
        names = tuple(names)
    elif nk == 'array':
        names = np.array(names, dtype=object)
    labels = relayout(labels, d.get('lay_l'))
    if d.get('lab_list') and len(labels):                      # `np.asarray(labels)`: plain lists (incl. -1 entries) are accepted
        labels = [int(x) for x in labels]
    return labels, relayout(ctab, d.get('lay_t')), names


def impl_annot(case):
    d = case.data
    io = fio()
    p = os.path.join(tmpdir(), 'lh.x.annot')
    labels, ctab, names = annot_arrays(d)
    with warnings.catch_warnings():
        warnings.simplefilter('ignore')
        try:
            io.write_annot(p, labels, ctab, names, fill_ctab=bool(d['fill']))
        except Exception as e:
            return errname(e)
        with open(p, 'rb') as f:
            raw = f.read()
        try:
            l2, c2, n2 = io.read_annot(p, orig_ids=bool(d['orig']))
        except Exception as e:
            return 'ok ' + hx(raw) + ' R' + errname(e)
    case.extra = {'res': (l2, c2, n2), 'raw': raw}
    rows = ','.join(lst(r) for r in np.asarray(c2).reshape(-1, 5))
    return f"ok {hx(raw)} labels={lst(l2)} ctab=[{rows}] names={hexlist(bytes(x) for x in n2)}"


PERMS = [((0, 1, 2), (1, 1, 1)), ((0, 1, 2), (-1, 1, -1)), ((1, 0, 2), (1, 1, 1)), ((2, 0, 1), (1, -1, 1)),
         ((0, 2, 1), (-1, 1, 1)), ((2, 1, 0), (1, 1, -1))]


def mgh_affine(d):
    z = f32_of(d['zooms']).astype(np.float64)
    perm, sign = PERMS[d.get('perm', 0) % len(PERMS)]
    a = np.zeros((4, 4))
    for j in range(3):
        a[perm[j], j] = sign[j] * z[j]
    a[:3, 3] = d.get('trans', [0, 0, 0])
    a[3, 3] = 1
    return a


def mgh_data(d):
    dt = np.dtype(DT_NP[d['dt']])
    u = np.array([int(x) for x in d['data']], dtype=f'<u{dt.itemsize}').view(dt.newbyteorder('<'))
    return relayout(np.asarray(u, dtype=dt).reshape(tuple(d['shape']), order='F'), d.get('lay'))


def impl_mgh(case):
    d = case.data
    import nibabel as nib
    from nibabel.freesurfer.mghformat import MGHImage
    p = os.path.join(tmpdir(), 'vol' + d.get('ext', '.mgh'))
    with warnings.catch_warnings():
        warnings.simplefilter('ignore')
        try:
            data = mgh_data(d)
            img = MGHImage(data, mgh_affine(d))
            if d['setz'] is not None:
                img.header.set_zooms([float(x) for x in f32_of(d['setz']).astype(np.float64)])
            hz = pat_of([np.asarray(x) for x in img.header.get_zooms()])
            for i, v in d['sets']:
                img.header[FTR_NAMES[i]] = float(f32_of([v]).astype(np.float64)[0])
            nib.save(img, p)
            with open(p, 'rb') as f:
                raw = f.read()
            if d.get('ext') == '.mgz':
                raw = gzip.decompress(raw)
            img2 = nib.load(p)
            arr = np.array(img2.dataobj)   # copy: the file is reused by later cases
            h2 = img2.header
            zooms = pat_of([np.asarray(x) for x in h2.get_zooms()])
            ftr = pat_of([np.asarray(h2[k]) for k in FTR_NAMES])
            dt2 = h2.get_data_dtype()
            pats = np.ascontiguousarray(arr.ravel(order='F')).view(f'{dt2.byteorder}u{dt2.itemsize}' if dt2.itemsize > 1 else 'u1')
            case.extra = {'img': img, 'img2': img2, 'arr': arr, 'raw': raw, 'data': data}
            return (f"ok hz={lst(hz)} file={hx(raw)} shape={lst(img2.shape)} code={int(h2['type'])} "
                    f"zooms={lst(zooms)} ftr={lst(ftr)} data={lst(pats)} ras={hx(h2.binaryblock[42:90])}")
        except Exception as e:
            return errname(e)


def impl_zoom(case):
    d = case.data
    from nibabel.freesurfer.mghformat import MGHHeader
    h = MGHHeader()
    try:
        h.set_data_shape(tuple(d['shape']))
    except Exception as e:
        return errname(e)
    pre = f"ok dims={lst(h['dims'])} shape={lst(h.get_data_shape())} nd={int(h._ndims())} "
    try:
        h.set_zooms([float(x) for x in f32_of(d['zs']).astype(np.float64)])
    except Exception as e:
        return pre + errname(e)
    case.extra = {'h': h}
    return pre + 'zooms=' + lst(pat_of([np.asarray(x) for x in h.get_zooms()]))


def impl_mghload(case):
    """MGHHeader.from_fileobj + data_from_fileobj on file bytes built by the harness"""
    d = case.data
    from nibabel.freesurfer.mghformat import MGHHeader
    from nibabel.openers import ImageOpener
    raw = bytes.fromhex(d['file'])
    p = os.path.join(tmpdir(), 'ld' + d.get('ext', '.mgh'))
    with open(p, 'wb') as f:
        f.write(gzip.compress(raw, 1) if d.get('ext') == '.mgz' else raw)
    from nibabel import imageglobals
    was = imageglobals.logger.disabled
    imageglobals.logger.disabled = True          # check_fix logs "Unknown MGH format version" before raising
    try:
        with warnings.catch_warnings():
            warnings.simplefilter('ignore')
            try:
                with ImageOpener(p, 'rb') as fobj:
                    h = MGHHeader.from_fileobj(fobj)
                    arr = np.array(h.data_from_fileobj(fobj))
            except Exception as e:
                return errname(e)
    finally:
        imageglobals.logger.disabled = was
    dt2 = h.get_data_dtype()
    pats = np.ascontiguousarray(arr.ravel(order='F')).view(f'>u{dt2.itemsize}' if dt2.itemsize > 1 else 'u1')
    zooms = pat_of([np.asarray(x) for x in h.get_zooms()])
    ftr = pat_of([np.asarray(h[k]) for k in FTR_NAMES])
    case.extra = {'h': h, 'arr': arr}
    return (f"ok dims={lst(h['dims'])} shape={lst(h.get_data_shape())} code={int(h['type'])} zooms={lst(zooms)} "
            f"ras={hx(h.binaryblock[42:90])} ftr={lst(ftr)} data={lst(pats)}")


def _full_fields(img, arr):
    h = img.header
    bb = h.binaryblock
    dt2 = h.get_data_dtype()
    pats = np.ascontiguousarray(arr.ravel(order='F')).astype(dt2.newbyteorder('>')).view(
        f'>u{dt2.itemsize}' if dt2.itemsize > 1 else 'u1')
    zooms = pat_of([np.asarray(x) for x in h.get_zooms()])
    ftr = pat_of([np.asarray(h[k]) for k in FTR_NAMES])
    return {'dims': [int(x) for x in h['dims']], 'shape': [int(x) for x in img.shape], 'code': int(h['type']),
            'dof': int.from_bytes(bb[24:28], 'big'), 'good': int.from_bytes(bb[28:30], 'big'), 'zooms': zooms,
            'ras': bytes(bb[42:90]), 'ftr': ftr, 'data': [int(x) for x in pats]}


def _show_full(f):
    return (f"dims={lst(f['dims'])} shape={lst(f['shape'])} code={f['code']} dof={f['dof']} good={f['good']} "
            f"zooms={lst(f['zooms'])} ras={hx(f['ras'])} ftr={lst(f['ftr'])} data={lst(f['data'])}")


def impl_mghresave(case):
    """history: load a file laid out by the harness; optional header.set_zooms; footer assignments; save to another
    file (or over the source); load that"""
    d = case.data
    import nibabel as nib
    raw = bytes.fromhex(d['file'])
    tag = '%d' % (os.getpid())
    p1 = os.path.join(tmpdir(), f'src{tag}' + d.get('ext', '.mgh'))
    p2 = p1 if d.get('same') else os.path.join(tmpdir(), f'dst{tag}' + d.get('ext2', '.mgh'))
    with open(p1, 'wb') as f:
        f.write(gzip.compress(raw, 1) if d.get('ext') == '.mgz' else raw)
    with warnings.catch_warnings():
        warnings.simplefilter('ignore')
        try:
            img = nib.load(p1, mmap=bool(d.get('mmap', True)))
            if d.get('touch'):                     # the caller looked at the data first (fills the proxy's cache)
                img.get_fdata()
            l1 = _full_fields(img, np.array(img.dataobj))
            if d['setz'] is not None:
                img.header.set_zooms([float(x) for x in f32_of(d['setz']).astype(np.float64)])
            for i, v in d['sets']:
                img.header[FTR_NAMES[i]] = float(f32_of([v]).astype(np.float64)[0])
            nib.save(img, p2)
            with open(p2, 'rb') as f:
                raw2 = f.read()
            if p2.endswith('.mgz'):
                raw2 = gzip.decompress(raw2)
            img2 = nib.load(p2)
            l2 = _full_fields(img2, np.array(img2.dataobj))
            del img, img2
        except Exception as e:
            return errname(e)
    case.extra = {'l1': l1, 'l2': l2, 'raw2': raw2}
    return f"ok l1={{{_show_full(l1)}}} file={hx(raw2)} l2={{{_show_full(l2)}}}"


def impl_annot2(case):
    d = case.data
    io = fio()
    p = os.path.join(tmpdir(), 'lh.y.annot')
    labels, ctab, names = annot_arrays(d)
    with warnings.catch_warnings():
        warnings.simplefilter('ignore')
        try:
            io.write_annot(p, labels, ctab, names, fill_ctab=bool(d['fill']))
            l1, c1, n1 = io.read_annot(p)
            l1_out = [int(x) for x in l1]
            k = min(len(d['rgb']), c1.shape[0])
            if k:
                c1[:k, :3] = np.array(d['rgb'][:k], dtype=np.int64)      # the 5th column is now stale
            io.write_annot(p, l1, c1, n1, fill_ctab=bool(d['fill2']))
            with open(p, 'rb') as f:
                raw = f.read()
            l2, c2, n2 = io.read_annot(p)
        except Exception as e:
            return errname(e)
    case.extra = {'res': (l2, c2, n2), 'l1': l1_out, 'raw': raw}
    rows = ','.join(lst(r) for r in np.asarray(c2).reshape(-1, 5))
    return f"ok {hx(raw)} l1={lst(l1_out)} labels={lst(l2)} ctab=[{rows}] names={hexlist(bytes(x) for x in n2)}"


IMPL = {'mghresave': impl_mghresave, 'mghload': impl_mghload, 'annot2': impl_annot2, 'geom': impl_geom, 'morph': impl_morph, 'annot': impl_annot, 'mgh': impl_mgh, 'zoom': impl_zoom}


def impl(case):
    case.extra = None
    return IMPL[case.data['op']](case)


# =====================================================================================================
# oracle: the property stated on the implementation
# =====================================================================================================

def pack(r):
    return int(r[0]) + int(r[1]) * 2 ** 8 + int(r[2]) * 2 ** 16


def geom_in_domain(d):
    if '\n' in d['stamp']:
        return False
    vol = d.get('vol')
    if vol is not None:
        if vol['head'] not in ([20], [2, 0, 20]):
            return False
        for k in ('valid', 'filename'):
            s = vol[k]
            if '=' in s or '\n' in s or s != s.strip() or not s.isascii():
                return False
        if any(len(vol[k]) != 3 for k in ['volume'] + VEC_KEYS):
            return False
    return True


def vol_float_mismatch(got, want):
    """what the footer text (10 significant digits) must preserve of a float entry: a value that is its own
    10-digit rendering comes back bit-exact; a single-precision value comes back to the SAME float32 (the
    format needs 9 digits for that); any other double to 10 significant digits (|rel. error| <= 5e-10)"""
    from fractions import Fraction
    if float('%.10g' % want) == want:
        return None if struct.pack('<d', got) == struct.pack('<d', want) else 'not bit-exact'
    with np.errstate(all='ignore'):
        if float(np.float32(want)) == want and np.float32(got).tobytes() != np.float32(want).tobytes():
            return 'float32 value changed'
    if abs(Fraction(got) - Fraction(want)) * 10 ** 10 > abs(Fraction(want)) * 5 * (1 + Fraction(1, 10 ** 6)):
        return 'more than half a unit of the 10th significant digit off'
    return None


def same_f64(a, b):
    a, b = np.asarray(a, dtype=np.float64), np.asarray(b, dtype=np.float64)
    return a.shape == b.shape and np.array_equal(f64_bits(a), f64_bits(b))


def oracle_geom(case, out):
    d = case.data
    if not geom_in_domain(d):
        return None
    if not out.startswith('ok ') or ' RERR' in out:
        return f'geometry write/read raised for a valid mesh: {out[-60:]}'
    c2, f2, vi, stamp2 = case.extra['res']
    nv, nf = d['nv'], d['nf']
    want_c = f32_of(d['coords']).astype(np.float32).astype(np.float64).reshape(nv, 3)
    if not same_f64(c2, want_c):
        return f'coords differ after round trip (nv={nv})'
    want_f = np.array(d['faces'], dtype=np.int64).reshape(nf, 3)
    if f2.shape != want_f.shape or not np.array_equal(f2, want_f):
        return f'faces differ after round trip (nf={nf}): got {f2.tolist()[:4]} want {want_f.tolist()[:4]}'
    if stamp2 != d['stamp']:
        return f'create stamp differs: got {stamp2!r} want {d["stamp"]!r}'
    # independent decoding of the counts from the bytes
    raw = case.extra['raw']
    body = raw[3 + len(d['stamp'].encode('utf-8')) + 2:]
    if raw[:3] != b'\xff\xff\xfe' or struct.unpack('>ii', body[:8]) != (nv, nf):
        return 'file does not carry magic / vertex and face counts where the format puts them'
    vol = d.get('vol')
    if d['meta'] and vol is not None:
        if vi is None or list(vi.keys()) != ALL_KEYS:
            return f'volume_info keys differ: {None if vi is None else list(vi.keys())}'
        if list(np.asarray(vi['head']).tolist()) != vol['head']:
            return f'volume_info head differs: {vi["head"]}'
        for k in ('valid', 'filename'):
            if vi[k] != vol[k]:
                return f'volume_info[{k}] differs: {vi[k]!r} vs {vol[k]!r}'
        if [int(x) for x in vi['volume']] != [int(x) for x in vol['volume']]:
            return f'volume_info[volume] differs: {vi["volume"]} vs {vol["volume"]}'
        for k in VEC_KEYS:
            got = np.asarray(vi[k], dtype=np.float64)
            if got.shape != (3,):
                return f'volume_info[{k}] has shape {got.shape}'
            for g, x in zip(got.tolist(), vol[k]):
                why = vol_float_mismatch(g, float(x))
                if why:
                    return f'volume_info[{k}] differs ({why}): {list(vi[k])} vs {vol[k]}'
    if d['meta'] and vol is None and vi is not None and len(vi):
        return 'volume_info invented for a file without footer'
    return None


def morph_accepted(shape):
    n = int(np.prod(shape, dtype=object)) if len(shape) else None
    return n is not None and tuple(shape) in ((n,), (n, 1), (1, n), (n, 1, 1))


def oracle_morph(case, out):
    d = case.data
    i4 = np.iinfo('i4')
    valid = morph_accepted(d['shape']) and i4.min <= d['fnum'] <= i4.max
    if not valid:
        if out.startswith('ok'):
            return f'write_morph_data accepted shape {d["shape"]} fnum {d["fnum"]} (documented as invalid)'
        return None
    if not out.startswith('ok ') or ' RERR' in out:
        return f'morph write/read raised for accepted shape {d["shape"]}: {out[-60:]}'
    v = np.asarray(case.extra['res'])
    want = f32_of(d['vals']).astype(np.float32)     # the logical vector, whatever its memory layout
    if v.shape != want.shape or pat_of(v) != pat_of(want) or v.dtype.itemsize != 4:
        return f'morph values differ for shape {d["shape"]}: got {pat_of(v)[:5]} want {pat_of(want)[:5]}'
    raw = case.extra['raw']
    if raw[:3] != b'\xff\xff\xff' or struct.unpack('>iii', raw[3:15]) != (len(d['vals']), d['fnum'], 1):
        return 'morph file header (magic, vnum, fnum, vals-per-vertex) wrong'
    return None


def annot_in_domain(d):
    n = len(d['ctab'])
    if len(d['names']) != n or any(len(r) != d['ncol'] for r in d['ctab']):
        return False
    if not d['fill'] and d['ncol'] != 5:
        return False
    if any(not (l == -1 or 0 <= l < n) for l in d['labels']):
        return False
    for r in d['ctab']:
        if any(not 0 <= c <= 255 for c in r[:3]) or not -2 ** 31 <= r[3] < 2 ** 31:
            return False
        if not d['fill'] and (d['ncol'] != 5 or r[4] != pack(r)):
            return False
    packs = [pack(r) for r in d['ctab']]
    if len(set(packs)) != n:
        return False
    if any(nm.endswith('\0') for nm in d['names']):
        return False
    return True


def oracle_annot(case, out):
    d = case.data
    if not annot_in_domain(d):
        return None
    n = len(d['ctab'])
    packs = [pack(r) for r in d['ctab']]
    if not out.startswith('ok ') or ' RERR' in out:
        return f'annotation write/read raised for a valid annotation: {out[-60:]}'
    l2, c2, n2 = case.extra['res']
    want_ctab = np.array([list(r[:4]) + [p] for r, p in zip(d['ctab'], packs)], dtype=np.int64).reshape(n, 5)
    if c2.shape != (n, 5) or not np.array_equal(c2, want_ctab):
        return f'colour table differs: got {np.asarray(c2).tolist()[:3]} want {want_ctab.tolist()[:3]}'
    if [bytes(x) for x in n2] != [nm.encode('utf-8') for nm in d['names']]:
        return 'names differ after round trip'
    got = [int(x) for x in l2]
    if d['orig']:
        want = [0 if l == -1 else packs[l] for l in d['labels']]
        if got != want:
            return f'orig_ids annotation values differ: got {got[:8]} want {want[:8]}'
        return None
    want = list(d['labels'])
    if got != want:
        limit = [(-1 if (l >= 0 and packs[l] == 0) else l) for l in want]
        if got == limit:
            return ('[zero-packed] label referring to a colour-table entry packed to 0 read back as -1: '
                    f'labels {want[:8]} -> {got[:8]}')
        return f'labels differ after round trip: got {got[:8]} want {want[:8]}'
    return None


def mgh_in_domain(d):
    s = d['shape']
    if not 1 <= len(s) <= 4 or any(x < 1 for x in s) or d['dt'] not in ('u1', 'i2', 'i4', 'f4'):
        return False
    if any(not _pos_finite(z) for z in d['zooms']):
        return False
    nd = 4 if (len(s) == 4 and s[3] > 1) else 3
    if d['setz'] is not None:
        z = d['setz']
        if len(z) != nd or z[:3] != d['zooms'] or (len(z) == 4 and not (_pos_finite(z[3]) or z[3] == 0)):
            return False
    if any(not (_pos_finite(v) or v in (0, 0x80000000) or _neg_finite(v)) for _, v in d['sets']):
        return False
    if any(i == 0 and _neg_finite(v) for i, v in d['sets']):
        return False
    return True


def _pos_finite(p):
    return 0 < p < 0x7F800000


def _neg_finite(p):
    return 0x80000000 < p < 0xFF800000


def oracle_mgh(case, out):
    d = case.data
    if not mgh_in_domain(d):
        return None
    s = list(d['shape'])
    want_shape = s + [1] * (3 - len(s)) if len(s) < 3 else s
    single4 = len(s) == 4 and s[3] == 1
    if not out.startswith('ok '):
        if single4 and out == 'ERR:HeaderDataError':
            return f'[single-frame-4d] MGH refuses to save a 4-D volume with a single frame: shape {s}: {out}'
        return f'MGH save/load raised for a valid volume shape={s} dt={d["dt"]}: {out[:80]}'
    ex = case.extra
    img2, arr, raw = ex['img2'], ex['arr'], ex['raw']
    data = ex['data'].reshape(want_shape, order='F')
    rest = None
    if tuple(int(x) for x in img2.shape) != tuple(want_shape):
        rest = f'shape changed: saved {want_shape} loaded {list(img2.shape)}'
    if arr.dtype.newbyteorder('=') != data.dtype.newbyteorder('=') and rest is None:
        rest = f'dtype changed: {data.dtype} -> {arr.dtype}'
    flat_ok = (np.ascontiguousarray(arr.ravel(order='F')).astype(arr.dtype.newbyteorder('<')).tobytes()
               == np.ascontiguousarray(data.ravel(order='F')).astype(data.dtype.newbyteorder('<')).tobytes())
    if single4 and rest is not None and rest.startswith('shape') and list(img2.shape) == s[:3] and flat_ok:
        return f'[single-frame-4d] 4-D single-frame MGH volume reloads 3-D: {s} -> {list(img2.shape)}'
    if rest is not None:
        return rest
    if not flat_ok:
        return f'data changed after MGH round trip shape={s} dt={d["dt"]}'
    h2 = img2.header
    z2 = pat_of([np.asarray(x) for x in h2.get_zooms()])
    nd = 4 if len(want_shape) == 4 else 3
    tr = 0
    if d['setz'] is not None and len(d['setz']) == 4:
        tr = d['setz'][3]
    ftr_want = [tr, 0, 0, 0, 0]
    for i, v in d['sets']:
        ftr_want[i] = v
    if z2[:3] != list(d['zooms']):
        return f'voxel sizes changed: {z2[:3]} want {d["zooms"]}'
    if len(z2) != nd:
        return f'get_zooms has {len(z2)} entries for a {nd}-D volume'
    if nd == 4 and z2[3] != ftr_want[0]:
        return f'TR changed: {z2[3]} want {ftr_want[0]}'
    ftr = pat_of([np.asarray(h2[k]) for k in FTR_NAMES])
    if ftr != ftr_want:
        return f'footer fields changed: {ftr} want {ftr_want}'
    # independent decoding of the file
    dims = struct.unpack('>4i', raw[4:20])
    w = np.dtype(DT_NP[d['dt']]).itemsize
    nvox = int(np.prod(want_shape))
    if list(dims) != want_shape + [1] * (4 - len(want_shape)):
        return f'dims field {dims} does not describe shape {want_shape}'
    if len(raw) != 284 + nvox * w + 20 or list(struct.unpack('>5I', raw[284 + nvox * w:])) != ftr_want:
        return f'footer not at DATA_OFFSET + data bytes (file length {len(raw)}, expected {284 + nvox * w + 20})'
    if list(struct.unpack('>3I', raw[30:42])) != list(d['zooms']):
        return 'delta field does not hold the voxel sizes'
    saved_ras = ex['img'].header.binaryblock[42:90]
    if raw[42:90] != saved_ras or h2.binaryblock[42:90] != saved_ras:
        return 'Mdc / Pxyz_c bytes of the saved header did not survive the file round trip'
    return None


def oracle_mghload(case, out):
    """reader side of the round trip on a file laid out by the harness's own byte builder"""
    d = case.data
    f = d.get('fields')
    if not f or not f.get('valid'):
        return None
    if not out.startswith('ok '):
        return f'a well-formed MGH file (dims {f["dims"]}, type {f["code"]}) was refused: {out}'
    h, arr = case.extra['h'], case.extra['arr']
    shape = f['dims'][:3] if f['dims'][3] == 1 else f['dims']
    if list(arr.shape) != shape:
        return f'loaded shape {list(arr.shape)} for dims {f["dims"]}'
    w = arr.dtype.itemsize
    pats = [int(x) for x in np.ascontiguousarray(arr.ravel(order='F')).view(f'>u{w}' if w > 1 else 'u1')]
    if pats != f['data']:
        return 'data differ from the bytes in the file'
    ftr = pat_of([np.asarray(h[k]) for k in FTR_NAMES])
    if ftr != f['ftr']:
        return f'footer fields {ftr} differ from the file footer {f["ftr"]}'
    z = pat_of([np.asarray(x) for x in h.get_zooms()])
    if f['good']:
        if z[:3] != f['delta'] or h.binaryblock[42:90].hex() != f['ras']:
            return 'delta / Mdc / Pxyz_c differ from the header bytes in the file'
    if len(z) != (4 if f['dims'][3] > 1 else 3) or (len(z) == 4 and z[3] != f['ftr'][0]):
        return f'get_zooms {z} inconsistent with dims {f["dims"]} / TR {f["ftr"][0]}'
    return None


def oracle_mghresave(case, out):
    """a loaded MGH volume saved again keeps data, shape, voxel sizes, TR and every footer field (+ the edits)"""
    d = case.data
    f = d['fields']
    nd = 4 if f['dims'][3] > 1 else 3
    if d['setz'] is not None:
        z = d['setz']
        if len(z) != nd or (len(z) == 4 and not (_pos_finite(z[3]) or z[3] == 0)):
            return None
    if not out.startswith('ok '):
        return f'load -> save -> load raised for a well-formed MGH file (dims {f["dims"]}, type {f["code"]}): {out}'
    l1, l2, raw2 = case.extra['l1'], case.extra['l2'], case.extra['raw2']
    shape = f['dims'][:3] if f['dims'][3] == 1 else f['dims']
    for nm, l in (('first', l1), ('second', l2)):
        if l['shape'] != shape:
            return f'{nm} load: shape {l["shape"]} for dims {f["dims"]}'
        if l['data'] != f['data']:
            return f'{nm} load: data differ from the voxels in the original file'
        if l['code'] != f['code']:
            return f'{nm} load: type code {l["code"]} != {f["code"]}'
    if l1['ftr'] != f['ftr']:
        return f'first load: footer {l1["ftr"]} differs from the file footer {f["ftr"]}'
    want = list(f['ftr'])
    if d['setz'] is not None and len(d['setz']) == 4:
        want[0] = d['setz'][3]
    for i, v in d['sets']:
        want[i] = v
    if l2['ftr'] != want:
        return f'footer fields after load -> save -> load: {l2["ftr"]} want {want} (file had {f["ftr"]})'
    if l2['zooms'][:3] != l1['zooms'][:3] or (f['good'] and l2['zooms'][:3] != f['delta']):
        return f'voxel sizes changed by re-saving: {l2["zooms"][:3]} (first load {l1["zooms"][:3]})'
    if len(l2['zooms']) != nd or (nd == 4 and l2['zooms'][3] != want[0]):
        return f'get_zooms {l2["zooms"]} inconsistent with dims {f["dims"]} / TR {want[0]}'
    if l2['ras'] != l1['ras'] or (f['good'] and l2['ras'].hex() != f['ras']):
        return 'Mdc / Pxyz_c bytes changed by re-saving'
    # dof / goodRASFlag are not part of the property statement: compared with the model only (correspondence)
    # independent decoding of the second file
    w = {0: 1, 4: 2, 1: 4, 3: 4}[f['code']]
    nvox = len(f['data'])
    if len(raw2) != 284 + nvox * w + 20 or list(struct.unpack('>5I', raw2[284 + nvox * w:284 + nvox * w + 20])) != want:
        return f'footer of the re-saved file not at DATA_OFFSET + data bytes, or wrong (file length {len(raw2)})'
    if list(struct.unpack('>4i', raw2[4:20])) != f['dims'] or raw2[284:284 + nvox * w] != b''.join(
            int(x).to_bytes(w, 'big') for x in f['data']):
        return 're-saved file: dims / data bytes differ from the original'
    return None


def oracle_annot2(case, out):
    d = case.data
    n = len(d['ctab'])
    if not annot_in_domain(d) or not d['fill2'] or len(d['rgb']) != n:
        return None
    if any(not 0 <= c <= 255 for r in d['rgb'] for c in r):
        return None
    p1 = [pack(r) for r in d['ctab']]
    p2 = [pack(r) for r in d['rgb']]
    if len(set(p2)) != n or 0 in p1 or 0 in p2:
        return None                    # format limits are reported by the `annot` stream
    if not out.startswith('ok '):
        return f'read -> recolour -> write(fill_ctab=True) -> read raised for a valid annotation: {out[-60:]}'
    l2, c2, n2 = case.extra['res']
    want_ctab = np.array([list(rgb) + [r[3], p] for rgb, r, p in zip(d['rgb'], d['ctab'], p2)], dtype=np.int64).reshape(n, 5)
    if c2.shape != (n, 5) or not np.array_equal(c2, want_ctab):
        return f'recoloured table differs: got {np.asarray(c2).tolist()[:3]} want {want_ctab.tolist()[:3]}'
    if [bytes(x) for x in n2] != [nm.encode('utf-8') for nm in d['names']]:
        return 'names differ after the second round trip'
    if [int(x) for x in l2] != list(d['labels']) or case.extra['l1'] != list(d['labels']):
        return (f'labels differ after read -> recolour -> write(fill_ctab=True) -> read: '
                f'got {[int(x) for x in l2][:8]} want {list(d["labels"])[:8]}')
    return None


def oracle_zoom(case, out):
    d = case.data
    if not out.startswith('ok ') or 'ERR' in out:
        return None
    s = d['shape']
    nd = 4 if (len(s) == 4 and s[3] > 1) else 3
    got = [int(x) for x in out.rsplit('zooms=[', 1)[1].rstrip(']').split(',')]
    zs = d['zs']
    if len(zs) == nd and got != zs:
        return f'get_zooms after set_zooms differs: {got} want {zs}'
    if len(zs) == 3 and got[:3] != zs:
        return f'spatial zooms after set_zooms differ: {got} want {zs}'
    return None


ORACLE = {'mghresave': oracle_mghresave, 'mghload': oracle_mghload, 'annot2': oracle_annot2, 'geom': oracle_geom, 'morph': oracle_morph, 'annot': oracle_annot, 'mgh': oracle_mgh, 'zoom': oracle_zoom}


def oracle(case, out):
    if case.extra is None and out.startswith('ok '):
        impl(case)
    return ORACLE[case.data['op']](case, out)


def signature(case, what):
    d = case.data
    what = what or ''
    if d['op'] == 'annot':
        n = len(d['ctab'])
        if what.startswith('[zero-packed]') and any(l >= 0 and l < n and pack(d['ctab'][l]) == 0 for l in d['labels']):
            return 'annot:zero-packed-rgb-referenced'
        return 'annot:other'
    if d['op'] == 'mgh':
        if what.startswith('[single-frame-4d]') and len(d['shape']) == 4 and d['shape'][3] == 1:
            return 'mgh:single-frame-4d-shape'
        return 'mgh:other'
    return d['op'] + ':other'


def in_known_class(d):
    """input classes of the open findings (format limits)"""
    if d['op'] == 'annot':
        n = len(d['ctab'])
        return any(0 <= l < n and pack(d['ctab'][l]) == 0 for l in d['labels'])
    if d['op'] == 'mgh':
        return len(d['shape']) == 4 and d['shape'][3] == 1
    return False


def shrink_candidates(case):
    """smaller cases; a case outside the known-finding classes is never shrunk into one of them (the
    runner would then file a new failure under the known signature)"""
    keep_out = not in_known_class(case.data)
    for c in _shrink_candidates(case):
        if keep_out and in_known_class(c.data):
            continue
        yield c


def _shrink_candidates(case):
    d = case.data
    op = d['op']
    for k in ('lay', 'lay_c', 'lay_f', 'lay_l', 'lay_t'):
        if d.get(k, 'C') != 'C':
            yield MK[op]({**d, k: 'C'}, case.stream)
    for k, v in (('dt_c', 'f8'), ('dt_f', 'i8'), ('dt_l', 'i8'), ('dt_t', 'i8'), ('dt_m', 'f8')):
        if d.get(k, v) != v and k in d:
            yield MK[op]({**d, k: v}, case.stream)
        if k == 'dt_l' and d.get(k, v).startswith('u') and d.get(k) != 'u1' and all(0 <= l < 256 for l in d['labels']):
            yield MK[op]({**d, k: 'u1'}, case.stream)
    for k in ('names_kind', 'vol_kind', 'aslist', 'lab_list'):
        if d.get(k):
            yield MK[op]({**d, k: None}, case.stream)
    if op == 'annot':
        if len(d['labels']) > 1:
            for i in range(len(d['labels'])):
                yield mk_annot({**d, 'labels': d['labels'][:i] + d['labels'][i + 1:]}, case.stream)
        n = len(d['ctab'])
        for k in range(n):
            if len(d['names']) == n:
                labs = [(-1 if l == k else (l - 1 if l > k else l)) for l in d['labels']]
                yield mk_annot({**d, 'labels': labs, 'ctab': d['ctab'][:k] + d['ctab'][k + 1:],
                                'names': d['names'][:k] + d['names'][k + 1:]}, case.stream)
        for k, nm in enumerate(d['names']):
            if len(nm) > 1:
                yield mk_annot({**d, 'names': d['names'][:k] + [nm[:1]] + d['names'][k + 1:]}, case.stream)
    elif op == 'annot2':
        if len(d['labels']) > 1:
            for i in range(len(d['labels'])):
                yield mk_annot2({**d, 'labels': d['labels'][:i] + d['labels'][i + 1:]}, case.stream)
        for k, nm in enumerate(d['names']):
            if len(nm) > 1:
                yield mk_annot2({**d, 'names': d['names'][:k] + [nm[:1]] + d['names'][k + 1:]}, case.stream)
    elif op == 'geom':
        if d.get('vol') is not None:
            yield mk_geom({**d, 'vol': None}, case.stream)
        if d['nf'] > 0:
            yield mk_geom({**d, 'nf': d['nf'] - 1, 'faces': d['faces'][:-3]}, case.stream)
        if d['nv'] > 0:
            yield mk_geom({**d, 'nv': d['nv'] - 1, 'coords': d['coords'][:-3]}, case.stream)
        if len(d['stamp']) > 1:
            yield mk_geom({**d, 'stamp': d['stamp'][:len(d['stamp']) // 2]}, case.stream)
    elif op == 'morph':
        n = len(d['vals'])
        if n > 1:
            shp = [(x if x == 1 else n - 1) for x in d['shape']]
            if int(np.prod(shp)) == n - 1:
                yield mk_morph({**d, 'shape': shp, 'vals': d['vals'][:-1]}, case.stream)
    elif op == 'mgh':
        s = d['shape']
        for ax in range(len(s)):
            if s[ax] > 1:
                s2 = list(s)
                s2[ax] -= 1
                yield mk_mgh({**d, 'shape': s2, 'data': d['data'][:int(np.prod(s2))]}, case.stream)
        if d['sets']:
            yield mk_mgh({**d, 'sets': d['sets'][:-1]}, case.stream)
        if d['setz'] is not None:
            yield mk_mgh({**d, 'setz': None}, case.stream)
        if d.get('ext') == '.mgz':
            yield mk_mgh({**d, 'ext': '.mgh'}, case.stream)


# =====================================================================================================
# generators
# =====================================================================================================

F32_SPECIAL = [0, 0x80000000, 1, 0x80000001, 0x007FFFFF, 0x00800000, 0x7F7FFFFF, 0xFF7FFFFF, 0x7F800000,
               0xFF800000, ONE, 0xBF800000, 0x3F7FFFFF, 0x3F800001, 0x7FC00000, 0x4B800000, 0x4B7FFFFF]


def rand_f32(rng, nan_ok=True):
    r = rng.random()
    if r < 0.25:
        p = rng.choice(F32_SPECIAL)
    elif r < 0.6:
        p = rng.getrandbits(32)
    else:   # "ordinary" coordinates: |x| < 256 with a few fraction bits
        p = pat_of([rng.randrange(-2 ** 20, 2 ** 20) / 4096.0])[0]
    if not is_qnan_or_num(p) or (not nan_ok and (p & 0x7FFFFFFF) > 0x7F800000):
        p = (p & 0x807FFFFF) | 0x3F000000
    return p


def rand_pos_f32(rng):
    r = rng.random()
    if r < 0.3:
        return rng.choice([ONE, 0x40000000, 0x3F000000, 0x3E99999A, 0x40490FDB, 0x3DCCCCCD])
    if r < 0.4:
        return rng.choice([1, 0x007FFFFF, 0x00800000, 0x7F7FFFFF])
    return pat_of([rng.randrange(1, 5000) / rng.choice([1, 3, 7, 10, 64, 1000])])[0]


ALPHA = 'abcdefghijklmnopqrstuvwxyzABCDEFGHIJKLMNOPQRSTUVWXYZ0123456789 _-./:#()=,;+*\t\r'
UNI = 'éßΩж中𝄞ñ  '


def rand_text(rng, lo, hi, alpha=ALPHA, uni=True):
    n = rng.randrange(lo, hi + 1)
    if rng.random() < 0.1:
        n = rng.choice([lo, hi])
    chars = [rng.choice(UNI) if (uni and rng.random() < 0.05) else rng.choice(alpha) for _ in range(n)]
    return ''.join(chars)


VAL_ALPHA = 'abcdefghijklmnopqrstuvwxyzABCDEFGHIJKLMNOPQRSTUVWXYZ0123456789 _-./:#(),;+*'


def rand_dec(rng):
    """decimal with <= 10 significant digits as a string whose float round-trips through %.10g"""
    while True:
        nd = rng.randrange(1, 11)
        m = rng.randrange(0, 10 ** nd)
        e = rng.choice([0, 0, 0, -1, -2, -3, -5, -9, 3, 7, -12, 20])
        s = f'{"-" if rng.random() < 0.3 else ""}{m}e{e}'
        v = float(s)
        if float('%.10g' % v) == v:
            return s


def rand_volfloat(rng):
    """a footer float as a decimal string: round values, <= 10-digit decimals (bit-exact through the text),
    single-precision values as FreeSurfer headers hold them (direction cosines of oblique volumes, off-centre
    c_ras, non-round voxel sizes: 8-9 significant digits, > the 6 of a bare `g` format), full doubles"""
    import math
    r = rng.random()
    if r < 0.25:
        return rng.choice(['1', '0', '-1', '1e-10'])
    if r < 0.5:
        return rand_dec(rng)
    if r < 0.85:
        k = rng.randrange(4)
        if k == 0:
            v = math.cos(rng.uniform(0, 2 * math.pi))
        elif k == 1:
            v = rng.uniform(-128, 128)
        elif k == 2:
            v = rng.choice([0.7, 0.1, 0.9375, 1.0 / 3, 0.8203125, 1.2])
        else:
            v = float(f32_of([rand_f32(rng, nan_ok=False)])[0])
        with np.errstate(all='ignore'):
            v = float(np.float32(v))
        if v != v or v in (float('inf'), float('-inf')):
            v = 0.25
        return repr(v)
    return repr(rng.choice([rng.uniform(-1, 1), rng.uniform(-300, 300), rng.random() * 10.0 ** rng.randrange(-20, 20)]))


def rand_vol(rng, rich=False):
    if rich:
        return {'head': rng.choice([[20], [2, 0, 20], [2, 0, 20]]),
                'valid': rng.choice(['1  # volume info valid', '1']),
                'filename': rng.choice(['../mri/filled-pretess255.mgz', 'orig.mgz']),
                'volume': [rng.choice([256, 176, rng.randrange(1, 512)]) for _ in range(3)],
                **{k: [rand_volfloat(rng) for _ in range(3)] for k in VEC_KEYS}}
    return {'head': rng.choice([[20], [2, 0, 20], [2, 0, 20]]),
            'valid': rng.choice(['1  # volume info valid', '0', '1', rand_text(rng, 0, 30, VAL_ALPHA, False).strip()]),
            'filename': rng.choice(['../mri/filled-pretess255.mgz', rand_text(rng, 0, 60, VAL_ALPHA, False).strip()]),
            'volume': [rng.choice([256, 0, 1, -1, 10, 99, 100, 2 ** 31, -2 ** 40, 10 ** 18, 2 ** 63 - 1, -2 ** 63,
                                   rng.randrange(-5, 100000), rng.randrange(-10 ** 12, 10 ** 12)]) for _ in range(3)],
            **{k: [rng.choice(['1', '0', '-1', '1e-10', rand_dec(rng)]) for _ in range(3)] for k in VEC_KEYS}}


LAY_W = ['C', 'C', 'C', 'F', 'F', 'T', 'strided', 'rev', 'swap', 'Fswap']


INT_RANGE = {'i8': (-2 ** 63, 2 ** 63), 'i4': (-2 ** 31, 2 ** 31), 'i2': (-2 ** 15, 2 ** 15), 'i1': (-128, 128),
             'u1': (0, 256), 'u2': (0, 2 ** 16), 'u4': (0, 2 ** 32), 'u8': (0, 2 ** 64)}


def int_dt(rng, vals, choices=('i8', 'i8', 'i4', 'i2')):
    """an integer dtype for `vals` (every value must be representable: the caller's array, not a cast of ours)"""
    dt = rng.choice(choices)
    lo, hi = INT_RANGE[dt]
    return dt if all(lo <= v < hi for v in vals) else 'i8'


def float_dt(rng, pats):
    """a dtype that holds the float32 values `pats` exactly: float32, float64, long double, and - when they fit -
    float16 or an integer dtype (vertex coordinates in voxel units, integer-valued overlays)"""
    dt = rng.choice(['f8', 'f8', 'f4', 'f4', 'g', 'f2', 'i2', 'i4', 'u1', 'i8'])
    if dt in ('f8', 'f4', 'g'):
        return dt
    with np.errstate(all='ignore'):
        v = f32_of(pats).astype(np.float32)
        if not np.all(np.isfinite(v)):
            return 'f8'
        back = v.astype(DT_NP[dt]).astype(np.float32)
    same = back.tobytes() == v.tobytes()       # -0.0 does not survive an integer dtype: bit compare
    return dt if same else 'f4'


def gen_geom(rng, big=False):
    nv = rng.choice([0, 0, 1, 2, 3, 4, 5, 8, 13]) if not big else rng.randrange(50, 400)
    nf = rng.choice([0, 0, 1, 2, 3, 5, 9]) if not big else rng.randrange(50, 600)
    if rng.random() < 0.25:       # coordinates in voxel units / small integers: representable in narrow dtypes
        coords = pat_of([float(rng.choice([0, 1, 2, 127, 255, rng.randrange(-300, 300)])) for _ in range(3 * nv)])
    else:
        coords = [rand_f32(rng) for _ in range(3 * nv)]
    fr = rng.random()
    if nv and fr < 0.7:
        faces = [rng.randrange(0, nv) for _ in range(3 * nf)]
    else:
        faces = [rng.choice([0, -1, 2 ** 31 - 1, -2 ** 31, rng.randrange(-2 ** 31, 2 ** 31)]) for _ in range(3 * nf)]
    stamp = rng.choice(['created by builder on Tue Sep 29 12:00:00 2026', '', rand_text(rng, 0, 80).replace('\n', ' '),
                        rand_text(rng, 1, 300).replace('\n', ' ')])
    has_vol = rng.random() < 0.5
    return {'op': 'geom', 'meta': rng.random() < 0.8, 'stamp': stamp, 'nv': nv, 'nf': nf, 'coords': coords,
            'faces': faces, 'vol': rand_vol(rng, rich=rng.random() < 0.5) if has_vol else None,
            'lay_c': rng.choice(LAY_W), 'lay_f': rng.choice(LAY_W), 'dt_c': float_dt(rng, coords),
            'dt_f': int_dt(rng, faces, ('i8', 'i8', 'i4', 'i4', 'i2', 'i1', 'u1', 'u2', 'u4', 'u8')),
            'vol_kind': rng.choice([None, None, 'lists', 'dict', 'narrow'])}


def gen_geom_edge(rng):
    d = gen_geom(rng)
    d['meta'] = True
    v = rand_vol(rng)
    k = rng.randrange(6)
    if k == 0:
        v['head'] = rng.choice([[5], [2, 0, 21], [2, 1, 20], [20, 1], [], [3, 0, 20], [2, 0]])
    elif k == 1:
        v[rng.choice(['valid', 'filename'])] = rng.choice([' lead', 'trail ', '\ttab\t', ' ', 'a \x1f', '\x0bx'])
    elif k == 2:
        v[rng.choice(['valid', 'filename'])] = rng.choice(['a=b', '=', 'x = y = z'])
    elif k == 3:
        kk = rng.choice(['volume'] + VEC_KEYS)
        v[kk] = v[kk][:rng.randrange(0, 3)]
    elif k == 4:
        kk = rng.choice(['volume'] + VEC_KEYS)
        v[kk] = v[kk] + ['7']
    else:
        v['valid'] = rng.choice(['multi  space   inside', '#', '1 # x'])
    d['vol'] = v
    d['stream'] = 'geom-edge'
    return d


def gen_morph(rng, big=False):
    n = rng.choice([0, 1, 1, 2, 3, 5, 8, 17]) if not big else rng.randrange(100, 3000)
    kind = rng.choice([0, 0, 1, 1, 2, 2, 3, 3, 4, 5, 6, 7])
    shape = [[n], [n, 1], [1, n], [n, 1, 1], [1, 1, n], [n, 1, 1, 1], [1, n, 1], None][kind]
    if shape is None:
        a = rng.choice([0, 2, 3])
        b = rng.choice([0, 2, 3])
        shape = rng.choice([[a, b], [], [a, b, 1], [a, 1, b]])
        n = int(np.prod(shape)) if shape else 1
    fnum = rng.choice([0, 0, 0, 1, 327680, -1, 2 ** 31 - 1, -2 ** 31, rng.randrange(-2 ** 31, 2 ** 31),
                       rng.choice([2 ** 31, -2 ** 31 - 1, rng.randrange(-2 ** 33, 2 ** 33)])])
    if rng.random() < 0.25:
        vals = pat_of([float(rng.choice([0, 1, 2, 127, 255, rng.randrange(-300, 300)])) for _ in range(n)])
    else:
        vals = [rand_f32(rng) for _ in range(n)]
    dt_m = float_dt(rng, vals)
    aslist = rng.random() < 0.15 and n > 0        # `.tolist()` of an empty array does not keep its shape
    if aslist and (dt_m not in ('f8', 'i8') or not all(is_qnan_or_num(p) for p in vals)):
        dt_m = 'f8'
    return {'op': 'morph', 'shape': shape, 'vals': vals, 'fnum': fnum,
            'f64': dt_m != 'f4', 'dt_m': dt_m, 'lay': rng.choice(LAY_W), 'aslist': aslist}


def distinct_packs(rng, n, zero_p):
    seen = set()
    out = []
    while len(out) < n:
        r = rng.random()
        if r < zero_p and 0 not in seen:
            p = 0
        elif r < 0.3:
            p = rng.choice([1, 255, 256, 65536, 0xFFFFFF, 0xFF0000, 0x00FF00, 0x010101, 2, 3])
        else:
            p = rng.getrandbits(24)
        if p not in seen:
            seen.add(p)
            out.append(p)
    return out


def gen_annot(rng, zero_p=0.08, big=False, narrow=False):
    n = rng.choice([0, 1, 1, 2, 3, 4, 6, 9]) if not big else rng.randrange(20, 80)
    packs = distinct_packs(rng, n, zero_p)
    fill = rng.random() < 0.6
    ncol = 5 if (not fill or rng.random() < 0.4) else 4
    ctab = []
    for p in packs:
        row = [p & 255, (p >> 8) & 255, (p >> 16) & 255, rng.choice([0, 0, 255, rng.randrange(256)])]
        if ncol == 5:
            row.append(p if (not fill or rng.random() < 0.5) else rng.randrange(-5, 2 ** 24))
        ctab.append(row)
    nvtx = rng.choice([0, 1, 2, 3, 5, 8, 20]) if not big else rng.randrange(50, 400)
    pu = rng.choice([0.0, 0.2, 0.5, 1.0])
    labels = [(-1 if (n == 0 or rng.random() < pu) else rng.randrange(n)) for _ in range(nvtx)]
    if n == 0 and rng.random() < 0.4:
        labels = []
    names = []
    for _ in range(n):
        r = rng.random()
        names.append(rand_text(rng, 1, 200) if r < 0.3 else (rand_text(rng, 0, 12) if r < 0.9 else ''))
    names = [nm.rstrip('\0') for nm in names]
    flat = [v for r in ctab for v in r]
    dt_t = rng.choice(['i8', 'i8', 'i4', 'u4', 'u8', 'f8', 'f4'])
    if dt_t in ('u4', 'u8') and any(v < 0 for v in flat):
        dt_t = 'i8'
    if dt_t == 'f4' and any(abs(v) >= 2 ** 24 for v in flat):
        dt_t = 'f8'
    if narrow or (fill and ncol == 4 and rng.random() < 0.3):
        # tables of a narrow integer dtype (uint8 RGBA is the natural one); pre-fix `_pack_rgb` overflowed there
        fill, ncol, ctab = True, 4, [r[:4] for r in ctab]
        dt_t = rng.choice(['u1', 'u1', 'i2', 'u2', 'i1'])
        if dt_t == 'i1' and any(v > 127 for r in ctab for v in r):
            dt_t = 'u1'
    dt_l = int_dt(rng, labels + [len(ctab)], ('i8', 'i8', 'i4', 'i2', 'i1', 'u1', 'u2', 'u4', 'u8'))
    return {'op': 'annot', 'orig': rng.random() < 0.15, 'fill': fill, 'ncol': ncol, 'labels': labels,
            'ctab': ctab, 'names': names, 'lay_l': rng.choice(LAY_W), 'lay_t': rng.choice(LAY_W),
            'dt_l': dt_l, 'dt_t': dt_t,
            'names_kind': rng.choice([None, None, None, 'bytes', 'mixed', 'tuple', 'array']),
            'lab_list': bool(labels) and rng.random() < 0.1}     # an EMPTY list has no integer dtype (documented input: ndarray)


def gen_annot2(rng):
    """history: write, read, recolour ctab[:, :3] of what was read (5th column goes stale), write again, read"""
    d = gen_annot(rng, zero_p=0.0, big=rng.random() < 0.02)
    n = len(d['ctab'])
    if not d['fill'] and d['ncol'] == 5:
        d['ctab'] = [r[:4] + [pack(r)] for r in d['ctab']]
    old = {pack(r) for r in d['ctab']}
    rgb = []
    r = rng.random()
    if r < 0.25 and n > 1:         # a permutation of the old colours: every stale value is ANOTHER row's fresh value
        sh = list(range(n))
        while sh == list(range(n)):
            rng.shuffle(sh)
        rgb = [d['ctab'][i][:3] for i in sh]
    else:
        for p in distinct_packs(rng, n, 0.0):
            while p == 0:
                p = rng.getrandbits(24)
            rgb.append([p & 255, (p >> 8) & 255, (p >> 16) & 255])
        if len({pack(x) for x in rgb}) != n:
            rgb = [[(pack(r0) + 1 + i) & 255, ((pack(r0) + 1 + i) >> 8) & 255, ((pack(r0) + 1 + i) >> 16) & 255]
                   for i, r0 in enumerate([[0, 0, 0]] * n)]
    k = rng.random()
    if k < 0.06 and n:
        rgb = rgb[:rng.randrange(0, n)]                  # only the first rows recoloured
    elif k < 0.10 and n:
        rgb[rng.randrange(n)][rng.randrange(3)] = rng.choice([256, -1, 1000, 65536])
    # the table the second write sees must keep pairwise distinct annotation values (NumPy's argsort is not
    # stable; the model's is): a partial recolouring must not reproduce a colour of an untouched row
    final = [pack(x) for x in rgb] + [pack(r0) for r0 in d['ctab'][len(rgb):]]
    if len(set(final)) != n:
        rgb = [[(i + 1) & 255, ((i + 1) >> 8) & 255, 77] for i in range(n)]
        while {pack(x) for x in rgb} & old:
            rgb = [[x[0], x[1], (x[2] + 1) & 255] for x in rgb]
    d.update({'op': 'annot2', 'orig': False, 'rgb': rgb, 'fill2': rng.random() < 0.85})
    return d


def build_mgh(dims, code, good, delta, ras, data, w, ftr_bytes, version=1, dof=0, junk=b''):
    """an MGH file laid out by hand (big endian): 90-byte header, zeros up to 284, data, footer"""
    hdr = struct.pack('>I4III', version, *dims, code, dof) + struct.pack('>H', good)
    hdr += struct.pack('>3I', *delta) + bytes(ras)
    body = b''.join(int(x).to_bytes(w, 'big') for x in data)
    return hdr + b'\0' * (284 - len(hdr)) + body + bytes(ftr_bytes) + junk


def gen_mghload(rng):
    ndim4 = rng.random() < 0.5
    dims = [rng.choice([1, 1, 2, 3]) for _ in range(3)] + [rng.choice([2, 3]) if ndim4 else 1]
    dt = rng.choice(['u1', 'i2', 'i4', 'f4'])
    code = {'u1': 0, 'i2': 4, 'i4': 1, 'f4': 3}[dt]
    w = np.dtype(DT_NP[dt]).itemsize
    n = int(np.prod(dims))
    data = [rng.getrandbits(8 * w) for _ in range(n)]
    delta = [rand_pos_f32(rng) for _ in range(3)]
    ras = bytes(rng.getrandbits(8) for _ in range(48)) if rng.random() < 0.5 else \
        ras_bytes({'zooms': delta, 'perm': rng.randrange(6), 'shape': dims[:3], 'trans': [rng.randrange(-9, 9) for _ in range(3)]})
    ftr = [rng.choice([0, rand_pos_f32(rng), rng.getrandbits(32)]) for _ in range(5)]
    ftr_bytes = struct.pack('>5I', *ftr)
    good, version, junk, valid = 1, 1, b'', True
    k = rng.choice([0, 0, 0, 1, 1, 2, 2, 3, 4, 4, 5, 6, 7, 8, 9, 10])
    if k == 1:
        good = 0
    elif k == 2:                                   # footer partly / wholly absent: zero padded
        cut = rng.randrange(0, 20)
        ftr_bytes = ftr_bytes[:cut]
        ftr = list(struct.unpack('>5I', ftr_bytes + b'\0' * (20 - cut)))
    elif k == 3:                                   # data truncated
        valid = False
    elif k == 4:                                   # FreeSurfer writes tags after the footer
        junk = bytes(rng.getrandbits(8) for _ in range(rng.randrange(1, 40)))
    elif k == 5:
        version, valid = rng.choice([0, 2, 256, 2 ** 24]), False
    elif k == 6:
        code, valid = rng.choice([2, 5, 6, 10, 255, 2 ** 31]), False
    elif k == 7:
        dims[rng.randrange(4)] = 0
        data, valid = [], False
    elif k == 8:
        good = rng.choice([2, 255, 256, 65535, 32768])
    elif k == 9:
        valid = False
    raw = build_mgh(dims, code, good, delta, ras, data, w, ftr_bytes, version=version, junk=junk)
    if k == 3:
        raw = raw[:284 + rng.randrange(0, max(1, n * w))]
    elif k == 9:
        raw = raw[:rng.choice([0, 1, 28, 89, 90, 91, 283])]
    fields = {'valid': valid, 'dims': dims, 'code': code, 'good': good, 'delta': delta, 'ras': bytes(ras).hex(),
              'ftr': ftr, 'data': data}
    return {'op': 'mghload', 'file': raw.hex(), 'ext': rng.choice(['.mgh', '.mgh', '.mgz']), 'kind': k, 'fields': fields}


def rand_mod_f32(rng):
    """a finite float32 of moderate magnitude (no NaN/inf, |x| < 2^20 or 0)"""
    r = rng.random()
    if r < 0.2:
        return rng.choice([0, 0x80000000, ONE, 0xBF800000, 0x3F000000])
    return pat_of([rng.randrange(-2 ** 20, 2 ** 20) / rng.choice([1.0, 4096.0, 3.0, 1000.0])])[0]


def rand_mod_pos_f32(rng):
    return rng.choice([ONE, 0x40000000, 0x3F000000, 0x3E99999A, 0x40490FDB, 0x3DCCCCCD,
                       pat_of([rng.randrange(1, 5000) / rng.choice([1, 3, 7, 10, 64, 1000])])[0]])


def gen_mghresave(rng):
    """a well-formed MGH file as some other program wrote it (non-default dof / goodRASFlag, all footer fields
    non-zero, partial or absent footer, tags after the footer) + the edits applied between load and save"""
    ndim4 = rng.random() < 0.5
    dims = [rng.choice([1, 1, 2, 3]) for _ in range(3)] + [rng.choice([2, 3]) if ndim4 else 1]
    dt = rng.choice(['u1', 'i2', 'i4', 'f4'])
    code = {'u1': 0, 'i2': 4, 'i4': 1, 'f4': 3}[dt]
    w = np.dtype(DT_NP[dt]).itemsize
    n = int(np.prod(dims))
    if dt == 'f4':
        data = [rand_f32(rng, nan_ok=False) for _ in range(n)]
    else:
        data = [rng.choice([0, 1, 256 ** w - 1, 256 ** w // 2, rng.getrandbits(8 * w)]) for _ in range(n)]
    delta = [rand_mod_pos_f32(rng) for _ in range(3)]
    if rng.random() < 0.4:
        ras = b''.join(struct.pack('>I', rand_mod_f32(rng)) for _ in range(12))
    else:
        ras = ras_bytes({'zooms': delta, 'perm': rng.randrange(6), 'shape': dims[:3],
                         'trans': [rng.randrange(-9, 9) for _ in range(3)]})
    r = rng.random()
    if r < 0.15:
        ftr = [0] * 5
    elif r < 0.3:
        ftr = [0x450FC000, 0x3E0EFA35, 0x403D70A4, 0x44898000, 0x43800000]
    else:
        ftr = [rng.choice([0, rand_pos_f32(rng), rand_mod_f32(rng), rng.getrandbits(32)]) for _ in range(5)]
    ftr_bytes = struct.pack('>5I', *ftr)
    good = rng.choice([1, 1, 1, 0, 0, 2, 255, 256, 65535, 32768])
    dof = rng.choice([0, 0, 1, 7, 2 ** 31, 2 ** 32 - 1, rng.getrandbits(32)])
    junk = b''
    k = rng.random()
    if k < 0.2:                                    # footer partly / wholly absent: zero padded on load
        cut = rng.randrange(0, 20)
        ftr_bytes = ftr_bytes[:cut]
        ftr = list(struct.unpack('>5I', ftr_bytes + b'\0' * (20 - cut)))
    elif k < 0.45:                                 # FreeSurfer writes tags after the footer
        junk = bytes(rng.getrandbits(8) for _ in range(rng.randrange(1, 40)))
    raw = build_mgh(dims, code, good, delta, ras, data, w, ftr_bytes, dof=dof, junk=junk)
    nd = 4 if ndim4 else 3
    loaded_delta = delta if good else [ONE] * 3
    setz = None
    r = rng.random()
    if r < 0.45:
        setz = list(loaded_delta)
        if nd == 4:
            setz.append(rng.choice([0, rand_mod_pos_f32(rng), 0x44FA0000, 0x40200000]))
        if r < 0.03:
            setz = setz + [ONE]                    # too many zooms
        elif r < 0.06 and nd == 4:
            setz[3] = rng.choice([0xBF800000, 0x80000001])
    sets = []
    for _ in range(rng.choice([0, 0, 0, 1, 2, 4])):
        i = rng.randrange(5)
        v = rng.choice([0, 0x80000000, rand_mod_pos_f32(rng), rand_mod_pos_f32(rng) | 0x80000000])
        sets.append([i, v])
    fields = {'dims': dims, 'code': code, 'good': good, 'dof': dof, 'delta': delta, 'ras': bytes(ras).hex(),
              'ftr': ftr, 'data': data}
    return {'op': 'mghresave', 'file': raw.hex(), 'ext': rng.choice(['.mgh', '.mgh', '.mgz']),
            'ext2': rng.choice(['.mgh', '.mgh', '.mgz']), 'same': rng.random() < 0.15, 'mmap': rng.random() < 0.7,
            'touch': rng.random() < 0.3, 'setz': setz, 'sets': sets, 'fields': fields}


def gen_annot_edge(rng):
    d = gen_annot(rng, zero_p=0.0)
    d['dt_t'] = d['dt_l'] = 'i8'          # the edge values below need the full range
    n = len(d['ctab'])
    k = rng.randrange(6)
    if k == 0 and d['labels']:
        i = rng.randrange(len(d['labels']))
        d['labels'][i] = rng.choice([n, n + 3, -2, -n - 1, -n, -n - 2, 2 ** 31])
    elif k == 1 and n:
        d['names'] = d['names'] + ['extra']     # zip() ignores the surplus name
    elif k == 2 and n:
        d['fill'], d['ncol'] = False, 5
        d['ctab'] = [r[:4] + [pack(r) + (1 if i == 0 else 0)] for i, r in enumerate(d['ctab'])]
        if len(set(r[4] for r in d['ctab'])) != n:
            d['ctab'] = [r[:4] + [pack(r)] for r in d['ctab']]
    elif k == 3 and n:
        i = rng.randrange(n)
        d['ctab'][i][3] = rng.choice([2 ** 31, -2 ** 31 - 1, 2 ** 31 - 1, -2 ** 31, -1])
    elif k == 4:
        d['fill'], d['ncol'] = False, 4
        d['ctab'] = [r[:4] for r in d['ctab']]
    elif n:
        d['names'][rng.randrange(n)] = rng.choice(['x\0', '\0', 'a\0b', 'a\0\0'])
    d['stream'] = 'annot-edge'
    return d


def gen_mgh(rng):
    ndim = rng.choice([1, 2, 3, 3, 4, 4, 4])
    shape = [rng.choice([1, 1, 2, 3, 4, 5]) for _ in range(ndim)]
    if ndim == 4:
        shape[3] = 1 if rng.random() < 0.06 else rng.choice([2, 2, 3, 4, 7])
    dt = rng.choice(['u1', 'i2', 'i4', 'f4'])
    w = np.dtype(DT_NP[dt]).itemsize
    n = int(np.prod(shape))
    if dt == 'f4':
        data = [rand_f32(rng, nan_ok=False) for _ in range(n)]
    else:
        data = [rng.choice([0, 1, 256 ** w - 1, 256 ** w // 2, 256 ** w // 2 - 1, rng.getrandbits(8 * w)]) for _ in range(n)]
    zooms = [rand_pos_f32(rng) for _ in range(3)]
    nd = 4 if (ndim == 4 and shape[3] > 1) else 3
    setz = None
    r = rng.random()
    if r < 0.5:
        setz = list(zooms)
        if nd == 4:
            setz.append(rng.choice([0, rand_pos_f32(rng), 0x44FA0000, 0x40200000]))
    sets = []
    for _ in range(rng.choice([0, 0, 1, 2, 4])):
        i = rng.randrange(5)
        v = rng.choice([0, 0x80000000, rand_pos_f32(rng), rand_pos_f32(rng) | 0x80000000])
        if i == 0 and v > 0x80000000:
            v &= 0x7FFFFFFF
        sets.append([i, v])
    return {'op': 'mgh', 'shape': shape, 'dt': dt, 'data': data, 'zooms': zooms, 'perm': rng.randrange(len(PERMS)),
            'trans': [rng.randrange(-100, 100) for _ in range(3)], 'setz': setz, 'sets': sets,
            'ext': rng.choice(['.mgh', '.mgh', '.mgz']), 'lay': rng.choice(LAY_W)}


def gen_mgh_edge(rng):
    d = gen_mgh(rng)
    k = rng.randrange(5)
    if k == 0:
        d['shape'][rng.randrange(len(d['shape']))] = 0
        d['data'] = []
    elif k == 1:
        d['shape'] = d['shape'] + [1] * (5 - len(d['shape']))
        d['setz'] = None
    elif k == 2:
        d['dt'] = rng.choice(['i1', 'u2', 'f8', 'i8'])
        d['data'] = [x % 128 for x in d['data']]
    else:
        s = d['shape']
        nd = 4 if (len(s) == 4 and s[3] > 1) else 3
        z = list(d['zooms'])
        kk = rng.randrange(7)
        if kk == 0:
            z = z[:rng.choice([0, 1, 2])]
        elif kk == 1:
            z = z + [ONE, ONE][:rng.choice([1, 2])]
        elif kk == 2:
            z[rng.randrange(3)] = rng.choice([0, 0x80000000, 0xBF800000, 0x7FC00000, 0xFFC00000, 0x7F800000, 0xFF800000])
        elif kk == 3 and nd == 4:
            z = z + [rng.choice([0x80000000, 0xBF800000, 0x7FC00000, 0xFFC00000, 0x80000001, 0x7F800000])]
        elif kk == 4:
            z = [rand_pos_f32(rng) for _ in range(3)]
            while any(abs(float(a) / float(b) - 1) < 0.5 for a, b in zip(f32_of(z).astype(float), f32_of(d['zooms']).astype(float))):
                z = [rand_pos_f32(rng) for _ in range(3)]
            if nd == 4:
                z.append(ONE)
        elif kk == 5:
            z = [z[0]]
        d['setz'] = z
    d['stream'] = 'mgh-edge'
    return d


def gen_zoom(rng):
    ndim = rng.choice([0, 1, 2, 3, 3, 4, 4, 4, 5])
    shape = [rng.choice([0, 1, 1, 2, 3, 256, 2 ** 31 - 1]) for _ in range(ndim)]
    k = rng.choice([0, 1, 2, 3, 3, 3, 4, 4, 4, 5])
    zs = [rng.choice([rand_pos_f32(rng), rand_pos_f32(rng), rand_f32(rng)]) for _ in range(k)]
    return {'op': 'zoom', 'shape': shape, 'zs': zs}


def cases(rng, tier):
    mult = {'quick': 1, 'thorough': 12, 'search': 3}[tier]
    out = []
    # ---- exhaustive small: morph shape kinds x n, annot tiny tables
    for n in range(0, 4):
        for shape in ([n], [n, 1], [1, n], [n, 1, 1], [1, 1, n], [n, n], [n, 1, 1, 1], []):
            cnt = int(np.prod(shape)) if shape else 1
            out.append(mk_morph({'op': 'morph', 'shape': shape, 'vals': [ONE + i for i in range(cnt)], 'fnum': n,
                                 'f64': True}))
    for n in range(0, 3):
        rows = [[10 * (i + 1), 20 + i, 30 + i, 0] for i in range(n)]
        for nv in range(0, 3):
            for labs in _label_tuples(n, nv):
                for fill in (True, False):
                    ct = [r + [pack(r)] for r in rows] if not fill else rows
                    out.append(mk_annot({'op': 'annot', 'orig': False, 'fill': fill, 'ncol': 4 if fill else 5,
                                         'labels': list(labs), 'ctab': ct, 'names': [f'label-{i}' for i in range(n)]}))
    for s in ([1], [2], [2, 3], [2, 3, 2], [2, 1, 1], [2, 3, 2, 2], [1, 1, 1, 2], [2, 3, 2, 1], [1, 1, 1, 1], [1, 1, 1]):
        for dt in ('u1', 'i2', 'i4', 'f4'):
            n = int(np.prod(s))
            out.append(mk_mgh({'op': 'mgh', 'shape': s, 'dt': dt, 'data': list(range(1, n + 1)), 'zooms': [ONE, 0x40000000, 0x3F000000],
                               'perm': 0, 'trans': [0, 0, 0], 'setz': None, 'sets': [[0, 0x40200000]], 'ext': '.mgh'}))
    # ---- single-frame (1-D / 2-D / 3-D) volumes with EVERY footer field non-zero, .mgh and .mgz
    for s in ([3], [2, 3], [2, 3, 2], [1, 1, 1]):
        for dt, ext in (('u1', '.mgh'), ('i2', '.mgz'), ('i4', '.mgh'), ('f4', '.mgz')):
            n = int(np.prod(s))
            out.append(mk_mgh({'op': 'mgh', 'shape': s, 'dt': dt, 'data': list(range(1, n + 1)),
                               'zooms': [ONE, 0x40000000, 0x3F000000], 'perm': 1, 'trans': [1, -2, 3], 'setz': None,
                               'sets': [[0, 0x450FC000], [1, 0x3E0EFA35], [2, 0x403D70A4], [3, 0x44898000], [4, 0x43800000]],
                               'ext': ext}, 'mgh-footer'))
    # ---- every memory layout x every writer on one small fixed input each
    for lay in LAYOUTS:
        for lay2 in ('C', lay):
            out.append(mk_geom({'op': 'geom', 'meta': False, 'stamp': 's', 'nv': 4, 'nf': 2,
                                'coords': [ONE + 8 * i for i in range(12)], 'faces': [0, 1, 2, 3, 2, 1], 'vol': None,
                                'lay_c': lay, 'lay_f': lay2, 'dt_c': 'f8' if lay2 == 'C' else 'f4',
                                'dt_f': 'i8' if lay2 == 'C' else 'i4'}, 'layout'))
        for shape in ([4], [4, 1], [1, 4], [4, 1, 1]):
            out.append(mk_morph({'op': 'morph', 'shape': shape, 'vals': [ONE + i for i in range(4)], 'fnum': 0,
                                 'f64': lay != 'F', 'lay': lay}, 'layout'))
        for fill in (True, False):
            rows = [[10, 20, 30, 0], [1, 2, 3, 255], [200, 100, 50, 7]]
            ct = rows if fill else [r + [pack(r)] for r in rows]
            out.append(mk_annot({'op': 'annot', 'orig': False, 'fill': fill, 'ncol': 4 if fill else 5,
                                 'labels': [2, -1, 0, 1, 1], 'ctab': ct, 'names': ['a', 'b', 'c'], 'lay_l': lay,
                                 'lay_t': lay, 'dt_l': 'i4' if fill else 'i8', 'dt_t': 'i8' if fill else 'i4'}, 'layout'))
        for dt in ('u1', 'i2', 'i4', 'f4'):
            out.append(mk_mgh({'op': 'mgh', 'shape': [2, 3, 2, 2], 'dt': dt, 'data': list(range(1, 25)),
                               'zooms': [ONE, 0x40000000, 0x3F000000], 'perm': 0, 'trans': [0, 0, 0], 'setz': None,
                               'sets': [], 'ext': '.mgh', 'lay': lay}, 'layout'))
    for _ in range(60 * mult):
        out.append(mk_annot(gen_annot(rng, zero_p=0.0, narrow=True), 'annot-narrow'))
    # ---- random streams
    for _ in range(900 * mult):
        out.append(mk_geom(gen_geom(rng)))
    for _ in range(6 * mult):
        out.append(mk_geom(gen_geom(rng, big=True)))
    for _ in range(250 * mult):
        out.append(case_from_data(gen_geom_edge(rng)))
    for _ in range(500 * mult):
        out.append(mk_morph(gen_morph(rng)))
    for _ in range(4 * mult):
        out.append(mk_morph(gen_morph(rng, big=True)))
    for _ in range(1500 * mult):
        out.append(mk_annot(gen_annot(rng)))
    for _ in range(6 * mult):
        out.append(mk_annot(gen_annot(rng, big=True)))
    for _ in range(300 * mult):
        out.append(case_from_data(gen_annot_edge(rng)))
    for _ in range(900 * mult):
        out.append(mk_mgh(gen_mgh(rng)))
    for _ in range(250 * mult):
        out.append(case_from_data(gen_mgh_edge(rng)))
    for _ in range(600 * mult):
        out.append(mk_zoom(gen_zoom(rng)))
    for _ in range(400 * mult):
        out.append(mk_annot2(gen_annot2(rng)))
    for _ in range(500 * mult):
        out.append(mk_mghload(gen_mghload(rng)))
    for _ in range(600 * mult):
        out.append(mk_mghresave(gen_mghresave(rng)))
    return out


def _label_tuples(n, nv):
    import itertools
    return itertools.product(range(-1, n), repeat=nv)
