"""C06 — reading a slice straight from file bytes equals NumPy indexing (nibabel/fileslice.py)."""
import io
import itertools

import numpy as np

import os

import common
import py2lean
from common import Case, errname

PID = 'C06'
LEAN_TARGETS = ['NibabelModel.Props.C06']
THEOREMS = [
    'Nb.PySlice.sel_lt',
    'Nb.PySlice.sel_length',
    'Nb.C06.fillSlicerOrig_counterexample',
    'Nb.C06.positiveSliceOrig_counterexample',
    # stage A (per axis)
    'Nb.C06.fillSlicer_sel',
    'Nb.C06.fullSlicerLen_fill',
    'Nb.C06.slice2len_spec',
    'Nb.C06.positiveSlice_sel',
    'Nb.C06.optimizeSlicer_sound',
    'Nb.C06.optimizeSlicer_canon',
    'Nb.C06.optimizeSlicer_error_iff',
    'Nb.C06.thresholdHeuristic_int_not_contiguous',
    'Nb.C06.optimizeSlicer_int_full_iff',
    'Nb.C06.optimizeSlicer_slice_full_iff',
    # stage B (segments)
    'Nb.C06.optimizeLoop_canon',
    'Nb.C06.segments_cover',
    'Nb.C06.segments_in_extent',
    # stage C (whole)
    'Nb.C06.fileslice_eq_numpy',
    'Nb.C06.fileslice_threshold_eq_numpy',
    'Nb.C06.reads_within_extent',
    'Nb.C06.fileslice_int_out_of_range',
    # stage D (independent NumPy spec, predict_shape)
    'Nb.C06.npIndex_eq_npSpec',
    'Nb.C06.npIndex_two_ellipses',
    'Nb.C06.fileslice_eq_npSpec',
    'Nb.C06.fileslice_two_ellipses',
    'Nb.C06.predict_shape_spec',
    'Nb.C06.predict_shape_two_ellipses',
    # stage T (functions translated from the current source equal the model)
    'Nb.C06.source_fill_slicer_eq',
    'Nb.C06.source_fill_slicer_sel',
    'Nb.C06.source_full_slicer_len_eq',
    'Nb.C06.source_slice2len_numpy',
    'Nb.C06.source_positive_slice_eq',
    'Nb.C06.source_threshold_heuristic_eq',
    'Nb.C06.source_optimize_slicer_eq',
    'Nb.C06.source_optimize_read_slicers_eq',
    'Nb.C06.source_slicers2segments_eq',
    'Nb.C06.source_plan_reads_subarray',
    'Nb.C06.source_is_fancy_basic',
    'Nb.C06.source_canonical_slicers_eq',
    'Nb.C06.source_predict_shape_numpy',
    'Nb.C06.source_calc_slicedefs_eq',
    # stage H (byte level: read_segments, item view + post-slice; histories of reads)
    'Nb.C06.readSegments_reads_segments',
    'Nb.C06.readSegments_state',
    'Nb.C06.filesliceIO_eq_numpy',
    'Nb.C06.filesliceIO_state',
    'Nb.C06.read_history_independent',
    'Nb.C06.read_history_eq_numpy',
    'Nb.C06.readSegments_short',
    'Nb.C06.filesliceIO_short',
]
ASSUMPTIONS = [
    'harness/py2lean.py (syntactic Python->Lean translator, ~350 lines) and Basic/PyVal.lean (semantics of the '
    'translated Python fragment: ints, None, slices, tuples, true division kept exact) are trusted; both are '
    'validated on every run by executing the translated functions in the driver against the real functions '
    '(`gen` stream). Translated each run from the working tree: fill_slicer, _full_slicer_len, slice2len, '
    '_positive_slice, threshold_heuristic, optimize_slicer (Generated/C06Funcs.lean); the loops '
    '(optimize_read_slicers, slicers2segments, read_segments, canonical_slicers, predict_shape) are hand-modelled',
    'hand-written Lean model of nibabel/fileslice.py (Model/C06.lean), tied to the code by the '
    'differential correspondence run (result + I/O trace) on every case of this run',
    'read_segments and the tail of fileslice (n_bytes, ndarray(sliced_shape, buffer)[post_slicers]) are hand-modelled '
    'at the byte level over a file object with contents and position (Model/C06_IO.lean; file objects behave like '
    'io.BytesIO / a binary file opened for reading; locks are C14); tied by the `hist` stream: the driver rebuilds '
    'the file contents and runs the byte-level model on whole histories of reads',
    'in the model a result is a value: that a returned array does not change after its read (no shared / reused '
    'buffers behind results) is checked on the implementation only (`hist` stream: all results retained, compared '
    'with NumPy at the end of the history, hash right-after vs at-the-end, cross-write independence)',
    'Basic/PySlice is a specification of CPython slice semantics, validated in this run against '
    'slice.indices / range on the `spec` stream',
    'NumPy basic indexing is taken as the reference semantics (oracle uses NumPy itself)',
    'element values are identified with element numbers; dtype decoding is NumPy',
]
RULE = ('streams: exhaustive 1-D slices for n<=5 (start/stop in [-n-2,n+2]|None, step in +-1..3|None) x '
        '{full,contig,skip} x {C,F}; random 1-4 axis index tuples (ints, slices, one Ellipsis, newaxis) x '
        'itemsize {1,2,3,8,16} x offsets x heuristics incl. threshold sweeps; helper-prediction stream; '
        'PySlice spec stream; `nps` stream: the independent Lean NumPy spec (Lemmas/C06_NpSpec) vs real NumPy '
        'indexing (shape + element ids) on the random indices plus malformed tuples (two ellipses, too many '
        'indices, rank 0); `ps` stream: predict_shape model vs real predict_shape, oracle = NumPy shape. '
        '`hist` stream: histories of 2-6 reads in one thread on 1-3 files (BytesIO / real files; contents differ per '
        'file) through fileslice (with/without lock), calc_slicedefs+read_segments, ArrayProxy[idx], '
        'np.asarray(proxy), proxy.get_unscaled() (mmap False/True/c/r, keep_file_open), per-read heuristics incl. '
        'the shipped default on arrays whose strides straddle SKIP_THRESH, single- and multi-segment reads mixed, '
        'reads > 64 KiB, repeated reads, failing reads (bad index, short file) in the middle; ALL results retained '
        'and compared with NumPy right after the read AND at the end (after further unrelated reads, closing the '
        'file objects, dropping the proxies, deleting the files), unchanged-bytes check, writing into a writable '
        'result must not show through any other; model side = byte-level runHistory. '
        'A case is non-trivial when the index is not all-full-slices; distinct by '
        '(shape, index, order, itemsize, heuristic).')

GEN_PATH = os.path.join(common.VERIF, 'lean', 'NibabelModel', 'Generated', 'C06Funcs.lean')
GEN_FUNCS = [('_full_slicer_len', 'full_slicer_len'), ('fill_slicer', 'fill_slicer'), ('slice2len', 'slice2len'),
             ('_positive_slice', 'positive_slice'), ('threshold_heuristic', 'threshold_heuristic'),
             ('optimize_slicer', 'optimize_slicer'), ('optimize_read_slicers', 'optimize_read_slicers'),
             ('slicers2segments', 'slicers2segments'), ('is_fancy', 'is_fancy'),
             ('canonical_slicers', 'canonical_slicers'), ('predict_shape', 'predict_shape'),
             ('calc_slicedefs', 'calc_slicedefs')]


def regen():
    """Translate the per-axis functions of the CURRENT fileslice.py into Lean (Leg T for whole functions)."""
    import importlib
    from nibabel import fileslice as fs
    importlib.reload(fs)
    objs = [(getattr(fs, py), ln) for py, ln in GEN_FUNCS]
    hdr = ('/-! GENERATED by harness/props/c06.py regen() with harness/py2lean.py from the working tree of nibabel\n'
           '    (nibabel/fileslice.py). Do not edit: rewritten on every run of `./check C06`. Core Lean only. -/')
    text = py2lean.translate_functions(objs, 'Nb.Gen.C06F', hdr, {'SKIP_THRESH': fs.SKIP_THRESH})
    common.write_if_changed(GEN_PATH, text)
    return ['Generated.C06Funcs.' + ln for _, ln in GEN_FUNCS]


def _ellipsis_overflow(shape, idx):
    n_real = sum(1 for i in idx if i is not None and i is not Ellipsis)
    return any(i is Ellipsis for i in idx) and n_real > len(shape)


_N = None


def _fmt_o(v):
    return '_' if v is None else str(int(v))


def fmt_item(it):
    if it is None:
        return 'n'
    if it is Ellipsis:
        return 'e'
    if isinstance(it, slice):
        return 's' + ','.join(_fmt_o(v) for v in (it.start, it.stop, it.step))
    return 'i%d' % int(it)


def fmt_idx(idx):
    return ';'.join(fmt_item(i) for i in idx) if idx else '-'


def item_to_data(it):
    if it is None:
        return 'newaxis'
    if it is Ellipsis:
        return 'ellipsis'
    if isinstance(it, slice):
        return [it.start, it.stop, it.step]
    return int(it)


def item_from_data(d):
    if d == 'newaxis':
        return None
    if d == 'ellipsis':
        return Ellipsis
    if isinstance(d, list):
        return slice(*d)
    return int(d)


def mk_case(shape, idx, order, isz, off, heur, extra_len=0, stream='main', flen=None):
    nbytes = int(np.prod(shape, dtype=object)) * isz if len(shape) else isz
    if flen is None:
        flen = max(0, off + nbytes + extra_len)
    shp = ','.join(map(str, shape)) if shape else '-'
    line = f'C06 fs {order} {isz} {off} {flen} {heur} {shp} {fmt_idx(idx)}'
    data = {'op': 'fs', 'shape': list(shape), 'idx': [item_to_data(i) for i in idx], 'order': order,
            'isz': isz, 'off': off, 'heur': heur, 'flen': flen}
    trivial = all(isinstance(i, slice) and i == slice(None) for i in idx)
    key = None if trivial else (tuple(shape), fmt_idx(idx), order, isz, heur)
    return Case(line, data, key, stream)


def mk_np_case(op, shape, idx, order='F'):
    """op 'nps': independent Lean NumPy spec vs real NumPy; op 'ps': predict_shape model vs real."""
    shp = ','.join(map(str, shape)) if shape else '-'
    if op == 'nps':
        line = f'C06 nps {order} {shp} {fmt_idx(idx)}'
    else:
        line = f'C06 ps {shp} {fmt_idx(idx)}'
    data = {'op': op, 'shape': list(shape), 'idx': [item_to_data(i) for i in idx], 'order': order}
    return Case(line, data, (op, tuple(shape), fmt_idx(idx), order), op)


def mk_pyop_case(op, args):
    """`pyop` stream: one operator of Basic/PyVal.lean against CPython (semantics of the translated fragment)."""
    if op == 'strin':
        line = 'C06 strin ' + ' '.join(a if a else '-' for a in args)
    else:
        line = f'C06 pyop {op} ' + ' '.join(py2lean.arg_v(a) for a in args)

    def enc(a):
        if a is Ellipsis:
            return 'ellipsis'
        if isinstance(a, slice):
            return item_to_data(a)
        if isinstance(a, (list, tuple)):
            return {'seq': [enc(x) for x in a]}
        return a
    return Case(line, {'op': 'pyop', 'fn': op, 'args': [enc(a) for a in args]}, ('pyop', line), 'pyop')


def run_pyop(op, a):
    import math
    from fractions import Fraction
    f = {
        'neg': lambda x: -x, 'abs': abs, 'int': int, 'len': len, 'reversed': lambda x: x[::-1],
        'enumerate': lambda x: [(i, v) for i, v in enumerate(x)], 'truthy': bool, 'list': list,
        'add': lambda x, y: x + y, 'sub': lambda x, y: x - y, 'mul': lambda x, y: x * y,
        'floordiv': lambda x, y: x // y, 'mod': lambda x, y: x % y,
        'ceildiv': lambda x, y: int(np.ceil(x / y)), 'truncdiv': lambda x, y: int(x / y),
        'divisible': lambda x, y: int(x / y) == x / y,
        'lt': lambda x, y: x < y, 'le': lambda x, y: x <= y, 'eq': lambda x, y: x == y, 'min': min, 'max': max,
        'getitem': lambda x, i: x[i], 'dropfrom': lambda x, k: x[k:],
        'append': lambda x, v: list(x) + [v], 'extend': lambda x, y: list(x) + list(y),
        'contains': lambda x, v: v in x, 'indices': lambda s, n: s.indices(n),
        'setitem': lambda x, i, v: (lambda l: (l.__setitem__(i, v), l)[1])(list(x)),
        'range': lambda a_, b_, c_: list(range(a_, b_, c_)),
        'strin': lambda x, y: x in y,
    }[op]
    return f(*a)


def _gen_dec(a):
    if a == 'ellipsis':
        return Ellipsis
    if isinstance(a, list):
        return slice(*a)
    if isinstance(a, dict):
        return tuple(_gen_dec(x) for x in a['seq'])
    return a


def mk_gen_case(fn, args, heur=None):
    """`gen` stream: the function translated from the source (run by the driver) vs the real function.
    args: ints / None / bools / slices."""
    toks = [py2lean.arg_v(a) for a in args] + ([heur] if heur is not None else [])
    line = f'C06 gen {fn} ' + ' '.join(toks)
    def enc(a):
        if a is Ellipsis:
            return 'ellipsis'
        if isinstance(a, slice):
            return item_to_data(a)
        if isinstance(a, (list, tuple)):
            return {'seq': [enc(x) for x in a]}
        return a
    data = {'op': 'gen', 'fn': fn, 'args': [enc(a) for a in args], 'heur': heur}
    return Case(line, data, ('gen', fn, tuple(toks)), 'gen')


def case_from_data(d):
    if d['op'] == 'pyop':
        return mk_pyop_case(d['fn'], [_gen_dec(a) for a in d['args']])
    if d['op'] == 'gen':
        return mk_gen_case(d['fn'], [_gen_dec(a) for a in d['args']], d.get('heur'))
    if d['op'] in ('nps', 'ps'):
        return mk_np_case(d['op'], tuple(d['shape']), tuple(item_from_data(i) for i in d['idx']), d['order'])
    if d['op'] == 'fs':
        return mk_case(tuple(d['shape']), tuple(item_from_data(i) for i in d['idx']), d['order'], d['isz'],
                       d['off'], d['heur'], flen=d.get('flen'), stream=d.get('stream', 'main'))
    if d['op'] in ('fill', 'spec'):
        return mk_slice_case(d['op'], d['n'], d['s'])
    if d['op'] == 'hist':
        return hist_from_data(d)
    raise ValueError(d)


def mk_slice_case(op, n, s):
    line = f'C06 {op} {n} ' + ' '.join(_fmt_o(v) for v in s)
    return Case(line, {'op': op, 'n': n, 's': list(s)}, (op, n, tuple(s)), op)


# ------------------------------------------------------------------ implementation side

class TraceFile(io.BytesIO):
    def __init__(self, b):
        super().__init__(b)
        self.trace = []
        self._pos = None

    def seek(self, o, w=0):
        self._pos = o
        return super().seek(o, w)

    def read(self, n=-1):
        self.trace.append((self.tell(), n))     # where the bytes really come from (seek or no seek before)
        return super().read(n)


def heuristic_of(name):
    from nibabel import fileslice as fs
    if name == 'full':
        return lambda s, d, st: 'full'
    if name == 'contig':
        return lambda s, d, st: None if isinstance(s, int) else 'contiguous'
    if name == 'skip':
        return lambda s, d, st: None
    if name.startswith('thr:'):
        k = int(name[4:])
        return lambda s, d, st: fs.threshold_heuristic(s, d, st, skip_thresh=k)
    raise ValueError(name)


def make_store(shape, isz, off, flen, base=0):
    n = int(np.prod(shape, dtype=object)) if len(shape) else 1
    body = b''.join(int((q + base) % (256 ** isz)).to_bytes(isz, 'little') for q in range(n))
    buf = bytes((37 * i + 11) % 251 for i in range(off)) + body
    buf = buf + bytes((91 * i + 7) % 253 for i in range(max(0, flen - len(buf))))
    return buf[:flen] if flen < len(buf) else buf


def dtype_of(isz):
    return {1: np.dtype('u1'), 2: np.dtype('<u2'), 8: np.dtype('<u8')}.get(isz, np.dtype(f'V{isz}'))


def elems(arr, isz, order):
    flat = np.asarray(arr).ravel(order=order)
    if flat.dtype.kind == 'V':
        return [int.from_bytes(x.tobytes(), 'little') for x in flat]
    return [int(x) for x in flat]


def impl(case):
    d = case.data
    from nibabel import fileslice as fs
    if d['op'] == 'hist':
        return run_history(d, case)
    if d['op'] == 'spec':
        n, s = d['n'], slice(*d['s'])
        a, b, c = s.indices(n)
        return f'{list(range(n))[s]} {a} {b} {c}'.replace(' ', '', 0).replace(', ', ',')
    if d['op'] == 'fill':
        n, s = d['n'], slice(*d['s'])
        try:
            f = fs.fill_slicer(s, n)
            p = fs._positive_slice(f)
            return f'{list(range(n))[f]} {fs.slice2len(s, n)} {list(range(n))[p]}'.replace(', ', ',')
        except Exception as e:
            return errname(e)
    if d['op'] == 'pyop':
        args = [_gen_dec(a) for a in d['args']]
        try:
            return py2lean.show_v(run_pyop(d['fn'], args))
        except Exception as e:
            return py2lean.show_exc(e)
    if d['op'] == 'gen':
        args = [_gen_dec(a) for a in d['args']]
        pyname = {ln: py for py, ln in GEN_FUNCS}[d['fn']]
        try:
            if d['fn'] == 'optimize_read_slicers':
                h = fs.threshold_heuristic if d['heur'] == 'src' else heuristic_of(d['heur'])
                return py2lean.show_v(fs.optimize_read_slicers(*args, h))
            if d['fn'] == 'slicers2segments':
                return py2lean.show_v(fs.slicers2segments(*args))
            if d['fn'] == 'calc_slicedefs':
                h = fs.threshold_heuristic if d['heur'] == 'src' else heuristic_of(d['heur'])
                return py2lean.show_v(fs.calc_slicedefs(*args, h))
            if d['fn'] == 'optimize_slicer':
                h = fs.threshold_heuristic if d['heur'] == 'src' else heuristic_of(d['heur'])
                return py2lean.show_v(fs.optimize_slicer(*args, heuristic=h))
            return py2lean.show_v(getattr(fs, pyname)(*args))
        except Exception as e:
            return py2lean.show_exc(e)
    if d['op'] == 'nps':     # real NumPy basic indexing (reference for the independent Lean spec)
        shape, idx, order = tuple(d['shape']), tuple(item_from_data(i) for i in d['idx']), d['order']
        n = int(np.prod(shape, dtype=object)) if len(shape) else 1
        full = np.arange(n, dtype=np.int64).reshape(shape, order=order)
        try:
            res = np.asarray(full[idx])
        except IndexError:
            return 'ERR'
        return f'ok {list(res.shape)} {[int(x) for x in res.ravel(order=order)]}'.replace(', ', ',')
    if d['op'] == 'ps':      # real predict_shape
        shape, idx = tuple(d['shape']), tuple(item_from_data(i) for i in d['idx'])
        try:
            return f'ok {list(fs.predict_shape(idx, shape))}'.replace(', ', ',')
        except (IndexError, ValueError):
            return 'ERR'
    shape, idx = tuple(d['shape']), tuple(item_from_data(i) for i in d['idx'])
    isz, off, order = d['isz'], d['off'], d['order']
    f = TraceFile(make_store(shape, isz, off, d['flen']))
    case.extra = {'trace': f.trace}
    h = heuristic_of(d['heur'])
    orig = fs.calc_slicedefs

    def patched(sliceobj, in_shape, itemsize, offset, order_, heuristic=None):
        return orig(sliceobj, in_shape, itemsize, offset, order_, heuristic=h)
    fs.calc_slicedefs = patched
    try:
        try:
            res = fs.fileslice(f, idx, shape, dtype_of(isz), off, order)
        finally:
            fs.calc_slicedefs = orig
    except (IndexError, ValueError):
        tr = f.trace
        return 'ERR' + (' [' + ','.join(f'{o}:{n}' for o, n in tr) + ']' if tr else '')
    except Exception as e:
        return errname(e)
    case.extra['res'] = res
    segs = ','.join(f'{o}:{n}' for o, n in f.trace)
    return f'ok {list(res.shape)} {elems(res, isz, order)} [{segs}]'.replace(', ', ',')


def oracle(case, out):
    d = case.data
    from nibabel import fileslice as fs
    if d['op'] == 'hist':
        return hist_oracle(case, out)
    if d['op'] == 'spec':
        return None
    if d['op'] == 'fill':
        n, s = d['n'], slice(*d['s'])
        want = list(range(n))[s]
        exp = f'{want} {len(want)} {sorted(want)}'.replace(', ', ',')
        if out != exp:
            return f'helper prediction differs from Python/NumPy: fill_slicer/slice2len/_positive_slice on n={n} {s}: got {out} want {exp}'
        return None
    if d['op'] in ('gen', 'pyop'):
        return None          # translator / PyVal validation only (a difference is a broken correspondence)
    if d['op'] == 'nps':
        return None          # spec validation only (reported as a broken correspondence of the spec)
    if d['op'] == 'ps':      # property: predict_shape == shape of NumPy indexing, error iff NumPy errors
        shape, idx = tuple(d['shape']), tuple(item_from_data(i) for i in d['idx'])
        try:
            want = 'ok ' + str(list(np.empty(shape, dtype=np.uint8)[idx].shape)).replace(', ', ',')
        except IndexError:
            want = 'ERR'
        if out != want:
            return f'predict_shape {out} != numpy {want} for shape={shape} idx={idx}'
        return None
    shape, idx = tuple(d['shape']), tuple(item_from_data(i) for i in d['idx'])
    isz, off, order = d['isz'], d['off'], d['order']
    n = int(np.prod(shape, dtype=object)) if len(shape) else 1
    full = np.arange(n, dtype=object).reshape(shape, order=order)
    try:
        want = full[idx]
    except IndexError:
        want = None
    if want is None:
        if not out.startswith('ERR'):
            return f'NumPy raises IndexError for {idx} on {shape} but fileslice returned {out[:120]}'
        return None
    if out.startswith('ERR'):
        if d['flen'] < off + n * isz:
            return None  # short file: refusing is right
        return f'fileslice raised ({out[:60]}) where NumPy indexing succeeds: shape={shape} idx={idx} order={order} heur={d["heur"]}'
    want = np.asarray(want, dtype=object)
    exp = f'ok {list(want.shape)} {[int(x) % (256 ** isz) for x in want.ravel(order=order)]}'.replace(', ', ',')
    if not out.startswith(exp + ' ['):
        return f'fileslice != numpy: shape={shape} idx={idx} order={order} isz={isz} heur={d["heur"]}: got {out[:160]} want {exp[:160]}'
    for o, ln in (case.extra or {}).get('trace', []):
        if ln > 0 and (o < off or o + ln > off + n * isz):
            return f'read outside the array extent: seek {o} read {ln}, extent [{off},{off + n * isz}) shape={shape} idx={idx} heur={d["heur"]}'
    try:
        ps = tuple(fs.predict_shape(idx, shape))
    except Exception as e:
        ps = errname(e)
    if ps != tuple(want.shape):
        return f'predict_shape {ps} != numpy shape {tuple(want.shape)} for shape={shape} idx={idx}'
    return None


def signature(case, what):
    d = case.data
    if d['op'] == 'ps' and _ellipsis_overflow(d['shape'], [item_from_data(i) for i in d['idx']]):
        return 'predict_shape:ellipsis-too-many-indices'
    if d['op'] == 'hist':
        if 'at the end of the history' in what or 'changed after' in what:
            return 'fileslice-history:result-changed-later'
        if 'not independent' in what:
            return 'fileslice-history:results-share-memory'
        return 'fileslice-history:' + ('outside-extent' if 'outside' in what else 'result')
    if d['op'] in ('nps', 'ps', 'gen', 'pyop'):
        return 'npspec:' + d['op']
    if d['op'] != 'fs':
        return 'helpers:' + d['op']
    kinds = []
    for it, n in zip(d['idx'], d['shape']):
        if isinstance(it, list):
            a, b, c = it
            if (a is not None and (a < -n or a > n)) or (b is not None and (b < -n or b > n)):
                kinds.append('slice-out-of-range')
            elif c is not None and c < 0:
                kinds.append('slice-negstep')
        elif isinstance(it, int) and (it < -n or it >= n):
            kinds.append('int-out-of-range')
    return 'fileslice:' + ('+'.join(sorted(set(kinds))) or 'in-range')


def shrink_candidates(case):
    d = case.data
    if d['op'] == 'hist':
        files = [dict(F, shape=tuple(F['shape'])) for F in d['files']]
        steps = [{'f': S['f'], 'via': S['via'], 'heur': S['heur'],
                  'idx': tuple(item_from_data(i) for i in S['idx'])} for S in d['steps']]
        for i in range(len(steps)):
            if len(steps) > 1:
                yield mk_hist_case(files, steps[:i] + steps[i + 1:], d.get('stream', 'hist'))
        used = sorted({S['f'] for S in steps})
        if len(used) < len(files):          # drop files no read refers to
            ren = {j: i for i, j in enumerate(used)}
            yield mk_hist_case([files[j] for j in used], [dict(S, f=ren[S['f']]) for S in steps],
                               d.get('stream', 'hist'))
        for i, S in enumerate(steps):
            if S['via'] not in ('fs', 'pxarr', 'pxun'):
                yield mk_hist_case(files, steps[:i] + [dict(S, via='fs')] + steps[i + 1:], d.get('stream', 'hist'))
        for j, F in enumerate(files):
            if F['kind'] != 'bio':
                yield mk_hist_case(files[:j] + [dict(F, kind='bio')] + files[j + 1:], steps, d.get('stream', 'hist'))
        return
    if d['op'] != 'fs':
        return
    shape, idx = list(d['shape']), [item_from_data(i) for i in d['idx']]
    if any(i is Ellipsis or i is None for i in idx) or len(idx) != len(shape):
        return
    for ax in range(len(shape)):
        if len(shape) > 1 and (idx[ax] == slice(None) or isinstance(idx[ax], int)):
            yield mk_case(shape[:ax] + shape[ax + 1:], idx[:ax] + idx[ax + 1:], d['order'], d['isz'], d['off'], d['heur'])
    for ax in range(len(shape)):
        if shape[ax] > 1:
            s2 = list(shape)
            s2[ax] -= 1
            yield mk_case(s2, idx, d['order'], d['isz'], d['off'], d['heur'])
    if d['isz'] != 1:
        yield mk_case(shape, idx, d['order'], 1, d['off'], d['heur'])
    if d['off'] != 0:
        yield mk_case(shape, idx, d['order'], d['isz'], 0, d['heur'])


# ------------------------------------------------------------------ histories of reads (`hist` stream)
#
# k >= 2 reads in ONE process/thread through fileslice / read_segments / ArrayProxy (several files, several
# heuristics, single- and multi-segment reads mixed); every result is RETAINED and all are compared with NumPy
# indexing at the END of the history - after further unrelated reads, after the file objects are closed and the
# proxies dropped - as well as right after the read that produced them.  A result must never change afterwards
# and writing into one (writable) result must not show through any other.

HIST_VIAS = ('fs', 'fsl', 'rs', 'px', 'pxarr', 'pxun')


def mk_hist_case(files, steps, stream='hist'):
    steps = [dict(S, idx=()) if S['via'] in ('pxarr', 'pxun') else S for S in steps]
    toks = [str(len(files))]
    for F in files:
        shp = ','.join(map(str, F['shape'])) if F['shape'] else '-'
        toks += [F['order'], str(F['isz']), str(F['off']), str(F['flen']), str(F.get('base', 0)), shp]
    for S in steps:
        toks += [str(S['f']), S['heur'], fmt_idx(S['idx'])]
    line = 'C06 hist ' + ' '.join(toks)
    data = {'op': 'hist', 'stream': stream,
            'files': [dict(F, shape=list(F['shape'])) for F in files],
            'steps': [{'f': S['f'], 'via': S['via'], 'heur': S['heur'],
                       'idx': [item_to_data(i) for i in S['idx']]} for S in steps]}
    key = ('hist', line, tuple(S['via'] for S in steps), tuple((F['kind'], str(F.get('mmap')), str(F.get('kfo')))
                                                                   for F in files))
    return Case(line, data, key, stream)


def hist_from_data(d):
    files = [dict(F, shape=tuple(F['shape'])) for F in d['files']]
    steps = [{'f': S['f'], 'via': S['via'], 'heur': S['heur'],
              'idx': tuple(item_from_data(i) for i in S['idx'])} for S in d['steps']]
    return mk_hist_case(files, steps, d.get('stream', 'hist'))


def _res_line(res, isz, order):
    res = np.asarray(res)
    return f'ok {list(res.shape)} {elems(res, isz, order)}'.replace(', ', ',')


def _realise(kept, dt, order):
    """the ndarray a retained read stands for (`rs` steps keep the raw buffer read_segments returned)"""
    if kept[0] == 'arr':
        return kept[1]
    _, buf, sliced_shape, post = kept
    return np.ndarray(sliced_shape, dt, buffer=buf, order=order)[post]


def run_history(d, case=None):
    import shutil
    import tempfile
    import threading
    from nibabel import fileslice as fs
    from nibabel.arrayproxy import ArrayProxy
    files, steps = d['files'], d['steps']
    tmpdir = None
    fobjs, proxies, stores = [], {}, []
    for j, F in enumerate(files):
        store = make_store(tuple(F['shape']), F['isz'], F['off'], F['flen'], F.get('base', 0))
        stores.append(store)
        if F['kind'] == 'tmp':
            if tmpdir is None:
                tmpdir = tempfile.mkdtemp(prefix='c06hist')
            path = os.path.join(tmpdir, f'f{j}.dat')
            with open(path, 'wb') as fh:
                fh.write(store)
            fobjs.append(open(path, 'rb'))
        else:
            fobjs.append(TraceFile(store))

    def proxy_of(j):
        if j not in proxies:
            F = files[j]
            spec = (tuple(F['shape']), dtype_of(F['isz']), F['off'])
            if F['kind'] == 'tmp':
                proxies[j] = ArrayProxy(fobjs[j].name, spec, order=F['order'], mmap=F.get('mmap', False),
                                        keep_file_open=F.get('kfo', False))
            else:
                proxies[j] = ArrayProxy(fobjs[j], spec, order=F['order'])
        return proxies[j]

    orig = fs.calc_slicedefs
    kept, imm, hashes, traces = [], [], [], []
    tail_error = None
    try:
        for S in steps:
            j = S['f']
            F = files[j]
            shape, isz, off, order = tuple(F['shape']), F['isz'], F['off'], F['order']
            idx = tuple(item_from_data(i) for i in S['idx'])
            dt = dtype_of(isz)
            fobj = fobjs[j]
            t0 = len(fobj.trace) if isinstance(fobj, TraceFile) else 0
            h = None if S['heur'] == 'dflt' else heuristic_of(S['heur'])
            if h is not None:
                def patched(sliceobj, in_shape, itemsize, offset, order_, heuristic=None, _h=h):
                    return orig(sliceobj, in_shape, itemsize, offset, order_, heuristic=_h)
                fs.calc_slicedefs = patched
            try:
                via = S['via']
                if via == 'fs':
                    k = ('arr', fs.fileslice(fobj, idx, shape, dt, off, order))
                elif via == 'fsl':
                    k = ('arr', fs.fileslice(fobj, idx, shape, dt, off, order, lock=threading.RLock()))
                elif via == 'rs':
                    if fs.is_fancy(idx):
                        raise ValueError('fancy')
                    segs, sshape, post = fs.calc_slicedefs(idx, shape, isz, off, order)
                    nb = isz
                    for x in sshape:
                        nb *= x
                    k = ('buf', fs.read_segments(fobj, segs, nb), sshape, post)
                elif via == 'px':
                    k = ('arr', proxy_of(j)[idx])
                elif via == 'pxarr':
                    k = ('arr', np.asarray(proxy_of(j)))
                elif via == 'pxun':
                    k = ('arr', proxy_of(j).get_unscaled())
                else:
                    raise KeyError(via)
                line = _res_line(_realise(k, dt, order), isz, order)
            except (IndexError, ValueError, OSError):
                k, line = None, 'ERR'
            except Exception as e:          # noqa: BLE001 - an escaping exception is an observable
                k, line = None, errname(e)
            finally:
                fs.calc_slicedefs = orig
            kept.append(k)
            imm.append(line)
            hashes.append(None if k is None else np.asarray(_realise(k, dt, order)).tobytes())
            if isinstance(fobj, TraceFile):
                traces.append((j, list(fobj.trace[t0:])))
        # ---- further, unrelated reads (multi-segment and single-segment), results dropped
        other = np.arange(42, dtype='<u2').reshape(6, 7)
        ofile = io.BytesIO(b'xyz' + other.tobytes(order='F'))

        def skipping(sliceobj, in_shape, itemsize, offset, order_, heuristic=None):
            return orig(sliceobj, in_shape, itemsize, offset, order_, heuristic=lambda s, n, st: None)
        try:
            for patch in (skipping, orig):
                fs.calc_slicedefs = patch
                for oidx in ((slice(1, None), slice(None, None, 2)), (3,), (Ellipsis, 2)):
                    got = fs.fileslice(ofile, oidx, (6, 7), other.dtype, 3, 'F')
                    if not np.array_equal(got, other[oidx]):
                        tail_error = f'a further read ({oidx}) after the history returned wrong values'
                for j, F in enumerate(files):
                    shape = tuple(F['shape'])
                    if len(shape) and F['flen'] >= F['off'] + F['isz'] * int(np.prod(shape, dtype=object)):
                        fs.fileslice(fobjs[j], (slice(None, None, 2),), shape, dtype_of(F['isz']), F['off'], F['order'])
        except Exception as e:      # noqa: BLE001
            tail_error = f'a further read after the history raised {type(e).__name__}: {e}'
    finally:
        fs.calc_slicedefs = orig
        # ---- the files go away: close every file object, drop the proxies, delete the files
        proxies.clear()
        for f in fobjs:
            try:
                f.close()
            except Exception:       # noqa: BLE001
                pass
        if tmpdir is not None:
            shutil.rmtree(tmpdir, ignore_errors=True)
    # ---- all results realised again NOW
    final, changed = [], []
    arrs = []
    for i, (S, k) in enumerate(zip(steps, kept)):
        F = files[S['f']]
        if k is None:
            final.append(imm[i])
            arrs.append(None)
            continue
        a = _realise(k, dtype_of(F['isz']), F['order'])
        arrs.append(np.asarray(a))
        final.append(_res_line(a, F['isz'], F['order']))
        if np.asarray(a).tobytes() != hashes[i]:
            changed.append(i)
    # ---- independence: writing into one writable result shows through no other result
    cross = []
    for i, a in enumerate(arrs):
        if a is None or a.size == 0 or not a.flags.writeable:
            continue
        saved = a.copy()
        try:
            if a.dtype.kind == 'V':
                a[...] = np.frombuffer(b'\xa5' * a.dtype.itemsize, dtype=a.dtype)[0]
            else:
                a[...] = ~saved
        except Exception as e:       # noqa: BLE001
            cross.append(f'result {i} claims to be writable but writing raised {type(e).__name__}')
            continue
        for j2, b in enumerate(arrs):
            if j2 != i and b is not None:
                F2 = files[steps[j2]['f']]
                if _res_line(b, F2['isz'], F2['order']) != final[j2]:
                    cross.append(f'writing into result {i} changed result {j2}')
        a[...] = saved
    if case is not None:
        case.extra = {'imm': imm, 'changed': changed, 'cross': cross, 'traces': traces, 'tail_error': tail_error}
    return ' | '.join(final)


def hist_oracle(case, out):
    d = case.data
    files, steps = d['files'], d['steps']
    ex = case.extra or {}
    finals = out.split(' | ')
    if len(finals) != len(steps):
        return f'history of {len(steps)} reads produced {out[:120]}'
    imm = ex.get('imm', finals)
    for i, S in enumerate(steps):
        F = files[S['f']]
        shape, isz, off, order = tuple(F['shape']), F['isz'], F['off'], F['order']
        idx = tuple(item_from_data(x) for x in S['idx']) if S['via'] not in ('pxarr', 'pxun') else ()
        n = int(np.prod(shape, dtype=object)) if len(shape) else 1
        full = np.arange(n, dtype=object).reshape(shape, order=order)
        desc = f'read #{i} ({S["via"]} heur={S["heur"]}) file#{S["f"]} shape={shape} idx={idx} order={order} isz={isz}'
        try:
            want = np.asarray(full[idx], dtype=object)
        except IndexError:
            want = None
        for when, got in (('right after the read', imm[i]), ('at the end of the history (after the later reads)', finals[i])):
            if want is None:
                if not got.startswith('ERR'):
                    return f'NumPy raises IndexError but {desc} returned {got[:100]}'
                continue
            if got.startswith('ERR'):
                if F['flen'] < off + n * isz:
                    continue
                return f'{desc} raised ({got[:40]}) where NumPy indexing succeeds'
            base = F.get('base', 0)      # file contents: element q holds the number q + base
            exp = f'ok {list(want.shape)} {[(int(x) + base) % (256 ** isz) for x in want.ravel(order=order)]}'.replace(', ', ',')
            if got != exp:
                return f'{desc}: result != NumPy indexing {when}: got {got[:140]} want {exp[:140]}'
    if ex.get('tail_error'):
        return ex['tail_error'] + ' (valid read of a long enough file)'
    if ex.get('changed'):
        return f'results {ex["changed"]} changed after the read that produced them'
    if ex.get('cross'):
        return 'results are not independent: ' + '; '.join(ex['cross'][:3])
    for j, tr in ex.get('traces', []):
        F = files[j]
        n = int(np.prod(tuple(F['shape']), dtype=object)) if len(F['shape']) else 1
        for o, ln in tr:
            if ln > 0 and (o < F['off'] or o + ln > F['off'] + n * F['isz']):
                return f'read outside the array extent: seek {o} read {ln}, extent [{F["off"]},{F["off"] + n * F["isz"]}) file#{j}'
    return None


# ------------------------------------------------------------------ generators

def bounds(n, pad=2):
    return [None] + list(range(-n - pad, n + pad + 1))


STEPS = [None, 1, 2, 3, -1, -2, -3]


def rand_item(rng, n, allow_bad_int=False):
    r = rng.random()
    if r < 0.3 and n > 0:
        return rng.randrange(-n, n)
    if r < 0.33:
        return rng.randrange(-n - 2, n + 2) if allow_bad_int else (rng.randrange(-n, n) if n else slice(None))
    if r < 0.45:
        return slice(None)
    return slice(rng.choice(bounds(n)), rng.choice(bounds(n)), rng.choice(STEPS))


def rand_index(rng, shape, bad_int=False):
    nd = len(shape)
    use_ell = rng.random() < 0.25
    if use_ell:
        k = rng.randrange(0, nd + 1)      # number of explicit real items
        before = rng.randrange(0, k + 1)
        axes = list(range(before)) + list(range(nd - (k - before), nd))
        items = [rand_item(rng, shape[a], bad_int) for a in axes]
        items = items[:before] + [Ellipsis] + items[before:]
    else:
        k = rng.randrange(0, nd + 1) if rng.random() < 0.3 else nd
        items = [rand_item(rng, shape[a], bad_int) for a in range(k)]
    for _ in range(rng.choice([0, 0, 0, 1, 2])):
        items.insert(rng.randrange(0, len(items) + 1), None)
    return tuple(items)


def rand_heur(rng, shape, isz):
    r = rng.random()
    if r < 0.2:
        return 'full'
    if r < 0.4:
        return 'contig'
    if r < 0.55:
        return 'skip'
    # threshold swept across the strides of this array
    strides = [isz]
    for n in shape:
        strides.append(strides[-1] * max(n, 1))
    k = rng.choice(strides) * rng.choice([1, 1, 2, 3]) + rng.choice([-1, 0, 0, 1])
    return 'thr:%d' % max(k, 0) if rng.random() < 0.85 else 'thr:256'


def dense_index(rng, shape):
    """an index under which most axes keep several elements (few empty / degenerate results)"""
    items = []
    for n in shape:
        r = rng.random()
        if r < 0.35 and n > 0:
            items.append(rng.randrange(-n, n))
        elif r < 0.55:
            items.append(slice(None))
        else:
            a = rng.randrange(0, max(1, (n + 1) // 2))
            b = rng.choice([None, None, rng.randrange(min(a + 1, n), n + 1) if n else None])
            st = rng.choice([1, 1, 2, 3, -1, -2])
            items.append(slice(a, b, st) if st > 0 else slice(b if b is None else b - 1, a - 1 if a > 0 else None, st))
    k = rng.randrange(0, len(items) + 1) if rng.random() < 0.25 else len(items)
    items = items[:k]
    if rng.random() < 0.2:
        drop = rng.randrange(0, len(items) + 1)         # an Ellipsis instead of a run of leading/trailing items
        items = ([Ellipsis] + items[len(items) - drop:]) if rng.random() < 0.5 and k == len(shape) else \
            (items[:drop] + [Ellipsis])
    for _ in range(rng.choice([0, 0, 0, 1])):
        items.insert(rng.randrange(0, len(items) + 1), None)
    return tuple(items)


def rand_hist_file(rng, profile):
    if profile == 'small':
        nd = rng.choice([1, 2, 2, 3, 3, 4])
        shape = tuple(rng.choice([2, 3, 4, 5]) if rng.random() < 0.88 else rng.choice([0, 1, 7, 16]) for _ in range(nd))
        isz = rng.choice([1, 2, 3, 8, 16])
    elif profile == 'medium':       # strides straddle the shipped SKIP_THRESH: default heuristic mixes full/skip
        nd = rng.choice([2, 3, 3])
        shape = (rng.choice([8, 12, 14, 20, 33]),) + tuple(rng.choice([3, 5, 8]) for _ in range(nd - 1))
        while int(np.prod(shape)) > 900:
            shape = shape[:-1]
        isz = rng.choice([2, 8, 8, 16])
    else:                           # 'big': reads of more than 64 KiB assembled from several segments
        shape = (rng.choice([519, 530, 600]), rng.choice([9, 10]))
        isz = 16
    order = rng.choice('CF')
    if profile == 'big':
        order = 'F'
    if order == 'C':
        shape = shape[::-1]         # the dimensions above are listed fastest axis first
    off = rng.choice([0, 1, 7, 352])
    n = int(np.prod(shape, dtype=object)) * isz
    extra = rng.choice([0, 0, 3, 17])
    if profile != 'big' and n > 1 and rng.random() < 0.04:
        extra = -rng.randrange(1, n)                 # short file: some reads must refuse, the others still work
    F = {'shape': shape, 'order': order, 'isz': isz, 'off': off, 'flen': max(0, off + n + extra), 'kind': 'bio',
         'base': rng.choice([0, 0, 1, 100, 257, 70001])}     # files of one geometry differ in contents
    if rng.random() < 0.15:
        F.update(kind='tmp', mmap=rng.choice([False, False, True, 'c', 'r']), kfo=rng.choice([False, True]))
    return F


def rand_hist(rng, profile):
    files = [rand_hist_file(rng, profile) for _ in range(rng.choice([1, 1, 2, 3]) if profile != 'big' else 1)]
    if profile == 'big':
        files.append(rand_hist_file(rng, 'medium'))
    if rng.random() < 0.3:              # a sibling: same geometry (same planned segments), other contents / other kind
        sib = dict(files[0], base=files[0]['base'] + rng.choice([1, 5, 300]))
        if rng.random() < 0.3:
            sib.update(rand_hist_file(rng, profile), shape=sib['shape'], order=sib['order'], isz=sib['isz'],
                       off=sib['off'], flen=sib['flen'], base=sib['base'])
        files.append(sib)
    k = rng.choice([2, 2, 3, 3, 4, 5, 6])
    common_heur = rng.random() < 0.5
    many_segs = rng.random() < 0.5          # heuristics under which nearly every partial read has several segments
    steps = []
    for _ in range(k):
        j = rng.randrange(len(files))
        if steps and rng.random() < 0.35:
            j = steps[-1]['f']                            # consecutive reads of the same file / proxy
        F = files[j]
        shape = F['shape']
        via = rng.choice(['fs', 'fs', 'fs', 'fsl', 'rs', 'rs', 'px', 'px', 'px', 'pxarr', 'pxun'])
        if steps and files[steps[-1]['f']]['shape'] == shape and rng.random() < 0.3:
            idx = steps[-1]['idx']                        # the same read twice (of this file or of its sibling)
        else:
            idx = rand_index(rng, shape, bad_int=rng.random() < 0.04) if rng.random() < 0.35 else \
                dense_index(rng, shape)
        if profile == 'small':
            heur = rand_heur(rng, shape, F['isz']) if not many_segs else rng.choice(['skip', 'skip', 'contig', 'thr:0'])
        elif profile == 'medium':
            heur = rng.choice(['dflt', 'dflt', 'dflt', 'skip', 'contig', rand_heur(rng, shape, F['isz'])])
        else:
            heur = rng.choice(['skip', 'contig', 'dflt'])
            if j == 0 and rng.random() < 0.7:             # most of a big array, in column pieces
                idx = (slice(rng.choice([1, 2]), None), slice(rng.choice([0, 1]), None))
                heur = 'skip'
        if common_heur and steps:
            heur = steps[0]['heur'] if not steps[0]['heur'].startswith('thr:') or steps[0]['f'] == j else heur
        steps.append({'f': j, 'via': via, 'heur': heur, 'idx': idx})
    return mk_hist_case(files, steps)


def hist_cases(rng, tier):
    out = []
    nsmall, nmed, nbig = {'quick': (700, 260, 3), 'thorough': (9000, 3000, 12), 'search': (1500, 500, 3)}[tier]
    for _ in range(nsmall):
        out.append(rand_hist(rng, 'small'))
    for _ in range(nmed):
        out.append(rand_hist(rng, 'medium'))
    for _ in range(nbig):
        out.append(rand_hist(rng, 'big'))
    return out


def cases(rng, tier):
    out = []
    # ---- PySlice spec validation + helper predictions (exhaustive small)
    nmax = 5 if tier != 'thorough' else 6
    for n in range(0, nmax + 1):
        for a in bounds(n, 3):
            for b in bounds(n, 3):
                for c in STEPS:
                    out.append(mk_slice_case('spec', n, (a, b, c)))
                    out.append(mk_slice_case('fill', n, (a, b, c)))
    # ---- `pyop`: the operators of Basic/PyVal.lean against CPython (exhaustive small integers, small lists)
    ints = list(range(-7, 8))
    for x in ints:
        for op in ('neg', 'abs', 'int', 'truthy'):
            out.append(mk_pyop_case(op, [x]))
        for y in ints:
            for op in ('add', 'sub', 'mul', 'floordiv', 'mod', 'ceildiv', 'truncdiv', 'divisible', 'lt', 'le', 'eq',
                       'min', 'max'):
                out.append(mk_pyop_case(op, [x, y]))
    for _ in range(600):
        x, y = rng.randrange(-10 ** 6, 10 ** 6), rng.choice([1, -1]) * rng.randrange(1, 5000)
        for op in ('floordiv', 'mod', 'ceildiv', 'truncdiv', 'divisible'):
            out.append(mk_pyop_case(op, [x, y]))
    lists = [(), (1,), (1, 2), (3, None, 5), (0, 1, 2, 3), (None, Ellipsis, slice(1, None, 2), 4)]
    for l in lists:
        for op in ('len', 'reversed', 'enumerate', 'truthy', 'list'):
            out.append(mk_pyop_case(op, [l]))
        for i in range(-6, 7):
            out.append(mk_pyop_case('getitem', [l, i]))
            out.append(mk_pyop_case('setitem', [l, i, 9]))
            if i >= 0:
                out.append(mk_pyop_case('dropfrom', [l, i]))
        for v in (1, None, Ellipsis, 7, slice(1, None, 2)):
            out.append(mk_pyop_case('contains', [l, v]))
            out.append(mk_pyop_case('append', [l, v]))
        for m in lists[:4]:
            out.append(mk_pyop_case('extend', [l, m]))
            out.append(mk_pyop_case('eq', [l, m]))
    for n_ in range(-3, 5):
        out.append(mk_pyop_case('mul', [(slice(None),), n_]))
    for a_ in range(-4, 5):
        for b_ in range(-4, 5):
            for c_ in (-3, -2, -1, 0, 1, 2, 3):
                out.append(mk_pyop_case('range', [a_, b_, c_]))
    for s_ in ('', 'C', 'F', 'CF', 'FC', 'X', 'CFC', 'c'):
        for h_ in ('CF', '', 'C', 'abc'):
            out.append(mk_pyop_case('strin', [s_, h_]))
    # ---- `gen`: functions translated from the source vs the real functions
    for n in range(0, 5):
        for a in bounds(n):
            for b in bounds(n):
                for c in STEPS + [0]:
                    sl = slice(a, b, c)
                    out.append(mk_gen_case('fill_slicer', [sl, n]))
                    out.append(mk_gen_case('slice2len', [sl, n]))
                    if c != 0:
                        for heur in ('full', 'contig', 'skip', 'src'):
                            out.append(mk_gen_case('optimize_slicer', [sl, n, True, rng.random() < 0.5, 2], heur))
                    if rng.random() < 0.3:
                        out.append(mk_gen_case('optimize_slicer',
                                               [sl, n, rng.random() < 0.5, rng.random() < 0.5, rng.choice([1, 2, 8, 100])],
                                               rng.choice(['full', 'contig', 'skip', 'src', 'thr:0', 'thr:4', 'thr:16'])))
        for i in range(-n - 1, n + 1):
            for af in (True, False):
                for sl_ in (True, False):
                    for heur in ('full', 'contig', 'skip', 'src', 'thr:3'):
                        out.append(mk_gen_case('optimize_slicer', [i, n, af, sl_, rng.choice([1, 4, 300])], heur))
    for _ in range({'quick': 3000, 'thorough': 40000, 'search': 3000}[tier]):
        n = rng.choice([0, 1, 2, 3, 5, 8, 13, 40, 1000])
        st = rng.randrange(-2, n + 2)
        sp = rng.choice([None, rng.randrange(-2, n + 3)])
        step = rng.choice([1, 2, 3, 7, -1, -2, -3, -7, 0])
        filled = slice(st, sp, step)
        out.append(mk_gen_case('full_slicer_len', [filled]))
        out.append(mk_gen_case('positive_slice', [filled]))
        stride = rng.choice([1, 2, 8, 64, 1000])
        thr = rng.choice([0, 1, 16, 255, 256, 257, 4096])
        out.append(mk_gen_case('threshold_heuristic', [filled, n, stride, thr]))
        out.append(mk_gen_case('threshold_heuristic', [rng.randrange(0, n + 1), n, stride, thr]))
        raw = slice(rng.choice(bounds(n)), rng.choice(bounds(n)), rng.choice(STEPS))
        out.append(mk_gen_case('optimize_slicer', [raw, n, rng.random() < 0.7, rng.random() < 0.3, stride],
                               rng.choice(['full', 'contig', 'skip', 'src', 'thr:%d' % thr])))
    from nibabel import fileslice as _fs
    for _ in range({'quick': 2500, 'thorough': 30000, 'search': 2500}[tier]):
        nd = rng.choice([0, 1, 2, 2, 3, 4])
        shape = tuple(rng.choice([0, 1, 2, 3, 5, 9]) for _ in range(nd))
        idx = rand_index(rng, shape, bad_int=rng.random() < 0.15)
        r_ = rng.random()
        if r_ < 0.06:
            idx = idx + (Ellipsis,)                                  # maybe a second Ellipsis
        elif r_ < 0.12:
            idx = idx + (rand_item(rng, rng.choice([1, 3]), True),)  # maybe too many indices
        out.append(mk_gen_case('is_fancy', [idx]))
        out.append(mk_gen_case('canonical_slicers', [idx, shape, rng.random() < 0.85]))
        out.append(mk_gen_case('predict_shape', [idx, shape]))
        try:
            can = _fs.canonical_slicers(idx, shape)
        except Exception:
            continue
        if rng.random() < 0.1:                      # too many / too few real items for the shape (error paths)
            shape = shape[:-1] if shape and rng.random() < 0.5 else shape + (rng.choice([1, 4]),)
        isz = rng.choice([1, 2, 8])
        hname = rng.choice(['full', 'contig', 'skip', 'src', 'thr:%d' % rng.choice([0, 4, 16, 64])])
        out.append(mk_gen_case('optimize_read_slicers', [can, shape, isz], hname))
        out.append(mk_gen_case('calc_slicedefs', [idx, shape, isz, rng.choice([0, 7, 352]), rng.choice('CF')], hname))
        try:
            rsl, _ = _fs.optimize_read_slicers(can, shape, isz,
                                               _fs.threshold_heuristic if hname == 'src' else heuristic_of(hname))
            out.append(mk_gen_case('slicers2segments', [rsl, shape, rng.choice([0, 3, 352]), isz]))
        except Exception:
            pass
    # ---- exhaustive 1-D
    for n in range(0, 6):
        for a in bounds(n):
            for b in bounds(n):
                for c in STEPS:
                    for heur in ('full', 'contig', 'skip'):
                        for order in 'CF':
                            out.append(mk_case((n,), (slice(a, b, c),), order, 2, 6, heur, stream='1d'))
        for i in range(-n - 2, n + 2):
            for heur in ('full', 'skip', 'thr:256'):
                out.append(mk_case((n,), (i,), 'C', 2, 6, heur, stream='1d-int'))
    # ---- exhaustive 2-D over a reduced alphabet (thorough)
    if tier == 'thorough':
        alpha = lambda n: [slice(None), 0, n - 1, -1, slice(1, None), slice(None, None, -1), slice(None, None, 2),
                           slice(-n - 1, None, 2), slice(None, -n - 1, -2), slice(n, 0, -2), slice(1, n - 1, 1),
                           slice(n + 1, None, -1), slice(0, 1, -3)]
        for n0 in range(1, 5):
            for n1 in range(1, 5):
                for i0 in alpha(n0):
                    for i1 in alpha(n1):
                        for heur in ('full', 'contig', 'skip', 'thr:2', 'thr:4', 'thr:8'):
                            for order in 'CF':
                                out.append(mk_case((n0, n1), (i0, i1), order, 2, 3, heur, stream='2d'))
    # ---- random multi-axis
    nrand = {'quick': 6000, 'thorough': 120000, 'search': 30000}[tier]
    for _ in range(nrand):
        nd = rng.choice([1, 2, 2, 3, 3, 4])
        big = rng.random() < 0.05
        shape = tuple(rng.choice([0, 1, 1, 2, 3, 4, 5]) if not big else rng.choice([1, 7, 16, 33]) for _ in range(nd))
        while int(np.prod(shape)) > 2500:
            shape = shape[:-1]
        isz = rng.choice([1, 2, 3, 8, 16])
        if isz == 1 and int(np.prod(shape)) > 256:
            isz = 2
        idx = rand_index(rng, shape, bad_int=rng.random() < 0.1)
        out.append(mk_case(shape, idx, rng.choice('CF'), isz, rng.choice([0, 1, 7, 352]), rand_heur(rng, shape, isz),
                           stream='random'))
        # the same index against the independent NumPy spec and the predict_shape model
        out.append(mk_np_case('nps', shape, idx, rng.choice('CF')))
        out.append(mk_np_case('ps', shape, idx))
    # ---- malformed / edge index tuples for the NumPy spec: two ellipses, too many indices, rank 0
    for _ in range({'quick': 1500, 'thorough': 15000, 'search': 1500}[tier]):
        nd = rng.choice([0, 1, 1, 2, 2, 3])
        shape = tuple(rng.choice([0, 1, 2, 3, 4]) for _ in range(nd))
        items = list(rand_index(rng, shape, bad_int=rng.random() < 0.3))
        r = rng.random()
        if r < 0.35:
            items.insert(rng.randrange(0, len(items) + 1), Ellipsis)          # maybe a second ellipsis
        if 0.25 < r < 0.6:
            for _k in range(rng.choice([1, 1, 2])):                            # maybe too many indices
                items.insert(rng.randrange(0, len(items) + 1), rand_item(rng, rng.choice([1, 2, 3]), True))
        if r > 0.9:
            items.insert(rng.randrange(0, len(items) + 1), None)
        out.append(mk_np_case('nps', shape, tuple(items), rng.choice('CF')))
        out.append(mk_np_case('ps', shape, tuple(items)))
    # ---- histories: k >= 2 reads in one thread, all results retained and compared at the end
    out.extend(hist_cases(rng, tier))
    # ---- short files (reader must refuse, never fabricate)
    for _ in range({'quick': 300, 'thorough': 3000, 'search': 300}[tier]):
        nd = rng.choice([1, 2, 3])
        shape = tuple(rng.choice([1, 2, 3, 4]) for _ in range(nd))
        idx = rand_index(rng, shape)
        isz = rng.choice([1, 2, 8])
        c = mk_case(shape, idx, rng.choice('CF'), isz, 4, rand_heur(rng, shape, isz),
                    extra_len=-rng.randrange(1, max(2, int(np.prod(shape)) * isz)), stream='short')
        out.append(c)
    return out
