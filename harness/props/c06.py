"""C06 — reading a slice straight from file bytes equals NumPy indexing (nibabel/fileslice.py)."""
import io
import itertools

import numpy as np

from common import Case, errname

PID = 'C06'
LEAN_TARGETS = ['NibabelModel.Props.C06']
THEOREMS = [
    'Nb.PySlice.sel_lt',
    'Nb.PySlice.sel_length',
    'Nb.C06.fillSlicerOrig_counterexample',
    'Nb.C06.positiveSliceOrig_counterexample',
    # stage A (per axis)
    'Nb.C06.fillSlicer_sel',
    'Nb.C06.fullSlicerLen_fill',
    'Nb.C06.slice2len_spec',
    'Nb.C06.positiveSlice_sel',
    'Nb.C06.optimizeSlicer_sound',
    'Nb.C06.optimizeSlicer_canon',
    'Nb.C06.optimizeSlicer_error_iff',
    'Nb.C06.thresholdHeuristic_int_not_contiguous',
    'Nb.C06.optimizeSlicer_int_full_iff',
    'Nb.C06.optimizeSlicer_slice_full_iff',
    # stage B (segments)
    'Nb.C06.optimizeLoop_canon',
    'Nb.C06.segments_cover',
    'Nb.C06.segments_in_extent',
    # stage C (whole)
    'Nb.C06.fileslice_eq_numpy',
    'Nb.C06.fileslice_threshold_eq_numpy',
    'Nb.C06.reads_within_extent',
    'Nb.C06.fileslice_int_out_of_range',
    # stage D (independent NumPy spec, predict_shape)
    'Nb.C06.npIndex_eq_npSpec',
    'Nb.C06.npIndex_two_ellipses',
    'Nb.C06.fileslice_eq_npSpec',
    'Nb.C06.fileslice_two_ellipses',
    'Nb.C06.predict_shape_spec',
    'Nb.C06.predict_shape_two_ellipses',
]
ASSUMPTIONS = [
    'hand-written Lean model of nibabel/fileslice.py (Model/C06.lean), tied to the code by the '
    'differential correspondence run (result + I/O trace) on every case of this run',
    'Basic/PySlice is a specification of CPython slice semantics, validated in this run against '
    'slice.indices / range on the `spec` stream',
    'NumPy basic indexing is taken as the reference semantics (oracle uses NumPy itself)',
    'element values are identified with element numbers; dtype decoding is NumPy',
]
RULE = ('streams: exhaustive 1-D slices for n<=5 (start/stop in [-n-2,n+2]|None, step in +-1..3|None) x '
        '{full,contig,skip} x {C,F}; random 1-4 axis index tuples (ints, slices, one Ellipsis, newaxis) x '
        'itemsize {1,2,3,8,16} x offsets x heuristics incl. threshold sweeps; helper-prediction stream; '
        'PySlice spec stream; `nps` stream: the independent Lean NumPy spec (Lemmas/C06_NpSpec) vs real NumPy '
        'indexing (shape + element ids) on the random indices plus malformed tuples (two ellipses, too many '
        'indices, rank 0); `ps` stream: predict_shape model vs real predict_shape, oracle = NumPy shape. '
        'A case is non-trivial when the index is not all-full-slices; distinct by '
        '(shape, index, order, itemsize, heuristic).')

def _ellipsis_overflow(shape, idx):
    n_real = sum(1 for i in idx if i is not None and i is not Ellipsis)
    return any(i is Ellipsis for i in idx) and n_real > len(shape)


_N = None


def _fmt_o(v):
    return '_' if v is None else str(int(v))


def fmt_item(it):
    if it is None:
        return 'n'
    if it is Ellipsis:
        return 'e'
    if isinstance(it, slice):
        return 's' + ','.join(_fmt_o(v) for v in (it.start, it.stop, it.step))
    return 'i%d' % int(it)


def fmt_idx(idx):
    return ';'.join(fmt_item(i) for i in idx) if idx else '-'


def item_to_data(it):
    if it is None:
        return 'newaxis'
    if it is Ellipsis:
        return 'ellipsis'
    if isinstance(it, slice):
        return [it.start, it.stop, it.step]
    return int(it)


def item_from_data(d):
    if d == 'newaxis':
        return None
    if d == 'ellipsis':
        return Ellipsis
    if isinstance(d, list):
        return slice(*d)
    return int(d)


def mk_case(shape, idx, order, isz, off, heur, extra_len=0, stream='main', flen=None):
    nbytes = int(np.prod(shape, dtype=object)) * isz if len(shape) else isz
    if flen is None:
        flen = max(0, off + nbytes + extra_len)
    shp = ','.join(map(str, shape)) if shape else '-'
    line = f'C06 fs {order} {isz} {off} {flen} {heur} {shp} {fmt_idx(idx)}'
    data = {'op': 'fs', 'shape': list(shape), 'idx': [item_to_data(i) for i in idx], 'order': order,
            'isz': isz, 'off': off, 'heur': heur, 'flen': flen}
    trivial = all(isinstance(i, slice) and i == slice(None) for i in idx)
    key = None if trivial else (tuple(shape), fmt_idx(idx), order, isz, heur)
    return Case(line, data, key, stream)


def mk_np_case(op, shape, idx, order='F'):
    """op 'nps': independent Lean NumPy spec vs real NumPy; op 'ps': predict_shape model vs real."""
    shp = ','.join(map(str, shape)) if shape else '-'
    if op == 'nps':
        line = f'C06 nps {order} {shp} {fmt_idx(idx)}'
    else:
        line = f'C06 ps {shp} {fmt_idx(idx)}'
    data = {'op': op, 'shape': list(shape), 'idx': [item_to_data(i) for i in idx], 'order': order}
    return Case(line, data, (op, tuple(shape), fmt_idx(idx), order), op)


def case_from_data(d):
    if d['op'] in ('nps', 'ps'):
        return mk_np_case(d['op'], tuple(d['shape']), tuple(item_from_data(i) for i in d['idx']), d['order'])
    if d['op'] == 'fs':
        return mk_case(tuple(d['shape']), tuple(item_from_data(i) for i in d['idx']), d['order'], d['isz'],
                       d['off'], d['heur'], flen=d.get('flen'), stream=d.get('stream', 'main'))
    if d['op'] in ('fill', 'spec'):
        return mk_slice_case(d['op'], d['n'], d['s'])
    raise ValueError(d)


def mk_slice_case(op, n, s):
    line = f'C06 {op} {n} ' + ' '.join(_fmt_o(v) for v in s)
    return Case(line, {'op': op, 'n': n, 's': list(s)}, (op, n, tuple(s)), op)


# ------------------------------------------------------------------ implementation side

class TraceFile(io.BytesIO):
    def __init__(self, b):
        super().__init__(b)
        self.trace = []
        self._pos = None

    def seek(self, o, w=0):
        self._pos = o
        return super().seek(o, w)

    def read(self, n=-1):
        self.trace.append((self._pos, n))
        return super().read(n)


def heuristic_of(name):
    from nibabel import fileslice as fs
    if name == 'full':
        return lambda s, d, st: 'full'
    if name == 'contig':
        return lambda s, d, st: None if isinstance(s, int) else 'contiguous'
    if name == 'skip':
        return lambda s, d, st: None
    if name.startswith('thr:'):
        k = int(name[4:])
        return lambda s, d, st: fs.threshold_heuristic(s, d, st, skip_thresh=k)
    raise ValueError(name)


def make_store(shape, isz, off, flen):
    n = int(np.prod(shape, dtype=object)) if len(shape) else 1
    body = b''.join(int(q % (256 ** isz)).to_bytes(isz, 'little') for q in range(n))
    buf = bytes((37 * i + 11) % 251 for i in range(off)) + body
    buf = buf + bytes((91 * i + 7) % 253 for i in range(max(0, flen - len(buf))))
    return buf[:flen] if flen < len(buf) else buf


def dtype_of(isz):
    return {1: np.dtype('u1'), 2: np.dtype('<u2'), 8: np.dtype('<u8')}.get(isz, np.dtype(f'V{isz}'))


def elems(arr, isz, order):
    flat = np.asarray(arr).ravel(order=order)
    if flat.dtype.kind == 'V':
        return [int.from_bytes(x.tobytes(), 'little') for x in flat]
    return [int(x) for x in flat]


def impl(case):
    d = case.data
    from nibabel import fileslice as fs
    if d['op'] == 'spec':
        n, s = d['n'], slice(*d['s'])
        a, b, c = s.indices(n)
        return f'{list(range(n))[s]} {a} {b} {c}'.replace(' ', '', 0).replace(', ', ',')
    if d['op'] == 'fill':
        n, s = d['n'], slice(*d['s'])
        try:
            f = fs.fill_slicer(s, n)
            p = fs._positive_slice(f)
            return f'{list(range(n))[f]} {fs.slice2len(s, n)} {list(range(n))[p]}'.replace(', ', ',')
        except Exception as e:
            return errname(e)
    if d['op'] == 'nps':     # real NumPy basic indexing (reference for the independent Lean spec)
        shape, idx, order = tuple(d['shape']), tuple(item_from_data(i) for i in d['idx']), d['order']
        n = int(np.prod(shape, dtype=object)) if len(shape) else 1
        full = np.arange(n, dtype=np.int64).reshape(shape, order=order)
        try:
            res = np.asarray(full[idx])
        except IndexError:
            return 'ERR'
        return f'ok {list(res.shape)} {[int(x) for x in res.ravel(order=order)]}'.replace(', ', ',')
    if d['op'] == 'ps':      # real predict_shape
        shape, idx = tuple(d['shape']), tuple(item_from_data(i) for i in d['idx'])
        try:
            return f'ok {list(fs.predict_shape(idx, shape))}'.replace(', ', ',')
        except (IndexError, ValueError):
            return 'ERR'
    shape, idx = tuple(d['shape']), tuple(item_from_data(i) for i in d['idx'])
    isz, off, order = d['isz'], d['off'], d['order']
    f = TraceFile(make_store(shape, isz, off, d['flen']))
    case.extra = {'trace': f.trace}
    h = heuristic_of(d['heur'])
    orig = fs.calc_slicedefs

    def patched(sliceobj, in_shape, itemsize, offset, order_, heuristic=None):
        return orig(sliceobj, in_shape, itemsize, offset, order_, heuristic=h)
    fs.calc_slicedefs = patched
    try:
        try:
            res = fs.fileslice(f, idx, shape, dtype_of(isz), off, order)
        finally:
            fs.calc_slicedefs = orig
    except (IndexError, ValueError):
        tr = f.trace
        return 'ERR' + (' [' + ','.join(f'{o}:{n}' for o, n in tr) + ']' if tr else '')
    except Exception as e:
        return errname(e)
    case.extra['res'] = res
    segs = ','.join(f'{o}:{n}' for o, n in f.trace)
    return f'ok {list(res.shape)} {elems(res, isz, order)} [{segs}]'.replace(', ', ',')


def oracle(case, out):
    d = case.data
    from nibabel import fileslice as fs
    if d['op'] == 'spec':
        return None
    if d['op'] == 'fill':
        n, s = d['n'], slice(*d['s'])
        want = list(range(n))[s]
        exp = f'{want} {len(want)} {sorted(want)}'.replace(', ', ',')
        if out != exp:
            return f'helper prediction differs from Python/NumPy: fill_slicer/slice2len/_positive_slice on n={n} {s}: got {out} want {exp}'
        return None
    if d['op'] == 'nps':
        return None          # spec validation only (reported as a broken correspondence of the spec)
    if d['op'] == 'ps':      # property: predict_shape == shape of NumPy indexing, error iff NumPy errors
        shape, idx = tuple(d['shape']), tuple(item_from_data(i) for i in d['idx'])
        try:
            want = 'ok ' + str(list(np.empty(shape, dtype=np.uint8)[idx].shape)).replace(', ', ',')
        except IndexError:
            want = 'ERR'
        if out != want:
            return f'predict_shape {out} != numpy {want} for shape={shape} idx={idx}'
        return None
    shape, idx = tuple(d['shape']), tuple(item_from_data(i) for i in d['idx'])
    isz, off, order = d['isz'], d['off'], d['order']
    n = int(np.prod(shape, dtype=object)) if len(shape) else 1
    full = np.arange(n, dtype=object).reshape(shape, order=order)
    try:
        want = full[idx]
    except IndexError:
        want = None
    if want is None:
        if not out.startswith('ERR'):
            return f'NumPy raises IndexError for {idx} on {shape} but fileslice returned {out[:120]}'
        return None
    if out.startswith('ERR'):
        if d['flen'] < off + n * isz:
            return None  # short file: refusing is right
        return f'fileslice raised ({out[:60]}) where NumPy indexing succeeds: shape={shape} idx={idx} order={order} heur={d["heur"]}'
    want = np.asarray(want, dtype=object)
    exp = f'ok {list(want.shape)} {[int(x) % (256 ** isz) for x in want.ravel(order=order)]}'.replace(', ', ',')
    if not out.startswith(exp + ' ['):
        return f'fileslice != numpy: shape={shape} idx={idx} order={order} isz={isz} heur={d["heur"]}: got {out[:160]} want {exp[:160]}'
    for o, ln in (case.extra or {}).get('trace', []):
        if ln > 0 and (o < off or o + ln > off + n * isz):
            return f'read outside the array extent: seek {o} read {ln}, extent [{off},{off + n * isz}) shape={shape} idx={idx} heur={d["heur"]}'
    try:
        ps = tuple(fs.predict_shape(idx, shape))
    except Exception as e:
        ps = errname(e)
    if ps != tuple(want.shape):
        return f'predict_shape {ps} != numpy shape {tuple(want.shape)} for shape={shape} idx={idx}'
    return None


def signature(case, what):
    d = case.data
    if d['op'] == 'ps' and _ellipsis_overflow(d['shape'], [item_from_data(i) for i in d['idx']]):
        return 'predict_shape:ellipsis-too-many-indices'
    if d['op'] in ('nps', 'ps'):
        return 'npspec:' + d['op']
    if d['op'] != 'fs':
        return 'helpers:' + d['op']
    kinds = []
    for it, n in zip(d['idx'], d['shape']):
        if isinstance(it, list):
            a, b, c = it
            if (a is not None and (a < -n or a > n)) or (b is not None and (b < -n or b > n)):
                kinds.append('slice-out-of-range')
            elif c is not None and c < 0:
                kinds.append('slice-negstep')
        elif isinstance(it, int) and (it < -n or it >= n):
            kinds.append('int-out-of-range')
    return 'fileslice:' + ('+'.join(sorted(set(kinds))) or 'in-range')


def shrink_candidates(case):
    d = case.data
    if d['op'] != 'fs':
        return
    shape, idx = list(d['shape']), [item_from_data(i) for i in d['idx']]
    if any(i is Ellipsis or i is None for i in idx) or len(idx) != len(shape):
        return
    for ax in range(len(shape)):
        if len(shape) > 1 and (idx[ax] == slice(None) or isinstance(idx[ax], int)):
            yield mk_case(shape[:ax] + shape[ax + 1:], idx[:ax] + idx[ax + 1:], d['order'], d['isz'], d['off'], d['heur'])
    for ax in range(len(shape)):
        if shape[ax] > 1:
            s2 = list(shape)
            s2[ax] -= 1
            yield mk_case(s2, idx, d['order'], d['isz'], d['off'], d['heur'])
    if d['isz'] != 1:
        yield mk_case(shape, idx, d['order'], 1, d['off'], d['heur'])
    if d['off'] != 0:
        yield mk_case(shape, idx, d['order'], d['isz'], 0, d['heur'])


# ------------------------------------------------------------------ generators

def bounds(n, pad=2):
    return [None] + list(range(-n - pad, n + pad + 1))


STEPS = [None, 1, 2, 3, -1, -2, -3]


def rand_item(rng, n, allow_bad_int=False):
    r = rng.random()
    if r < 0.3 and n > 0:
        return rng.randrange(-n, n)
    if r < 0.33:
        return rng.randrange(-n - 2, n + 2) if allow_bad_int else (rng.randrange(-n, n) if n else slice(None))
    if r < 0.45:
        return slice(None)
    return slice(rng.choice(bounds(n)), rng.choice(bounds(n)), rng.choice(STEPS))


def rand_index(rng, shape, bad_int=False):
    nd = len(shape)
    use_ell = rng.random() < 0.25
    if use_ell:
        k = rng.randrange(0, nd + 1)      # number of explicit real items
        before = rng.randrange(0, k + 1)
        axes = list(range(before)) + list(range(nd - (k - before), nd))
        items = [rand_item(rng, shape[a], bad_int) for a in axes]
        items = items[:before] + [Ellipsis] + items[before:]
    else:
        k = rng.randrange(0, nd + 1) if rng.random() < 0.3 else nd
        items = [rand_item(rng, shape[a], bad_int) for a in range(k)]
    for _ in range(rng.choice([0, 0, 0, 1, 2])):
        items.insert(rng.randrange(0, len(items) + 1), None)
    return tuple(items)


def rand_heur(rng, shape, isz):
    r = rng.random()
    if r < 0.2:
        return 'full'
    if r < 0.4:
        return 'contig'
    if r < 0.55:
        return 'skip'
    # threshold swept across the strides of this array
    strides = [isz]
    for n in shape:
        strides.append(strides[-1] * max(n, 1))
    k = rng.choice(strides) * rng.choice([1, 1, 2, 3]) + rng.choice([-1, 0, 0, 1])
    return 'thr:%d' % max(k, 0) if rng.random() < 0.85 else 'thr:256'


def cases(rng, tier):
    out = []
    # ---- PySlice spec validation + helper predictions (exhaustive small)
    nmax = 5 if tier != 'thorough' else 6
    for n in range(0, nmax + 1):
        for a in bounds(n, 3):
            for b in bounds(n, 3):
                for c in STEPS:
                    out.append(mk_slice_case('spec', n, (a, b, c)))
                    out.append(mk_slice_case('fill', n, (a, b, c)))
    # ---- exhaustive 1-D
    for n in range(0, 6):
        for a in bounds(n):
            for b in bounds(n):
                for c in STEPS:
                    for heur in ('full', 'contig', 'skip'):
                        for order in 'CF':
                            out.append(mk_case((n,), (slice(a, b, c),), order, 2, 6, heur, stream='1d'))
        for i in range(-n - 2, n + 2):
            for heur in ('full', 'skip', 'thr:256'):
                out.append(mk_case((n,), (i,), 'C', 2, 6, heur, stream='1d-int'))
    # ---- exhaustive 2-D over a reduced alphabet (thorough)
    if tier == 'thorough':
        alpha = lambda n: [slice(None), 0, n - 1, -1, slice(1, None), slice(None, None, -1), slice(None, None, 2),
                           slice(-n - 1, None, 2), slice(None, -n - 1, -2), slice(n, 0, -2), slice(1, n - 1, 1),
                           slice(n + 1, None, -1), slice(0, 1, -3)]
        for n0 in range(1, 5):
            for n1 in range(1, 5):
                for i0 in alpha(n0):
                    for i1 in alpha(n1):
                        for heur in ('full', 'contig', 'skip', 'thr:2', 'thr:4', 'thr:8'):
                            for order in 'CF':
                                out.append(mk_case((n0, n1), (i0, i1), order, 2, 3, heur, stream='2d'))
    # ---- random multi-axis
    nrand = {'quick': 6000, 'thorough': 120000, 'search': 30000}[tier]
    for _ in range(nrand):
        nd = rng.choice([1, 2, 2, 3, 3, 4])
        big = rng.random() < 0.05
        shape = tuple(rng.choice([0, 1, 1, 2, 3, 4, 5]) if not big else rng.choice([1, 7, 16, 33]) for _ in range(nd))
        while int(np.prod(shape)) > 2500:
            shape = shape[:-1]
        isz = rng.choice([1, 2, 3, 8, 16])
        if isz == 1 and int(np.prod(shape)) > 256:
            isz = 2
        idx = rand_index(rng, shape, bad_int=rng.random() < 0.1)
        out.append(mk_case(shape, idx, rng.choice('CF'), isz, rng.choice([0, 1, 7, 352]), rand_heur(rng, shape, isz),
                           stream='random'))
        # the same index against the independent NumPy spec and the predict_shape model
        out.append(mk_np_case('nps', shape, idx, rng.choice('CF')))
        out.append(mk_np_case('ps', shape, idx))
    # ---- malformed / edge index tuples for the NumPy spec: two ellipses, too many indices, rank 0
    for _ in range({'quick': 1500, 'thorough': 15000, 'search': 1500}[tier]):
        nd = rng.choice([0, 1, 1, 2, 2, 3])
        shape = tuple(rng.choice([0, 1, 2, 3, 4]) for _ in range(nd))
        items = list(rand_index(rng, shape, bad_int=rng.random() < 0.3))
        r = rng.random()
        if r < 0.35:
            items.insert(rng.randrange(0, len(items) + 1), Ellipsis)          # maybe a second ellipsis
        if 0.25 < r < 0.6:
            for _k in range(rng.choice([1, 1, 2])):                            # maybe too many indices
                items.insert(rng.randrange(0, len(items) + 1), rand_item(rng, rng.choice([1, 2, 3]), True))
        if r > 0.9:
            items.insert(rng.randrange(0, len(items) + 1), None)
        out.append(mk_np_case('nps', shape, tuple(items), rng.choice('CF')))
        out.append(mk_np_case('ps', shape, tuple(items)))
    # ---- short files (reader must refuse, never fabricate)
    for _ in range({'quick': 300, 'thorough': 3000, 'search': 300}[tier]):
        nd = rng.choice([1, 2, 3])
        shape = tuple(rng.choice([1, 2, 3, 4]) for _ in range(nd))
        idx = rand_index(rng, shape)
        isz = rng.choice([1, 2, 8])
        c = mk_case(shape, idx, rng.choice('CF'), isz, 4, rand_heur(rng, shape, isz),
                    extra_len=-rng.randrange(1, max(2, int(np.prod(shape)) * isz)), stream='short')
        out.append(c)
    return out
